"""C15 kernels (CrossHair, E1): literals denote exactly the bytes / values they spell.

Every harness calls the REAL functions of nmfu.py (imported from VERIF_REPO, default /repo), on inputs built from symbolic
byte values (0..255 per position) and a symbolic choice of spelling per byte. Harness functions return a bool and carry
the PEP-316 contract. Variants: `<h>__reach` reachability twin (must yield a counterexample); `<h>__in_<k>` the obligation
restricted to the region of known finding k (yields the finding's witness while the defect exists); `<h>__excl` the
obligation with every known region excluded in `pre:` (must be confirmed; regions + excl cover the domain of <h>);
`<h>__explain` (concrete only) describes a witness.  The table HARNESSES at the end maps obligations to these functions.

Bounds come from the environment (set per condition by engines/xhair.py):
  XH_N     maximal literal length in bytes (default 2)
  XH_NP/XH_P  case split of the input space into NP parts on data[0] % NP == P (each part is a separate solver run)
  XH_RAW=1 (convert_string hex1: the non-hex bytes are raw characters only), XH_K (c_literal: max. number of bytes outside 32..126)
Spelling codes (argument `sp`, one per byte): 0 raw character, 1 \\xhh (lower case digits), 2 \\xHH (upper case digits),
3 named escape (\\n \\r \\t \\b \\0 \\" \\\\ ; for character constants also \\').
Note on cost: nmfu decodes \\xHH with int(.., base=16), which CrossHair can only execute by letting the solver pick each
digit value in turn (256 solver-chosen paths per hex-spelled byte); the number of hex-spelled bytes per literal is
therefore bounded separately (harness str_hex1: exactly one, str_hex2: exactly two).
"""
import os, sys
from typing import List

REPO = os.environ.get('VERIF_REPO', '/repo')
if REPO not in sys.path:
    sys.path.insert(0, REPO)
import nmfu  # noqa: E402  the real compiler

N = int(os.environ.get('XH_N', '2'))
NP = int(os.environ.get('XH_NP', '1'))
P = int(os.environ.get('XH_P', '0'))

BS = chr(92)
DQ = chr(34)
SQ = chr(39)
HEXL = '0123456789abcdef'
HEXU = '0123456789ABCDEF'
NAMED = {10: 'n', 13: 'r', 9: 't', 8: 'b', 0: '0', 34: DQ, 92: BS}          # value -> escape letter (strings)
NAMEDC = {10: 'n', 13: 'r', 9: 't', 8: 'b', 0: '0', 34: DQ, 92: BS, 39: SQ, 7: 'a', 12: 'f', 11: 'v'}  # character constants (the C escapes the reference promises: "behave as they do in C")

_pctx = object.__new__(nmfu.ParseCtx)        # the converters use no instance state
_cg = object.__new__(nmfu.CodegenCtx)        # _escape_string/_generate_set_string/_integer_containing use no instance state
_cdm = object.__new__(nmfu.CaseDirectMatch)  # _create_casei_from uses no instance state


# ---------------------------------------------------------------------------------------------
# domains.  The predicates used in `pre:` are written with & and | on (symbolic) booleans instead of and/or/if, so that
# CrossHair evaluates them as ONE solver term instead of forking a path per disjunct (measured: 3x fewer paths).
def no(x):
    return x == False  # noqa: E712  (works for bool and for CrossHair's symbolic bool; `not` would fork)


def part(data):
    """case split used to spread one obligation over several solver runs"""
    if NP <= 1:
        return True
    if len(data) == 0:
        return P == 0
    return data[0] % NP == P


def is_byte(b):
    return (0 <= b) & (b <= 255)


def is_bytes(data):
    ok = True
    for b in data:
        ok = ok & is_byte(b)
    return ok


def in_named(b):
    return (b == 10) | (b == 13) | (b == 9) | (b == 8) | (b == 0) | (b == 34) | (b == 92)


RAWONLY = os.environ.get('XH_RAW', '0') == '1'   # non-hex positions are raw characters only (no named escapes)


def dom_str(data, sp, h1, h2):
    """data: byte values; sp: spelling per byte; positions h1, h2 (or -1) are the hex-spelled ones, all others raw/named"""
    if len(data) != len(sp) or len(data) > N:
        return False
    ok = True
    for i in range(len(data)):
        b, s = data[i], sp[i]
        hexpos = (i == h1) | (i == h2)
        raw = (s == 0) & (b != 34) & (b != 92)            # raw " and \ cannot appear in a STRING body
        named = (s == 3) & in_named(b)
        if RAWONLY:
            named = False
        ok = ok & is_byte(b) & ((hexpos & ((s == 1) | (s == 2))) | (no(hexpos) & (raw | named)))
    return ok & part(data)


def spell_byte(b, s, named):
    if s == 0:
        return chr(b)
    if s == 1:
        return BS + 'x' + HEXL[b >> 4] + HEXL[b & 15]
    if s == 2:
        return BS + 'x' + HEXU[b >> 4] + HEXU[b & 15]
    return BS + named[b]


def spell_str(data, sp):
    out = ''
    for b, s in zip(data, sp):
        out += spell_byte(b, s, NAMED)
    return DQ + out + DQ


def chars(data):
    return ''.join(chr(b) for b in data)


# ---------------------------------------------------------------------------------------------
# _convert_string
def _str_ok(data, sp):
    try:
        r = _pctx._convert_string(spell_str(data, sp))
    except Exception:
        return False
    return r == chars(data)


def str_plain(data: List[int], sp: List[int]) -> bool:
    """
    pre: dom_str(data, sp, -1, -1)
    post: _
    """
    return _str_ok(data, sp)


def str_plain__reach(data: List[int], sp: List[int]) -> bool:
    """
    pre: dom_str(data, sp, -1, -1)
    post: not _
    """
    return len(data) == N and (RAWONLY or 3 in sp)


def str_hex1(data: List[int], sp: List[int], h: int) -> bool:
    """
    pre: 0 <= h < len(data) and dom_str(data, sp, h, -1)
    post: _
    """
    return _str_ok(data, sp)


def str_hex1__reach(data: List[int], sp: List[int], h: int) -> bool:
    """
    pre: 0 <= h < len(data) and dom_str(data, sp, h, -1)
    post: not _
    """
    return len(data) == N and h == N - 1


def str_hex2(data: List[int], sp: List[int]) -> bool:
    """
    pre: len(data) == 2 and sp == [1, 1] and dom_str(data, sp, 0, 1)
    post: _
    """
    return _str_ok(data, sp)


def str_hex2__reach(data: List[int], sp: List[int]) -> bool:
    """
    pre: len(data) == 2 and sp == [1, 1] and dom_str(data, sp, 0, 1)
    post: not _
    """
    return True


def str_plain__explain(data, sp, h=None):
    tok = spell_str(data, sp)
    d = {'token': tok, 'expected': list(data)}
    try:
        d['observed'] = [ord(c) for c in _pctx._convert_string(tok)]
    except Exception as e:
        d['exc'] = type(e).__name__
        d['exc_msg'] = str(e)[:200]
    return d


str_hex1__explain = str_hex2__explain = str_plain__explain


# ---------------------------------------------------------------------------------------------
# _convert_char_const (callers take ord() of the result: nmfu.py _parse_math_expr / _parse_integer_expr)
def dom_char(b, s):
    return ((s == 0) & is_byte(b) & (b != 39) & (b != 92)) | ((s == 3) & (in_named(b) | (b == 39) | (b == 7) | (b == 12) | (b == 11)))


def spell_char(b, s):
    return SQ + spell_byte(b, s, NAMEDC) + SQ


def known_char_nul(b, s):
    """known finding C15-charconst-nul: the spelling '\\0' """
    return (s == 3) & (b == 0)


def _char_ok(b, s):
    try:
        r = _pctx._convert_char_const(spell_char(b, s))
        return ord(r) == b
    except Exception:
        return False


def char_const(b: int, s: int) -> bool:
    """
    pre: dom_char(b, s)
    post: _
    """
    return _char_ok(b, s)


def char_const__reach(b: int, s: int) -> bool:
    """
    pre: dom_char(b, s)
    post: not _
    """
    return s == 3


def char_const__in_nul(b: int, s: int) -> bool:
    """
    pre: dom_char(b, s) & known_char_nul(b, s)
    post: _
    """
    return _char_ok(b, s)


def char_const__excl(b: int, s: int) -> bool:
    """
    pre: dom_char(b, s) & no(known_char_nul(b, s))
    post: _
    """
    return _char_ok(b, s)


def char_const__excl__reach(b: int, s: int) -> bool:
    """
    pre: dom_char(b, s) & no(known_char_nul(b, s))
    post: not _
    """
    return s == 3


def char_const__explain(b, s):
    tok = spell_char(b, s)
    d = {'token': tok, 'expected': b}
    try:
        d['observed'] = ord(_pctx._convert_char_const(tok))
    except Exception as e:
        d['exc'] = type(e).__name__
    return d


# ---------------------------------------------------------------------------------------------
# _convert_binary_string: "11 22 05"b  (hex pairs, optional blank between pairs as in docs/user-ref "Binary Matches").
# up[k]: nibble k is spelled with an upper-case digit; gaps[k] in {0,1}: a blank before byte k (gaps[len] = trailing).
def dom_bin(data, up, gaps):
    if len(data) > N or len(up) != 2 * len(data) or len(gaps) != len(data) + 1:
        return False
    ok = is_bytes(data)
    for g in gaps:
        ok = ok & ((g == 0) | (g == 1))
    return ok & part(data)


def spell_bin(data, up, gaps):
    out = ' ' if gaps[0] else ''
    for i, b in enumerate(data):
        out += (HEXU if up[2 * i] else HEXL)[b >> 4]
        out += (HEXU if up[2 * i + 1] else HEXL)[b & 15]
        if gaps[i + 1]:
            out += ' '
    return DQ + out + DQ


def _bin_ok(data, up, gaps):
    try:
        r = _pctx._convert_binary_string(spell_bin(data, up, gaps))
    except Exception:
        return False
    return r == chars(data)


def bin_string(data: List[int], up: List[bool], gaps: List[int]) -> bool:
    """
    pre: dom_bin(data, up, gaps)
    post: _
    """
    return _bin_ok(data, up, gaps)


def bin_string__reach(data: List[int], up: List[bool], gaps: List[int]) -> bool:
    """
    pre: dom_bin(data, up, gaps)
    post: not _
    """
    return len(data) == N


def bin_pairs(data: List[int]) -> bool:
    """
    pre: len(data) == 2 and is_bytes(data) & part(data)
    post: _
    """
    return _bin_ok(data, [False] * 4, [0, 0, 0])


def bin_pairs__reach(data: List[int]) -> bool:
    """
    pre: len(data) == 2 and is_bytes(data) & part(data)
    post: not _
    """
    return True


# word grouping: "0041 42"b -- the hex pairs of several bytes written without a blank between them form one word; the bytes are
# the pairs whatever the grouping.  data: 2..N bytes, each from the alphabet WB (XH_WB, hex pairs; the values that matter to a
# word-wise conversion: 00 as a leading/inner/trailing byte, a leading zero nibble, letters, the sign bit, all ones) -- which member is
# solver-chosen per position; join[k] in {0,1}: 1 = byte k+1 continues the word of byte k (no blank), 0 = one blank between them
# (symbolic grouping: every composition of len(data) into words of 1..len(data) bytes).  Lower-case digits (case: bin_string).
# (A restricted byte alphabet because every hex digit is solver-enumerated: all 256 values per byte are 65 536 paths for two bytes --
# harness bin_pairs, thorough tier.)
WB = [int(x, 16) for x in os.environ.get('XH_WB', '00,01,0a,41,80,ff').split(',')]


def in_wb(b):
    ok = False
    for v in WB:
        ok = ok | (b == v)
    return ok


def dom_binw(data, join):
    if not (2 <= len(data) <= N) or len(join) != len(data) - 1:
        return False
    ok = True
    for b in data:
        ok = ok & in_wb(b)
    for j in join:
        ok = ok & ((j == 0) | (j == 1))
    return ok & part(data)


def spell_binw(data, join):
    out = ''
    for i, b in enumerate(data):
        if i > 0 and join[i - 1] == 0:
            out += ' '
        out += HEXL[b >> 4] + HEXL[b & 15]
    return DQ + out + DQ


def _binw_ok(data, join):
    try:
        r = _pctx._convert_binary_string(spell_binw(data, join))
    except Exception:
        return False
    return r == chars(data)


def bin_words(data: List[int], join: List[int]) -> bool:
    """
    pre: dom_binw(data, join)
    post: _
    """
    return _binw_ok(data, join)


def bin_words__reach(data: List[int], join: List[int]) -> bool:
    """
    pre: dom_binw(data, join)
    post: not _
    """
    return len(data) == N and data[0] == 0 and data[N - 1] == 0 and sum(join) == N - 1


def bin_words__explain(data, join):
    tok = spell_binw(data, join)
    d = {'token': tok, 'expected': list(data)}
    try:
        d['observed'] = [ord(c) for c in _pctx._convert_binary_string(tok)]
    except Exception as e:
        d['exc'] = type(e).__name__
    return d


def bin_string__explain(data, up, gaps):
    tok = spell_bin(data, up, gaps)
    d = {'token': tok, 'expected': list(data)}
    try:
        d['observed'] = [ord(c) for c in _pctx._convert_binary_string(tok)]
    except Exception as e:
        d['exc'] = type(e).__name__
    return d


def bin_pairs__explain(data):
    return bin_string__explain(data, [False] * 4, [0, 0, 0])


# ---------------------------------------------------------------------------------------------
# _convert_int: sign / prefix dispatch. Digit arithmetic is Python's int() (decimal and binary digits stay symbolic in
# CrossHair, hexadecimal digits are solver-enumerated).  Grammar: HEX_NUMBER and NUMBER take a sign, BIN_NUMBER does not;
# _parse_math_expr also never passes a signed binary token.
def dom_int(sign, radix, digits):
    if not (1 <= len(digits) <= N):
        return False
    ok = (0 <= sign) & (sign <= 2) & (0 <= radix) & (radix <= 2) & ((radix != 2) | (sign == 0))
    for d in digits:
        ok = ok & (0 <= d) & (((radix == 0) & (d < 10)) | ((radix == 1) & (d < 16)) | ((radix == 2) & (d < 2)))
    return ok & part(digits)


def spell_int(sign, radix, digits, upper):
    s = ['', '+', '-'][sign] + ['', '0x', '0b'][radix]
    for d in digits:
        s += (HEXU if upper else HEXL)[d]
    return s


def int_value(sign, radix, digits):
    base = 10 if radix == 0 else (16 if radix == 1 else 2)
    v = 0
    for d in digits:
        v = v * base + d
    return -v if sign == 2 else v


def _int_ok(sign, radix, digits, upper):
    try:
        return _pctx._convert_int(spell_int(sign, radix, digits, upper)) == int_value(sign, radix, digits)
    except Exception:
        return False


def int_dispatch(sign: int, radix: int, digits: List[int], upper: bool) -> bool:
    """
    pre: dom_int(sign, radix, digits)
    post: _
    """
    return _int_ok(sign, radix, digits, upper)


def int_dispatch__reach(sign: int, radix: int, digits: List[int], upper: bool) -> bool:
    """
    pre: dom_int(sign, radix, digits)
    post: not _
    """
    return sign == 2 and radix == 1 and len(digits) == N


def int_dispatch__explain(sign, radix, digits, upper):
    tok = spell_int(sign, radix, digits, upper)
    d = {'token': tok, 'expected': int_value(sign, radix, digits)}
    try:
        d['observed'] = _pctx._convert_int(tok)
    except Exception as e:
        d['exc'] = type(e).__name__
    return d


# ---------------------------------------------------------------------------------------------
# CaseDirectMatch._create_casei_from: the set of bytes accepted at one position of a "..."i literal
def casei_expected(c):
    if 65 <= c <= 90:
        return [c, c + 32]
    if 97 <= c <= 122:
        return [c, c - 32]
    return [c]


def _casei_ok(c):
    try:
        r = _cdm._create_casei_from(chr(c))
        got = sorted(ord(x) for x in r)
    except Exception:
        return False
    return got == sorted(casei_expected(c))


def casei(c: int) -> bool:
    """
    pre: 0 <= c <= 255
    post: _
    """
    return _casei_ok(c)


def casei__reach(c: int) -> bool:
    """
    pre: 0 <= c <= 255
    post: not _
    """
    return 97 <= c <= 122


def casei__explain(c):
    d = {'expected': sorted(casei_expected(c))}
    try:
        d['observed'] = sorted(ord(x) for x in _cdm._create_casei_from(chr(c)))
    except Exception as e:
        d['exc'] = type(e).__name__
    return d


# ---------------------------------------------------------------------------------------------
# CodegenCtx._escape_string + _generate_set_string composed with OUR OWN decoder of C string-literal syntax
# (C11 6.4.4.4 / 6.4.5: simple escapes, octal escapes of 1-3 digits, hexadecimal escapes that extend over ALL following
# hexadecimal digits; source characters >= 0x80 stand for their UTF-8 bytes as with gcc/clang's default charset).
_SIMPLE = {'n': 10, 'r': 13, 't': 9, 'b': 8, 'a': 7, 'f': 12, 'v': 11, BS: 92, DQ: 34, SQ: 39, '?': 63}
_HEXV = {c: i for i, c in enumerate(HEXL)}
_HEXV.update({c: i for i, c in enumerate(HEXU)})


def c_unescape(s):
    """bytes denoted by the body of a C string literal, or None if it is not a valid body"""
    out = []
    i, n = 0, len(s)
    while i < n:
        c = s[i]
        if c == DQ or c == '\n':
            return None
        if c != BS:
            o = ord(c)
            if o < 128:
                out.append(o)
            else:
                out.extend(c.encode('utf-8'))
            i += 1
            continue
        i += 1
        if i >= n:
            return None
        c = s[i]
        if c == 'x':
            i += 1
            v, nd = 0, 0
            while i < n and s[i] in _HEXV:
                v = v * 16 + _HEXV[s[i]]
                nd += 1
                i += 1
            if nd == 0 or v > 255:
                return None            # "\x used with no following hex digits" / "hex escape sequence out of range"
            out.append(v)
        elif '0' <= c <= '7':
            v, nd = 0, 0
            while i < n and nd < 3 and '0' <= s[i] <= '7':
                v = v * 8 + (ord(s[i]) - 48)
                nd += 1
                i += 1
            if v > 255:
                return None
            out.append(v)
        elif c in _SIMPLE:
            out.append(_SIMPLE[c])
            i += 1
        else:
            return None
    return out


def parse_memcpy(stmt):
    """'memcpy(state->c.NAME, "LIT", LEN);' -> (NAME, LIT body, LEN) by our own scanner; None if not of that shape"""
    head = 'memcpy(state->c.'
    if not stmt.startswith(head):
        return None
    j = stmt.find(', "')
    if j < 0:
        return None
    name = stmt[len(head):j]
    i = j + 3
    k = i
    while k < len(stmt):
        if stmt[k] == BS:
            k += 2
            continue
        if stmt[k] == DQ:
            break
        k += 1
    if k >= len(stmt):
        return None
    body = stmt[i:k]
    tail = stmt[k + 1:]
    if not (tail.startswith(', ') and tail.endswith(');')):
        return None
    num = tail[2:-2]
    if len(num) == 0 or not all('0' <= ch <= '9' for ch in num):
        return None
    return name, body, int(num)


K = int(os.environ.get('XH_K', '99'))   # maximal number of bytes outside 32..126 in a literal (each is emitted through
#                                          "\\x{:02x}".format(i), which CrossHair executes by solver-enumerating i: 161 paths per such byte)


def nonprint(b):
    return b < 32 or b >= 127


def dom_lit(data):
    # (plain and/or here: for this harness forking preconditions are far cheaper for the solver than one big term - measured)
    if len(data) > N or not all(0 <= b <= 255 for b in data) or not part(data):
        return False
    if K < len(data):
        return sum(1 for b in data if nonprint(b)) <= K
    return True


def known_lit_utf8(data, as_bytes):
    """known finding C15-escape-utf8: a str value (string constant) with a byte >= 0x80"""
    return (not as_bytes) and any(b >= 128 for b in data)


def _is_hexdigit(b):
    return 48 <= b <= 57 or 65 <= b <= 70 or 97 <= b <= 102


def known_lit_hexrun(data):
    """known finding C15-escape-hexrun: a byte emitted as \\xhh (outside 32..126) directly followed by a hex-digit character"""
    return any(nonprint(data[i]) and _is_hexdigit(data[i + 1]) for i in range(len(data) - 1))


def _value(data, as_bytes):
    # string constants reach the code generator as str (code points = byte values, nmfu.py _parse_assign_stmt /
    # _parse_out_decl), binary defaults as bytes (.encode('latin-1') in _parse_out_decl)
    return bytes(data) if as_bytes else chars(data)


def _lit_ok(data, as_bytes, null):
    try:
        into = nmfu.OutputStorage(nmfu.OutputStorageType.STR, 's', str_size=len(data) + 1, str_null=null)
        stmt = _cg._generate_set_string(_value(data, as_bytes), into)
        parsed = parse_memcpy(stmt)
        if parsed is None:
            return False
        name, body, length = parsed
        den = c_unescape(body)
        if den is None:
            return False
        # the literal denotes exactly the bytes; memcpy copies exactly them (+ the literal's own NUL iff terminated)
        return name == 's' and den == list(data) and length == len(data) + (1 if null else 0)
    except Exception:
        return False


def c_literal(data: List[int], as_bytes: bool, null: bool) -> bool:
    """
    pre: dom_lit(data)
    post: _
    """
    return _lit_ok(data, as_bytes, null)


def c_literal__reach(data: List[int], as_bytes: bool, null: bool) -> bool:
    """
    pre: dom_lit(data)
    post: not _
    """
    return len(data) == N


def c_literal__in_utf8(data: List[int], as_bytes: bool, null: bool) -> bool:
    """
    pre: dom_lit(data) and known_lit_utf8(data, as_bytes)
    post: _
    """
    return _lit_ok(data, as_bytes, null)


def c_literal__in_hexrun(data: List[int], as_bytes: bool, null: bool) -> bool:
    """
    pre: dom_lit(data) and known_lit_hexrun(data) and not known_lit_utf8(data, as_bytes)
    post: _
    """
    return _lit_ok(data, as_bytes, null)


def c_literal__excl(data: List[int], as_bytes: bool, null: bool) -> bool:
    """
    pre: dom_lit(data) and not known_lit_utf8(data, as_bytes) and not known_lit_hexrun(data)
    post: _
    """
    return _lit_ok(data, as_bytes, null)


def c_literal__excl__reach(data: List[int], as_bytes: bool, null: bool) -> bool:
    """
    pre: dom_lit(data) and not known_lit_utf8(data, as_bytes) and not known_lit_hexrun(data)
    post: not _
    """
    return len(data) == N


def _gcc_bytes(body):
    """what the installed C compiler says the literal denotes (extra confirmation in replays only; not the verdict)"""
    import subprocess, tempfile, shutil
    d = tempfile.mkdtemp(prefix='xh-lit-')
    try:
        src = ('#include <stdio.h>\nstatic const char L[] = "%s";\nint main(void){for (unsigned i = 0; i + 1 < sizeof L; i++) '
               'printf("%%d ", (unsigned char)L[i]); return 0;}\n') % body
        with open(os.path.join(d, 'l.c'), 'w') as f:
            f.write(src)
        r = subprocess.run(['gcc', '-w', '-o', os.path.join(d, 'l'), os.path.join(d, 'l.c')], capture_output=True, text=True)
        if r.returncode != 0:
            return 'gcc rejects: ' + r.stderr.strip().splitlines()[0][:160]
        out = subprocess.run([os.path.join(d, 'l')], capture_output=True, text=True).stdout.split()
        return [int(x) for x in out]
    except Exception as e:
        return 'gcc unavailable: ' + type(e).__name__
    finally:
        shutil.rmtree(d, ignore_errors=True)


def c_literal__explain(data, as_bytes, null):
    d = {'expected_bytes': list(data), 'expected_length': len(data) + (1 if null else 0)}
    try:
        into = nmfu.OutputStorage(nmfu.OutputStorageType.STR, 's', str_size=len(data) + 1, str_null=null)
        stmt = _cg._generate_set_string(_value(data, as_bytes), into)
        d['emitted'] = stmt
        p = parse_memcpy(stmt)
        if p:
            d['literal_denotes'] = c_unescape(p[1])
            d['emitted_length'] = p[2]
            d['gcc_says_literal_denotes'] = _gcc_bytes(p[1])
    except Exception as e:
        d['exc'] = type(e).__name__
    return d


# ---------------------------------------------------------------------------------------------
# obligation table for checks/c15.py.  regions: (harness restricted to the region, id of the finding it must hit);
# excl: the obligation with every known region excluded (regions + excl together cover the harness' whole domain)
HARNESSES = {
    'C15/convert_string/plain': dict(fn='str_plain', reach=['str_plain__reach']),
    'C15/convert_string/hex1': dict(fn='str_hex1', reach=['str_hex1__reach']),
    'C15/convert_string/hex2': dict(fn='str_hex2', reach=['str_hex2__reach']),
    'C15/convert_char_const': dict(fn='char_const', reach=['char_const__reach', 'char_const__excl__reach'], excl='char_const__excl',
                                   regions=[('char_const__in_nul', 'C15-charconst-nul')]),
    'C15/convert_binary_string': dict(fn='bin_string', reach=['bin_string__reach']),
    'C15/convert_binary_string/pairs': dict(fn='bin_pairs', reach=['bin_pairs__reach']),
    'C15/convert_binary_string/words': dict(fn='bin_words', reach=['bin_words__reach']),
    'C15/convert_int_dispatch': dict(fn='int_dispatch', reach=['int_dispatch__reach']),
    'C15/casei_pair': dict(fn='casei', reach=['casei__reach']),
    'C15/c_literal': dict(fn='c_literal', reach=['c_literal__reach', 'c_literal__excl__reach'], excl='c_literal__excl',
                          regions=[('c_literal__in_utf8', 'C15-escape-utf8'), ('c_literal__in_hexrun', 'C15-escape-hexrun')]),
}
