"""C19(b) kernels (CrossHair, E1): the argv loop of the real ProgramData.load_commandline_flags.

  argv_token   ONE symbolic option token (any characters, at most XH_N of them, default 5) placed before or after a concrete
               file name (`first` symbolic).  Allowed outcomes: RuntimeError (the one main() reports), SystemExit(0) for the
               help/version options, or a normal return - but a normal return only if OUR reading of the option syntax
               (from `nmfu --help`: -o<arg> -O<level> -f<flag> -fno-<flag> -d<arg>,<arg> -t -h --help --help-all --version
               --dry-run, --<long> <value>) says the token is a known, well-formed option.  Everything else that escapes
               (KeyError, ValueError, IndexError, ...) is a finding.
  argv_value   a concrete long option that takes a value (--flag --dump --output --dump-prefix + every generation option,
               chosen by a symbolic index) followed by ONE symbolic value token (<= XH_N characters).  Same outcome rule;
               must-raise is demanded only for values our reading calls malformed.
  argv_order   two different known, well-formed options (symbolic indices into OPTS, different option families) and the
               file name in a symbolic arrangement: the outcome (raise / returned pair / complete flag and option maps,
               dump list, dry-run) must not depend on the relative order of the two options (the file's position fixed),
               and must not depend on where the file name stands relative to the options.

Conservative oracle: when in doubt a token is treated as "may return" (e.g. `-o` with an empty name, `-tJUNK`, `-O01`),
so everything reported is an option our reading of the help text clearly calls unknown or malformed.

Bounds (environment, set per condition by engines/xhair.py): XH_N maximal token / value length; XH_ALPHA the characters a
symbolic token may contain (default: all code points < 128) - load_commandline_flags calls .upper() / int() / Enum(value)
on the text, which CrossHair executes by solver enumeration of the concrete texts, so length x alphabet must stay small;
XH_RELATED=1|2 smaller option tables for argv_order / argv_filepos (indices into the concrete table are likewise
enumerated by the solver); XH_NP/XH_P case split.  Variants __reach / __in_<k> / __excl / __explain as in k_c15.py.
"""
import os, sys, io, contextlib
from typing import List

REPO = os.environ.get('VERIF_REPO', '/repo')
if REPO not in sys.path:
    sys.path.insert(0, REPO)
import nmfu  # noqa: E402

N = int(os.environ.get('XH_N', '5'))
NP = int(os.environ.get('XH_NP', '1'))
P = int(os.environ.get('XH_P', '0'))
FILE = 'in.nmfu'
PD = nmfu.ProgramData

DUMPABLE = [d.value for d in nmfu.DebugDumpable]
FLAGNAMES = [f.name.lower().replace('_', '-') for f in nmfu.ProgramFlag]
OPTIONNAMES = [o.name.lower().replace('_', '-') for o in nmfu.ProgramOption]


def _call(argv):
    """('ret', pair) | ('raise', 'RuntimeError') | ('exit', code) | ('crash', type name)"""
    try:
        with contextlib.redirect_stdout(io.StringIO()):
            r = PD.load_commandline_flags(argv)
        return ('ret', r)
    except RuntimeError as e:
        if type(e) is RuntimeError:
            return ('raise', 'RuntimeError')
        return ('crash', type(e).__name__)
    except SystemExit as e:
        return ('exit', e.code)
    except Exception as e:
        return ('crash', type(e).__name__)


def _config():
    return (tuple(sorted((f.name, bool(v)) for f, v in PD._flags.items())),
            tuple(sorted((o.name, v) for o, v in PD._options.items())),
            tuple(d.value for d in PD._dump), PD.dry_run, PD.dump_prefix)


# ---------------------------------------------------------------------------------------------
# our reading of the option syntax (from `nmfu --help`)
ALPHA = os.environ.get('XH_ALPHA', '')     # if set: the only characters a symbolic token may contain; else code points < 128.
# (load_commandline_flags calls .upper()/int()/Enum(value) on the token text; CrossHair executes those by letting the solver
#  enumerate concrete texts, so an unbounded alphabet cannot be exhausted.)


def in_alphabet(text):
    if ALPHA:
        return all(c in ALPHA for c in text)
    return all(ord(c) < 128 for c in text)


def strict_int(text):
    """value of an ASCII decimal integer [+-]?[0-9]+, else None (deliberately stricter than Python's int(), see may_return)"""
    i = 0
    if len(text) > 0 and (text[0] == '+' or text[0] == '-'):
        i = 1
    if len(text) - i < 1:
        return None
    v = 0
    for c in text[i:]:
        if not ('0' <= c <= '9'):
            return None
        v = v * 10 + (ord(c) - 48)
    return -v if text[0] == '-' else v


def all_dumpable(text):
    return all(x in DUMPABLE for x in text.split(','))


def flag_known(name):
    return name.upper().replace('-', '_') in nmfu.ProgramFlag.__members__


def opt_of(argv, idx):
    """(option name, value text or None) of the option token argv[idx] under the documented conventions:
    -X<value> ; --name <value in the next argv element> (none for help/dry-run/version/help-all)"""
    tok = argv[idx]
    if len(tok) < 2 or tok[0] != '-':
        return (None, None)
    if tok[1] == '-':
        name = tok[2:]
        if name in ('help', 'dry-run', 'version', 'help-all'):
            return (name, None)
        return (name, argv[idx + 1] if idx + 1 < len(argv) else None)
    return (tok[1], tok[2:])


def value_ok(name, value):
    """must the option `name` with this value be accepted?  False = our reading calls it unknown / malformed (it must not
    return normally).  Lenient where the help text is silent: -O accepts whatever is not a plain decimal outside 0..3
    (Python's int() also reads ' 1', '0_1', non-ASCII digits), -o/--dump-prefix accept anything without '.'; -t takes no value."""
    if name in ('o', 'output'):
        return '.' not in value
    if name == 'O':
        lv = strict_int(value)
        return lv is None or 0 <= lv <= 3
    if name == 'f':
        return flag_known(value[3:] if value.startswith('no-') else value)
    if name == 'flag':
        # --flag NAME or --flag NAME=VALUE with VALUE one of the on/off spellings; any other value is malformed (it used to mean "off")
        if value.count('=') > 1 or not flag_known(value.split('=')[0]):
            return False
        return '=' not in value or value.split('=')[1] in ('yes', 'on', 'true', '1', 'no', 'off', 'false', '0')
    if name in ('d', 'dump'):
        return all_dumpable(value)
    if name == 't':
        return value == ''                            # -t takes no value: trailing text is a mistyped option
    if name in ('dry-run', 'dump-prefix'):
        return True
    if name in OPTIONNAMES:
        return True
    return False


def may_return(argv, idx):
    """may load_commandline_flags(argv) return normally, as far as the option token argv[idx] is concerned"""
    tok = argv[idx]
    if tok == '':
        return True                                   # an empty argv element carries no option
    if tok[0] != '-':
        return False                                  # a second file name
    name, value = opt_of(argv, idx)
    if name is None:
        return False                                  # '-' alone
    if tok[1] == '-' and value is not None and len(argv) == 2:
        return False                                  # [`--name`, file]: the file name is eaten as the value: no input file
    if value is None:
        return name == 'dry-run'                      # help/version exit; a long option without its value must raise
    return value_ok(name, value)


def part_tok(tok):
    if NP <= 1:
        return True
    if len(tok) < 3:
        return P == 0
    if ALPHA:
        return any(tok[2] == ALPHA[k] for k in range(P, len(ALPHA), NP))   # NP <= len(ALPHA): no part is empty
    return ord(tok[2]) % NP == P


def dom_token(tok):
    return len(tok) <= N and part_tok(tok) and in_alphabet(tok)


def _argv1(tok, first):
    return ([tok, FILE], 0) if first else ([FILE, tok], 1)


# known regions (DESIGN §6 row 8, plus what this harness found); each is (option, observed misbehaviour)
def region_of(name, value, kind, val):
    """id suffix of the known region an observed misbehaviour falls into, or None"""
    if kind == 'crash' and name == 'O' and val == 'KeyError':
        return 'O-level-keyerror'
    if kind == 'crash' and name == 'O' and val == 'ValueError':
        return 'O-level-valueerror'
    if kind == 'crash' and name in ('d', 'dump') and val == 'ValueError':
        return 'dump-valueerror'
    if kind == 'crash' and name == 'flag' and val == 'ValueError':
        return 'flag-value-split-valueerror'
    if kind == 'ret' and name == 'O' and value is not None and strict_int(value) is not None and strict_int(value) < 0:
        return 'O-level-negative-accepted'
    return None


def _classify(argv, idx):
    """'ok' | 'known' | 'new' for the outcome of the real load_commandline_flags(argv)"""
    kind, val = _call(argv)
    bad = (kind == 'crash') or (kind == 'ret' and not may_return(argv, idx)) or (kind == 'exit' and not (val == 0 or val is None))
    if not bad:
        return 'ok'
    name, value = opt_of(argv, idx)
    return 'known' if region_of(name, value, kind, val) is not None else 'new'


def _token_ok(tok, first):
    argv, idx = _argv1(tok, first)
    return _classify(argv, idx) == 'ok'


def argv_token(tok: str, first: bool) -> bool:
    """
    pre: dom_token(tok)
    post: _
    """
    return _token_ok(tok, first)


def argv_token__reach(tok: str, first: bool) -> bool:
    """
    pre: dom_token(tok)
    post: not _
    """
    return len(tok) == N and tok[:2] == '-o'


def argv_token__reach_dash(tok: str, first: bool) -> bool:
    """
    pre: dom_token(tok)
    post: not _
    """
    return tok[:2] == '--' and len(tok) > 2


def argv_token__in_Okey(tok: str, first: bool) -> bool:
    """
    pre: dom_token(tok) and tok[:2] == '-O' and strict_int(tok[2:]) is not None and strict_int(tok[2:]) > 3
    post: _
    """
    return _token_ok(tok, first)


def argv_token__in_Oval(tok: str, first: bool) -> bool:
    """
    pre: dom_token(tok) and tok[:2] == '-O' and strict_int(tok[2:]) is None
    post: _
    """
    return _token_ok(tok, first)


def argv_token__in_Oneg(tok: str, first: bool) -> bool:
    """
    pre: dom_token(tok) and tok[:2] == '-O' and strict_int(tok[2:]) is not None and strict_int(tok[2:]) < 0
    post: _
    """
    return _token_ok(tok, first)


def argv_token__in_dval(tok: str, first: bool) -> bool:
    """
    pre: dom_token(tok) and tok[:2] == '-d' and not all_dumpable(tok[2:])
    post: _
    """
    return _token_ok(tok, first)


def argv_token__excl(tok: str, first: bool) -> bool:
    """
    pre: dom_token(tok)
    post: _
    """
    # the known regions are (option, observed misbehaviour) pairs, so `not region` is evaluated on the outcome:
    # every misbehaviour that is not one of the listed ones still fails this harness
    argv, idx = _argv1(tok, first)
    return _classify(argv, idx) != 'new'


def _explain(argv, idx):
    kind, val = _call(argv)
    name, value = opt_of(argv, idx)
    return {'argv': argv, 'opt': name, 'value': value, 'outcome': kind, 'exc': val if kind in ('crash', 'raise') else None,
            'returned': list(val) if kind == 'ret' else None, 'oracle_may_return': may_return(argv, idx),
            'level': strict_int(value) if (name == 'O' and value is not None) else None,
            'region': region_of(name, value, kind, val)}


def argv_token__explain(tok, first):
    return _explain(*_argv1(tok, first))


# ---------------------------------------------------------------------------------------------
# long options with a separate value token:  --<LONG[k]> <val> in.nmfu
LONG = ['flag', 'dump', 'output', 'dump-prefix'] + OPTIONNAMES


def dom_value(k, val):
    if not (0 <= k < len(LONG) and len(val) <= N):
        return False
    if NP > 1 and k % NP != P:
        return False
    return in_alphabet(val)


def _value_argv(k, val):
    return ['--' + LONG[k], val, FILE]


def argv_value(k: int, val: str) -> bool:
    """
    pre: dom_value(k, val)
    post: _
    """
    return _classify(_value_argv(k, val), 0) == 'ok'


def argv_value__reach(k: int, val: str) -> bool:
    """
    pre: dom_value(k, val)
    post: not _
    """
    return len(val) == N


def argv_value__in_split(k: int, val: str) -> bool:
    """
    pre: dom_value(k, val) and LONG[k] == 'flag' and val.count('=') > 1
    post: _
    """
    return _classify(_value_argv(k, val), 0) == 'ok'


def argv_value__in_dump(k: int, val: str) -> bool:
    """
    pre: dom_value(k, val) and LONG[k] == 'dump' and not all_dumpable(val)
    post: _
    """
    return _classify(_value_argv(k, val), 0) == 'ok'


def argv_value__excl(k: int, val: str) -> bool:
    """
    pre: dom_value(k, val)
    post: _
    """
    return _classify(_value_argv(k, val), 0) != 'new'


def argv_value__explain(k, val):
    return _explain(_value_argv(k, val), 0)


# ---------------------------------------------------------------------------------------------
# order independence of two different well-formed options
def _build_opts():
    opts = []        # (family, argv tokens)
    for lv in range(4):
        opts.append(('O', ['-O%d' % lv]))
    opts.append(('o', ['-oout_x']))
    opts.append(('o', ['--output', 'out_y']))
    opts.append(('t', ['-t']))
    opts.append(('t', ['--dry-run']))
    opts.append(('d', ['-ddfa']))
    opts.append(('d', ['--dump', 'ast,dfa']))
    opts.append(('dump-prefix', ['--dump-prefix', 'pfx']))
    for n in FLAGNAMES:
        opts.append(('flag:' + n, ['-f' + n]))
        opts.append(('flag:' + n, ['-fno-' + n]))
    opts.append(('flag:eof-support', ['--flag', 'eof-support=yes']))
    opts.append(('flag:hook-global', ['--flag', 'hook-global=no']))
    for o in nmfu.ProgramOption:
        n = o.name.lower().replace('_', '-')
        opts.append(('opt:' + n, ['--' + n, '7' if isinstance(o.default, int) else 'dot']))
    return opts


OPTS = _build_opts()
RELATED = int(os.environ.get('XH_RELATED', '0'))   # 1: flag options only for flags that take part in implies/exclusive_with
#                                                      2: additionally drop the generation options and long spellings


def _related_names():
    PF = nmfu.ProgramFlag
    rel = set()
    for f in PF:
        if f.implies or f.exclusive_with:
            rel.add(f)
            for x in list(f.implies) + list(f.exclusive_with):
                rel.add(PF(x))
    return {'flag:' + f.name.lower().replace('_', '-') for f in rel}


if RELATED:
    _rel = _related_names()
    OPTS = [o for o in OPTS if not o[0].startswith('flag:') or o[0] in _rel]
    if RELATED >= 2:
        OPTS = [o for o in OPTS if not o[0].startswith('opt:') and not o[1][0].startswith('--')]


def _outcome(argv):
    kind, val = _call(argv)
    if kind == 'ret':
        return ('ret', tuple(val), _config())
    if kind == 'raise':
        return ('raise',)              # the message may name the two flags in either order; only error / no error counts
    return (kind, val)


def _arrange(a, b, filepos):
    seq = [a, b]
    seq.insert(filepos, [FILE])
    return [t for part in seq for t in part]


def dom_order(i, j, filepos):
    if not (0 <= i < len(OPTS) and 0 <= j < len(OPTS) and 0 <= filepos <= 2):
        return False
    if NP > 1 and (i + j) % NP != P:    # case split first: indexing OPTS makes CrossHair pick concrete i, j
        return False
    if OPTS[i][0] == OPTS[j][0]:
        return False                    # the same option twice: last one wins, legitimately order dependent
    return True


def has_output_opt(i, j):
    """known finding C19-output-option-before-file-ignored: -o/--output standing BEFORE the file name is overridden by the
    name derived from the file; the finding's region is 'one of the options is an output-name option'"""
    return OPTS[i][0] == 'o' or OPTS[j][0] == 'o'


def _order_ok(i, j, filepos):
    a, b = OPTS[i][1], OPTS[j][1]
    return _outcome(_arrange(a, b, filepos)) == _outcome(_arrange(b, a, filepos))


def _filepos_ok(i, j):
    a, b = OPTS[i][1], OPTS[j][1]
    r0 = _outcome(_arrange(a, b, 0))
    return r0 == _outcome(_arrange(a, b, 1)) and r0 == _outcome(_arrange(a, b, 2))


def argv_order(i: int, j: int, filepos: int) -> bool:
    """
    pre: i < j and dom_order(i, j, filepos)
    post: _
    """
    return _order_ok(i, j, filepos)


def argv_order__reach(i: int, j: int, filepos: int) -> bool:
    """
    pre: i < j and dom_order(i, j, filepos)
    post: not _
    """
    return filepos == 1


def argv_order__in_output(i: int, j: int, filepos: int) -> bool:
    """
    pre: i < j and dom_order(i, j, filepos) and has_output_opt(i, j)
    post: _
    """
    return _order_ok(i, j, filepos)


def argv_order__excl(i: int, j: int, filepos: int) -> bool:
    """
    pre: i < j and dom_order(i, j, filepos) and not has_output_opt(i, j)
    post: _
    """
    return _order_ok(i, j, filepos)


def argv_order__excl__reach(i: int, j: int, filepos: int) -> bool:
    """
    pre: i < j and dom_order(i, j, filepos) and not has_output_opt(i, j)
    post: not _
    """
    return filepos == 1


def argv_order__explain(i, j, filepos):
    a, b = OPTS[i][1], OPTS[j][1]
    x, y = _arrange(a, b, filepos), _arrange(b, a, filepos)
    ox, oy = _outcome(x), _outcome(y)
    return {'argv_1': x, 'argv_2': y, 'outcome_1': _short(ox), 'outcome_2': _short(oy), 'has_output_option': has_output_opt(i, j)}


def _short(o):
    if o[0] == 'ret':
        return ['ret', list(o[1]), [n for n, v in o[2][0] if v]]
    return list(o)


def argv_filepos(i: int, j: int) -> bool:
    """
    pre: dom_order(i, j, 0)
    post: _
    """
    return _filepos_ok(i, j)


def argv_filepos__reach(i: int, j: int) -> bool:
    """
    pre: dom_order(i, j, 0)
    post: not _
    """
    return OPTS[i][0] == 'O'


def argv_filepos__in_output(i: int, j: int) -> bool:
    """
    pre: dom_order(i, j, 0) and has_output_opt(i, j)
    post: _
    """
    return _filepos_ok(i, j)


def argv_filepos__excl(i: int, j: int) -> bool:
    """
    pre: dom_order(i, j, 0) and not has_output_opt(i, j)
    post: _
    """
    return _filepos_ok(i, j)


def argv_filepos__excl__reach(i: int, j: int) -> bool:
    """
    pre: dom_order(i, j, 0) and not has_output_opt(i, j)
    post: not _
    """
    return True


def argv_filepos__explain(i, j):
    a, b = OPTS[i][1], OPTS[j][1]
    d = {'has_output_option': has_output_opt(i, j)}
    for fp in range(3):
        d['argv_%d' % fp] = _arrange(a, b, fp)
        d['outcome_%d' % fp] = _short(_outcome(_arrange(a, b, fp)))
    return d


# ---- -O<level> with a symbolic level (numeric range beyond the token-length bound of argv_token)
def argv_level(level: int, first: bool) -> bool:
    """
    pre: -40 <= level <= 40
    post: _
    """
    return _token_ok('-O' + str(level), first)


def argv_level__reach(level: int, first: bool) -> bool:
    """
    pre: -40 <= level <= 40
    post: not _
    """
    return True


def argv_level__explain(level, first):
    return argv_token__explain('-O' + str(level), first)


HARNESSES = {
    'C19/argv/option_level': dict(fn='argv_level', reach=['argv_level__reach']),
    'C19/argv/option_token': dict(fn='argv_token', reach=['argv_token__reach', 'argv_token__reach_dash'], excl='argv_token__excl',
                                  regions=[('argv_token__in_Okey', 'C19-O-level-keyerror'),
                                           ('argv_token__in_Oval', 'C19-O-level-valueerror'),
                                           ('argv_token__in_Oneg', 'C19-O-level-negative-accepted'),
                                           ('argv_token__in_dval', 'C19-dump-valueerror')]),
    'C19/argv/option_value': dict(fn='argv_value', reach=['argv_value__reach'], excl='argv_value__excl',
                                  regions=[('argv_value__in_split', 'C19-flag-value-split-valueerror'),
                                           ('argv_value__in_dump', 'C19-dump-valueerror')]),
    'C19/argv/option_order': dict(fn='argv_order', reach=['argv_order__reach', 'argv_order__excl__reach'], excl='argv_order__excl',
                                  regions=[('argv_order__in_output', 'C19-output-option-before-file-ignored')]),
    'C19/argv/file_position': dict(fn='argv_filepos', reach=['argv_filepos__reach', 'argv_filepos__excl__reach'], excl='argv_filepos__excl',
                                   regions=[('argv_filepos__in_output', 'C19-output-option-before-file-ignored')]),
}
