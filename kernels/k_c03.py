"""C03 kernels (CrossHair, E1; DESIGN §4 C03 item 5): size / type arithmetic the generated parser's memory safety rests on.

  int_containing      CodegenCtx._integer_containing(maxval, signed) names a C type that can hold 0..maxval, for EVERY
                      maxval >= 0 (unbounded symbolic int): string counters (maxval = declared size), the state index
                      (maxval = number of states) and raw counters cannot wrap.  (uintmax_t/intmax_t are taken as 64 bit.)
  capacity            a str[N] / unterminated str[N] declaration accepted by the real _parse_out_decl has a capacity
                      effective_string_size() with 0 <= capacity and capacity + (1 if terminated) == N, i.e. the append
                      guard `counter == capacity` can become true before the buffer is overrun.
  set_string_bounds   the memcpy emitted by _generate_set_string for a constant that passed the caller's length guard
                      (len(value) <= effective_string_size(), nmfu.py _generate_action_implementation) writes at most
                      str_size bytes, reads at most the bytes of the C literal object (its denoted bytes + the NUL), and
                      the bytes it copies are the constant's bytes (+ NUL iff terminated).  Uses OUR OWN C literal decoder
                      (kernels/k_c15.py c_unescape).

Environment: XH_N maximal literal length / number of size digits; XH_K, XH_NP, XH_P as in k_c15.
"""
import os, sys
from typing import List

_here = os.path.dirname(os.path.abspath(__file__))
if _here not in sys.path:
    sys.path.insert(0, _here)
import k_c15 as L   # noqa: E402  (shared: real-nmfu import, C literal decoder, literal domains and known regions)
import lark         # noqa: E402

nmfu = L.nmfu
N = L.N
_cg = L._cg
_pctx = L._pctx

UMAX = {'uint8_t': 2 ** 8 - 1, 'uint16_t': 2 ** 16 - 1, 'uint32_t': 2 ** 32 - 1, 'uintmax_t': 2 ** 64 - 1}
SMAX = {'int8_t': 2 ** 7 - 1, 'int16_t': 2 ** 15 - 1, 'int32_t': 2 ** 31 - 1, 'intmax_t': 2 ** 63 - 1}


# ---------------------------------------------------------------------------------------------
def _holds(maxval, signed):
    try:
        t = _cg._integer_containing(maxval, signed=signed)
    except Exception:
        return False
    table = SMAX if signed else UMAX
    if t not in table:
        return False
    if maxval > table['intmax_t' if signed else 'uintmax_t']:
        return t == ('intmax_t' if signed else 'uintmax_t')      # nothing wider exists; the widest type must be chosen
    return maxval <= table[t]


def int_containing(maxval: int, signed: bool) -> bool:
    """
    pre: maxval >= 0
    post: _
    """
    return _holds(maxval, signed)


def int_containing__reach(maxval: int, signed: bool) -> bool:
    """
    pre: maxval >= 0
    post: not _
    """
    return maxval >= 2 ** 32 and not signed


def int_containing__explain(maxval, signed):
    d = {}
    try:
        d['type'] = _cg._integer_containing(maxval, signed=signed)
    except Exception as e:
        d['exc'] = type(e).__name__
    return d


# ---------------------------------------------------------------------------------------------
class Tok:
    """stand-in for lark.Token where the text is symbolic (lark.Token subclasses str); only .value is read here"""

    def __init__(self, typ, value, line=1, column=1):
        self.type, self.value, self.line, self.column = typ, value, line, column


def _str_decl_tree(text, null):
    return lark.Tree('out_decl', [lark.Tree('str_type' if null else 'unterm_str_type', [Tok('RADIX_NUMBER', text)]),
                                  lark.Token('IDENTIFIER', 's')])


def dom_digits(digits):
    return 1 <= len(digits) <= N and all('0' <= c <= '9' for c in digits)


def digits_value(neg, digits):
    v = 0
    for c in digits:
        v = v * 10 + (ord(c) - 48)
    return -v if neg else v


def known_capacity_negative(neg, digits, null):
    """known finding C03-capacity-negative: declared size smaller than the room the terminator needs (str[0], str[-n])"""
    return digits_value(neg, digits) < (1 if null else 0)


def _capacity_ok(neg, digits, null):
    try:
        o = _pctx._parse_out_decl(_str_decl_tree(('-' if neg else '') + digits, null))
    except nmfu.NMFUError:
        return True                  # rejecting the declaration is fine
    except Exception:
        return False
    size = digits_value(neg, digits)
    cap = o.effective_string_size()
    return o.str_size == size and cap >= 0 and cap + (1 if null else 0) == size


def capacity(neg: bool, digits: str, null: bool) -> bool:
    """
    pre: dom_digits(digits)
    post: _
    """
    return _capacity_ok(neg, digits, null)


def capacity__reach(neg: bool, digits: str, null: bool) -> bool:
    """
    pre: dom_digits(digits)
    post: not _
    """
    return len(digits) == N and digits[0] != '0'


def capacity__in_neg(neg: bool, digits: str, null: bool) -> bool:
    """
    pre: dom_digits(digits) and known_capacity_negative(neg, digits, null)
    post: _
    """
    return _capacity_ok(neg, digits, null)


def capacity__excl(neg: bool, digits: str, null: bool) -> bool:
    """
    pre: dom_digits(digits) and not known_capacity_negative(neg, digits, null)
    post: _
    """
    return _capacity_ok(neg, digits, null)


def capacity__excl__reach(neg: bool, digits: str, null: bool) -> bool:
    """
    pre: dom_digits(digits) and not known_capacity_negative(neg, digits, null)
    post: not _
    """
    return null


def capacity__explain(neg, digits, null):
    d = {'size': digits_value(neg, digits),
         'decl': 'out %sstr[%s] s;' % ('' if null else 'unterminated ', ('-' if neg else '') + digits)}
    try:
        o = _pctx._parse_out_decl(_str_decl_tree(('-' if neg else '') + digits, null))
        d['capacity'] = o.effective_string_size()
    except Exception as e:
        d['exc'] = type(e).__name__
    return d


# ---------------------------------------------------------------------------------------------
def _bounds_ok(data, as_bytes, null):
    try:
        size = len(data) + (1 if null else 0)          # the smallest buffer the caller's guard lets this constant into
        into = nmfu.OutputStorage(nmfu.OutputStorageType.STR, 's', str_size=size, str_null=null)
        value = L._value(data, as_bytes)
        if len(value) > into.effective_string_size():
            return True                                # (the caller raises "Literal is too long for output")
        parsed = L.parse_memcpy(_cg._generate_set_string(value, into))
        if parsed is None:
            return False
        _name, body, length = parsed
        den = L.c_unescape(body)
        if den is None:
            return False
        obj = den + [0]                                # the C literal object
        want = list(data) + ([0] if null else [])
        return length <= size and length <= len(obj) and obj[:length] == want
    except Exception:
        return False


def set_string_bounds(data: List[int], as_bytes: bool, null: bool) -> bool:
    """
    pre: L.dom_lit(data)
    post: _
    """
    return _bounds_ok(data, as_bytes, null)


def set_string_bounds__reach(data: List[int], as_bytes: bool, null: bool) -> bool:
    """
    pre: L.dom_lit(data)
    post: not _
    """
    return len(data) == N


def set_string_bounds__in_utf8(data: List[int], as_bytes: bool, null: bool) -> bool:
    """
    pre: L.dom_lit(data) and L.known_lit_utf8(data, as_bytes)
    post: _
    """
    return _bounds_ok(data, as_bytes, null)


def set_string_bounds__in_hexrun(data: List[int], as_bytes: bool, null: bool) -> bool:
    """
    pre: L.dom_lit(data) and L.known_lit_hexrun(data) and not L.known_lit_utf8(data, as_bytes)
    post: _
    """
    return _bounds_ok(data, as_bytes, null)


def set_string_bounds__excl(data: List[int], as_bytes: bool, null: bool) -> bool:
    """
    pre: L.dom_lit(data) and not L.known_lit_utf8(data, as_bytes) and not L.known_lit_hexrun(data)
    post: _
    """
    return _bounds_ok(data, as_bytes, null)


def set_string_bounds__excl__reach(data: List[int], as_bytes: bool, null: bool) -> bool:
    """
    pre: L.dom_lit(data) and not L.known_lit_utf8(data, as_bytes) and not L.known_lit_hexrun(data)
    post: not _
    """
    return len(data) == N


def set_string_bounds__explain(data, as_bytes, null):
    d = L.c_literal__explain(data, as_bytes, null)
    d['buffer_size'] = len(data) + (1 if null else 0)
    return d


HARNESSES = {
    'C03/kernel/integer_containing': dict(fn='int_containing', reach=['int_containing__reach']),
    'C03/kernel/capacity': dict(fn='capacity', reach=['capacity__reach', 'capacity__excl__reach'], excl='capacity__excl',
                                regions=[('capacity__in_neg', 'C03-capacity-negative')]),
    'C03/kernel/set_string_bounds': dict(fn='set_string_bounds', reach=['set_string_bounds__reach', 'set_string_bounds__excl__reach'], excl='set_string_bounds__excl',
                                         regions=[('set_string_bounds__in_utf8', 'C03-set-string-utf8'),
                                                  ('set_string_bounds__in_hexrun', 'C03-set-string-hexrun')]),
}
