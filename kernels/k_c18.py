"""C18 kernels (CrossHair, E1): token / attribute decoders and message rendering return or raise a DIAGNOSED error.

"Diagnosed" = an nmfu.NMFUError subclass (what main() catches around parse()/compile()/generate_*), or ValueError from
_convert_binary_string only (both of its callers visibly convert it to IllegalParseTree: nmfu.py _parse_out_decl,
_parse_match_expr). Anything else that escapes is an internal exception.

Token texts are symbolic strings constrained to what the lexer terminal admits. The admission predicates below are
explicit scanners written from the terminal definitions in the grammar at the top of nmfu.py; they are NOT evaluated with
CrossHair's symbolic `re` (measured: its engine raises RecursionError on `0b(?:(?:0|1)?)+` inside `pre:`, which CrossHair
silently treats as "precondition not met" and then reports "Confirmed" - unsound). checks/c18.py validates every scanner
against the real terminal regex (taken from nmfu.parser.terminals on each run) before trusting any verdict.

Bounds (environment, set per condition by engines/xhair.py):
  XH_N        maximal number of body characters of a token (default 3)
  XH_NP/XH_P  case split (on the code point of the last body character) into NP separately solved parts
Characters are arbitrary code points, except the (up to two) characters that follow a `\\x` inside a STRING token and the
digits of hexadecimal numbers, which are bounded to code points < 128: nmfu hands them to int(.., base=16), which
CrossHair executes by letting the solver enumerate the concrete texts, so an unbounded alphabet cannot be exhausted.

Variants: `<h>__reach*` reachability twins (must give a counterexample); `<h>__in_<k>` the obligation restricted to the
region of known finding k (gives the finding's witness while the defect exists); `<h>__excl` the obligation with all
known regions excluded (must be confirmed); `<h>__explain` describes a witness (concrete only).
"""
import os, sys
from typing import List

REPO = os.environ.get('VERIF_REPO', '/repo')
if REPO not in sys.path:
    sys.path.insert(0, REPO)
import nmfu  # noqa: E402  the real compiler
import lark  # noqa: E402

N = int(os.environ.get('XH_N', '3'))
NP = int(os.environ.get('XH_NP', '1'))
P = int(os.environ.get('XH_P', '0'))

BS = chr(92)
DQ = chr(34)
SQ = chr(39)
NL = chr(10)
HEXDIGITS = '0123456789abcdefABCDEF'

_pctx = object.__new__(nmfu.ParseCtx)        # the converters / _parse_out_decl(branch used) need no instance state
_cg = object.__new__(nmfu.CodegenCtx)


def diagnosed(e):
    return isinstance(e, nmfu.NMFUError)


def part_str(tok):
    if NP <= 1:
        return True
    if len(tok) < 3:
        return P == 0
    return ord(tok[len(tok) - 2]) % NP == P


# ---------------------------------------------------------------------------------------------
# lexer admission (from the grammar):  STRING: /"(?:[^"\\]|\\.)*"/   CHAR_CONSTANT: /'[^'\\]'/ | /'\\.'/
# RADIX_NUMBER: HEX_NUMBER | BIN_NUMBER | NUMBER ; HEX_NUMBER: ["+"|"-"] "0x" HEXDIGIT+ ; BIN_NUMBER: "0b" ["0"|"1"]+ ;
# NUMBER = common.SIGNED_INT: ["+"|"-"] INT.  ('.' does not match a newline: no DOTALL flag on the terminals)
def admits_string(tok):
    n = len(tok)
    if n < 2 or tok[0] != DQ or tok[n - 1] != DQ:
        return False
    i = 1
    while i < n - 1:
        c = tok[i]
        if c == DQ:
            return False
        if c == BS:
            if i + 1 >= n - 1 or tok[i + 1] == NL:
                return False
            i += 2
        else:
            i += 1
    return True


def admits_char(tok):
    if len(tok) == 3:
        return tok[0] == SQ and tok[2] == SQ and tok[1] != SQ and tok[1] != BS
    if len(tok) == 4:
        return tok[0] == SQ and tok[1] == BS and tok[2] != NL and tok[3] == SQ
    return False


def _isdig(c):
    return '0' <= c <= '9'


def _ishex(c):
    return ('0' <= c <= '9') or ('a' <= c <= 'f') or ('A' <= c <= 'F')


def admits_number(tok):
    """NUMBER (SIGNED_INT)"""
    i = 0
    if len(tok) > 0 and (tok[0] == '+' or tok[0] == '-'):
        i = 1
    if len(tok) - i < 1:
        return False
    return all(_isdig(c) for c in tok[i:])


def _bare_0b_is_a_token():
    """whether the grammar's BIN_NUMBER admits the bare prefix `0b` (it did: `"0b" ["0"|"1"]+`; since the fix it requires a digit)"""
    import re as _re
    for t in nmfu.parser.terminals:
        if t.name == 'RADIX_NUMBER':
            return _re.fullmatch(t.pattern.to_regexp(), '0b') is not None
    return False


BARE_0B_OK = _bare_0b_is_a_token()


def admits_radix(tok):
    if tok[0:2] == '0b':
        return (len(tok) >= 3 or BARE_0B_OK) and all(c == '0' or c == '1' for c in tok[2:])
    i = 0
    if len(tok) > 0 and (tok[0] == '+' or tok[0] == '-'):
        i = 1
    if tok[i:i + 2] == '0x':
        return len(tok) - i - 2 >= 1 and all(_ishex(c) for c in tok[i + 2:])
    return admits_number(tok)


ADMIT = {'STRING': admits_string, 'CHAR_CONSTANT': admits_char, 'RADIX_NUMBER': admits_radix, 'NUMBER': admits_number}


# ---------------------------------------------------------------------------------------------
# STRING token -> _convert_string  (string_const / string_case_const in match, assignment, default position)
def esc_kind(tok):
    """first escape of the body that is not one of the documented ones (\\n \\r \\t \\b \\0 \\" \\\\ \\xHH):
    0 none, 1 `\\u`, 2 unknown letter, 3 `\\x` not followed by two hex digits. Also bounds the alphabet after `\\x`."""
    n = len(tok)
    i = 1
    while i < n - 1:
        if tok[i] != BS:
            i += 1
            continue
        c = tok[i + 1]
        if c == 'x':
            if i + 3 < n - 1 and _ishex(tok[i + 2]) and _ishex(tok[i + 3]):
                i += 4
                continue
            return 3
        if c == 'u':
            return 1
        if c == 'n' or c == 'r' or c == 't' or c == 'b' or c == '0' or c == DQ or c == BS:
            i += 2
            continue
        return 2
    return 0


def x_alphabet_ok(tok):
    """bound: the (up to two) characters after every `\\x` pair are code points < 128 (see module docstring)"""
    n = len(tok)
    i = 1
    while i < n - 1:
        if tok[i] != BS:
            i += 1
            continue
        if tok[i + 1] == 'x':
            for j in (i + 2, i + 3):
                if j < n - 1 and ord(tok[j]) >= 128:
                    return False
        i += 2
    return True


def dom_string(tok):
    return len(tok) <= N + 2 and admits_string(tok) and x_alphabet_ok(tok) and part_str(tok)


KNOWN_STRING = {1: 'NotImplementedError', 2: 'KeyError', 3: 'ValueError'}    # esc_kind -> exception type of the listed finding


def _string_outcome(tok):
    """None if _convert_string returns or raises a diagnosed error, else the name of the escaping exception type"""
    try:
        _pctx._convert_string(tok)
    except Exception as e:
        if diagnosed(e):
            return None
        return type(e).__name__
    return None


def tok_string(tok: str) -> bool:
    """
    pre: dom_string(tok)
    post: _
    """
    return _string_outcome(tok) is None


def tok_string__reach(tok: str) -> bool:
    """
    pre: dom_string(tok)
    post: not _
    """
    return len(tok) == N + 2 and BS in tok


def tok_string__in_1(tok: str) -> bool:
    """
    pre: dom_string(tok) and esc_kind(tok) == 1
    post: _
    """
    return _string_outcome(tok) is None


def tok_string__in_2(tok: str) -> bool:
    """
    pre: dom_string(tok) and esc_kind(tok) == 2
    post: _
    """
    return _string_outcome(tok) is None


def tok_string__in_3(tok: str) -> bool:
    """
    pre: dom_string(tok) and esc_kind(tok) == 3
    post: _
    """
    return _string_outcome(tok) is None


def tok_string__excl(tok: str) -> bool:
    """
    pre: dom_string(tok)
    post: _
    """
    # the known regions depend on the outcome (token class AND exception type), so the exclusion `not region` is part of
    # the body: everything that is not (class k, the exception type listed for k) must still be diagnosed
    o = _string_outcome(tok)
    if o is None:
        return True
    k = esc_kind(tok)
    return k != 0 and KNOWN_STRING[k] == o


def tok_string__explain(tok):
    d = {'kind': esc_kind(tok), 'exc': _string_outcome(tok)}
    try:
        d['returns'] = repr(_pctx._convert_string(tok))
    except Exception as e:
        d['exc_msg'] = str(e)[:200]
    return d


# ---------------------------------------------------------------------------------------------
# CHAR_CONSTANT token -> ord(_convert_char_const(tok))  (as both callers do)
def _char_outcome(tok):
    try:
        ord(_pctx._convert_char_const(tok))
    except Exception as e:
        return None if diagnosed(e) else type(e).__name__
    return None


def tok_char(tok: str) -> bool:
    """
    pre: admits_char(tok)
    post: _
    """
    return _char_outcome(tok) is None


def tok_char__reach(tok: str) -> bool:
    """
    pre: admits_char(tok)
    post: not _
    """
    return len(tok) == 4


def tok_char__explain(tok):
    return {'exc': _char_outcome(tok)}


# ---------------------------------------------------------------------------------------------
# STRING token in "..."b position -> _convert_binary_string (ValueError is converted by both callers)
MAXHEX = int(os.environ.get('XH_MAXHEX', '3'))   # maximal number of hex-digit characters in the token (each PAIR costs
#                                                   22*22 solver-enumerated paths in int(.., base=16))


def dom_binstring(tok):
    return (len(tok) <= N + 2 and admits_string(tok) and sum(1 for c in tok if c in HEXDIGITS) <= MAXHEX and part_str(tok))


def _bin_outcome(tok):
    try:
        _pctx._convert_binary_string(tok)
    except ValueError:
        return None
    except Exception as e:
        return None if diagnosed(e) else type(e).__name__
    return None


def tok_binstring(tok: str) -> bool:
    """
    pre: dom_binstring(tok)
    post: _
    """
    return _bin_outcome(tok) is None


def tok_binstring__reach(tok: str) -> bool:
    """
    pre: dom_binstring(tok)
    post: not _
    """
    return len(tok) == N + 2 and sum(1 for c in tok if c in HEXDIGITS) >= min(2, MAXHEX)


def tok_binstring__explain(tok):
    return {'exc': _bin_outcome(tok)}


# ---------------------------------------------------------------------------------------------
# RADIX_NUMBER token -> _convert_int (number_const, math_num, str[...] size)
def dom_radix(tok):
    if not (1 <= len(tok) <= N + 2 and admits_radix(tok)):
        return False
    if NP > 1:
        return ord(tok[len(tok) - 1]) % NP == P
    return True


def known_radix_bare0b(tok):
    """known finding C18-int-bare-0b"""
    return tok == '0b'


def _int_outcome(tok):
    try:
        _pctx._convert_int(tok)
    except Exception as e:
        return None if diagnosed(e) else type(e).__name__
    return None


def tok_int(tok: str) -> bool:
    """
    pre: dom_radix(tok)
    post: _
    """
    return _int_outcome(tok) is None


def tok_int__reach(tok: str) -> bool:
    """
    pre: dom_radix(tok)
    post: not _
    """
    return len(tok) == N + 2 and tok[0] == '-' and tok[1:3] == '0x'


def tok_int__reach_bin(tok: str) -> bool:
    """
    pre: dom_radix(tok)
    post: not _
    """
    return tok[0:2] == '0b' and len(tok) >= 3


def tok_int__in_0b(tok: str) -> bool:
    """
    pre: dom_radix(tok) and known_radix_bare0b(tok)
    post: _
    """
    return _int_outcome(tok) is None


def tok_int__excl(tok: str) -> bool:
    """
    pre: dom_radix(tok) and not known_radix_bare0b(tok)
    post: _
    """
    return _int_outcome(tok) is None


def tok_int__excl__reach(tok: str) -> bool:
    """
    pre: dom_radix(tok) and not known_radix_bare0b(tok)
    post: not _
    """
    return tok[0:2] == '0b'


def tok_int__explain(tok):
    d = {'exc': _int_outcome(tok)}
    try:
        d['returns'] = _pctx._convert_int(tok)
    except Exception as e:
        d['exc_msg'] = str(e)[:200]
    return d


# ---------------------------------------------------------------------------------------------
# int{size w, signed|unsigned}: _parse_out_decl stores int(NUMBER) in OutputStorage.int_width; the code generator then
# evaluates _integer_containing(signed=decl.int_signed, width=decl.int_width) (nmfu.py generate_header, type table)
def known_width(w, signed):
    """known finding C18-int-width-typeerror: unsigned with a width outside {1,2,4,8}"""
    return (not signed) and w != 1 and w != 2 and w != 4 and w != 8


def _width_outcome(w, signed):
    try:
        o = nmfu.OutputStorage(nmfu.OutputStorageType.INT, 'x', int_signed=signed, int_width=w)
        t = _cg._integer_containing(signed=o.int_signed, width=o.int_width)
        if not isinstance(t, str):
            return 'not-a-type'
    except Exception as e:
        return None if diagnosed(e) else type(e).__name__
    return None


def _front_end_validates_width():
    """since the fix, _parse_out_decl rejects sizes other than 1, 2, 4, 8 with a diagnosed error, so only those reach
    _integer_containing; detected from the real front end (the decl-level harness below checks the rejection itself)"""
    try:
        _pctx._parse_out_decl(_int_decl_tree('3', True, True))
    except nmfu.NMFUError:
        return True
    except Exception:
        return False
    return False


def reaches_codegen(w):
    return (not WIDTH_VALIDATED) or w == 1 or w == 2 or w == 4 or w == 8


def int_width(w: int, signed: bool) -> bool:
    """
    pre: reaches_codegen(w)
    post: _
    """
    return _width_outcome(w, signed) is None


def int_width__reach(w: int, signed: bool) -> bool:
    """
    pre: reaches_codegen(w)
    post: not _
    """
    return w == 8 and not signed


def int_width__in_w(w: int, signed: bool) -> bool:
    """
    pre: known_width(w, signed)
    post: _
    """
    return _width_outcome(w, signed) is None


def int_width__excl(w: int, signed: bool) -> bool:
    """
    pre: not known_width(w, signed)
    post: _
    """
    return _width_outcome(w, signed) is None


def int_width__excl__reach(w: int, signed: bool) -> bool:
    """
    pre: not known_width(w, signed)
    post: not _
    """
    return signed and w > 8


def int_width__explain(w, signed):
    return {'exc': _width_outcome(w, signed), 'decl': 'out int{%s, size %d} x;' % ('signed' if signed else 'unsigned', w)}


# ---------------------------------------------------------------------------------------------
# the same through the real _parse_out_decl on a hand-built lark tree (the NUMBER token's text is symbolic)
class Tok:
    """stand-in for lark.Token where the text must be symbolic (lark.Token subclasses str and cannot carry a symbolic
    value); nmfu reads only .value/.line/.column of these tokens on the paths exercised here"""

    def __init__(self, typ, value, line=1, column=1):
        self.type, self.value, self.line, self.column = typ, value, line, column


def _int_decl_tree(text, signed, with_sign_attr):
    attrs = []
    if with_sign_attr:
        attrs.append(lark.Tree('signed_attr', [lark.Token('SIGNED', 'signed' if signed else 'unsigned')]))
    attrs.append(lark.Tree('width_attr', [Tok('NUMBER', text)]))
    return lark.Tree('out_decl', [lark.Tree('int_type', attrs), lark.Token('IDENTIFIER', 'x')])


def dom_digits(digits):
    return 1 <= len(digits) <= N and all('0' <= c <= '9' for c in digits)


def _decl_width_outcome(neg, digits, signed):
    try:
        o = _pctx._parse_out_decl(_int_decl_tree(('-' if neg else '') + digits, signed, True))
        _cg._integer_containing(signed=o.int_signed, width=o.int_width)
    except Exception as e:
        return None if diagnosed(e) else type(e).__name__
    return None


def _digits_value(neg, digits):
    v = 0
    for c in digits:
        v = v * 10 + (ord(c) - 48)
    return -v if neg else v


def decl_width(neg: bool, digits: str, signed: bool) -> bool:
    """
    pre: dom_digits(digits)
    post: _
    """
    return _decl_width_outcome(neg, digits, signed) is None


def decl_width__reach(neg: bool, digits: str, signed: bool) -> bool:
    """
    pre: dom_digits(digits)
    post: not _
    """
    return len(digits) == N and not signed


def decl_width__in_w(neg: bool, digits: str, signed: bool) -> bool:
    """
    pre: dom_digits(digits) and known_width(_digits_value(neg, digits), signed)
    post: _
    """
    return _decl_width_outcome(neg, digits, signed) is None


def decl_width__excl(neg: bool, digits: str, signed: bool) -> bool:
    """
    pre: dom_digits(digits) and not known_width(_digits_value(neg, digits), signed)
    post: _
    """
    return _decl_width_outcome(neg, digits, signed) is None


def decl_width__excl__reach(neg: bool, digits: str, signed: bool) -> bool:
    """
    pre: dom_digits(digits) and not known_width(_digits_value(neg, digits), signed)
    post: not _
    """
    return not signed


def decl_width__explain(neg, digits, signed):
    w = _digits_value(neg, digits)
    return {'w': w, 'exc': _decl_width_outcome(neg, digits, signed),
            'decl': 'out int{%s, size %s} x;' % ('signed' if signed else 'unsigned', ('-' if neg else '') + digits)}


# ---------------------------------------------------------------------------------------------
# str[N] / unterminated str[N]: _parse_out_decl -> OutputStorage.effective_string_size, counter typing
def _str_decl_tree(text, null):
    return lark.Tree('out_decl', [lark.Tree('str_type' if null else 'unterm_str_type', [Tok('RADIX_NUMBER', text)]),
                                  lark.Token('IDENTIFIER', 's')])


def _decl_str_outcome(neg, digits, null):
    try:
        o = _pctx._parse_out_decl(_str_decl_tree(('-' if neg else '') + digits, null))
        e = o.effective_string_size()
        t = _cg._integer_containing(o.str_size, signed=False)          # counter type, as generate_header does
        if not isinstance(e, int) or not isinstance(t, str):
            return 'bad-result'
    except Exception as ex:
        return None if diagnosed(ex) else type(ex).__name__
    return None


def decl_str(neg: bool, digits: str, null: bool) -> bool:
    """
    pre: dom_digits(digits)
    post: _
    """
    return _decl_str_outcome(neg, digits, null) is None


def decl_str__reach(neg: bool, digits: str, null: bool) -> bool:
    """
    pre: dom_digits(digits)
    post: not _
    """
    return neg and len(digits) == N


def decl_str__explain(neg, digits, null):
    return {'exc': _decl_str_outcome(neg, digits, null)}


# ---------------------------------------------------------------------------------------------
# regex repeat bounds {n} {n,} {n,m}: RegexMatch._interpret_parse_tree on a hand-built tree for /a{..}/ whose NUMBER tokens
# carry symbolic decimal texts (NUMBER is SIGNED_INT: negative bounds are lexically valid)
def _regex_match_shell():
    """a RegexMatch for the literal `a`, built by the real constructor on a concrete tree (gives character_class_mappings)"""
    nmfu.ProgramData.load_commandline_flags(('x.nmfu',))
    return nmfu.RegexMatch(nmfu.parser.parse('/a/', start='regex'))


def _lit_a():
    t = lark.Tree('regex_raw_match', [lark.Token('REGEX_UNIMPORTANT', 'a')])
    t.meta.line, t.meta.column = 1, 2
    return t


def _num(neg, digits):
    return Tok('NUMBER', ('-' if neg else '') + digits, 1, 4)


_RM = _regex_match_shell()      # built once at import (concrete); _interpret_parse_tree only reads character_class_mappings


def _repeat_outcome(kind, neg1, d1, neg2, d2):
    try:
        m = _RM
        if kind == 0:
            tree = lark.Tree('regex_exact_repeat', [_lit_a(), _num(neg1, d1)])
        elif kind == 1:
            tree = lark.Tree('regex_at_least_repeat', [_lit_a(), _num(neg1, d1)])
        else:
            tree = lark.Tree('regex_range_repeat', [_lit_a(), _num(neg1, d1), _num(neg2, d2)])
        r = m._interpret_parse_tree(tree)
        if not isinstance(r, nmfu.RegexSequence):
            return 'bad-result'
    except Exception as e:
        return None if diagnosed(e) else type(e).__name__
    return None


def repeat_bounds(kind: int, neg1: bool, d1: str, neg2: bool, d2: str) -> bool:
    """
    pre: 0 <= kind <= 2 and (NP <= 1 or kind % NP == P) and dom_digits(d1) and dom_digits(d2) and (kind == 2 or (d2 == '0' and not neg2))
    pre: kind != 2 or (len(d1) <= 1 and len(d2) <= 1)
    post: _
    """
    return _repeat_outcome(kind, neg1, d1, neg2, d2) is None


def repeat_bounds__reach(kind: int, neg1: bool, d1: str, neg2: bool, d2: str) -> bool:
    """
    pre: 0 <= kind <= 2 and (NP <= 1 or kind % NP == P) and dom_digits(d1) and dom_digits(d2) and (kind == 2 or (d2 == '0' and not neg2))
    pre: kind != 2 or (len(d1) <= 1 and len(d2) <= 1)
    post: not _
    """
    return kind == 2 and d1 > d2 and not neg1 and not neg2


def repeat_bounds__explain(kind, neg1, d1, neg2, d2):
    return {'exc': _repeat_outcome(kind, neg1, d1, neg2, d2)}


# ---------------------------------------------------------------------------------------------
# message rendering: NMFUError._generate_whitespace_marker(line, column) for every position at which lark can report a
# token of a symbolic source text.  Position model (lark's line counter): line = 1 + number of '\n' before the character,
# column = 1 + distance to the preceding '\n'; tokens start at non-whitespace characters.
EXOTIC_BREAKS = '\x0b\x0c\x1c\x1d\x1e\x85\u2028\u2029'     # what str.splitlines() also treats as a line boundary


def lark_pos(src, pos):
    before = src[:pos]
    line = 1 + before.count(NL)
    col = pos - before.rfind(NL)            # rfind = -1 when there is no newline: col = pos + 1
    return line, col


def known_marker_breaks(src):
    """known finding C18-marker-linebreaks: the source has a lone CR or another non-'\\n' line boundary"""
    for i in range(len(src)):
        c = src[i]
        if c in EXOTIC_BREAKS:
            return True
        if c == '\r' and not (i + 1 < len(src) and src[i + 1] == NL):
            return True
    return False


def dom_marker(src, pos):
    return len(src) <= N and 0 <= pos < len(src) and not src[pos].isspace()


def _marker_outcome(src, pos):
    try:
        nmfu.ProgramData.load_source(src)
        line, col = lark_pos(src, pos)
        m = nmfu.NMFUError._generate_whitespace_marker(line, col)
        text = src.split(NL)[line - 1]          # the line as lark counts lines
        want = ''.join('\t' if text[i] == '\t' else ' ' for i in range(col - 1)) + '^'
        if m != want:
            return 'bad-marker'                 # the caret must stand under the reported column (tabs kept as tabs)
    except Exception as e:
        return None if diagnosed(e) else type(e).__name__
    return None


def ws_marker(src: str, pos: int) -> bool:
    """
    pre: dom_marker(src, pos)
    post: _
    """
    return _marker_outcome(src, pos) is None


def ws_marker__reach(src: str, pos: int) -> bool:
    """
    pre: dom_marker(src, pos)
    post: not _
    """
    return len(src) == N and src[0] == NL and pos >= 2


def ws_marker__in_breaks(src: str, pos: int) -> bool:
    """
    pre: dom_marker(src, pos) and known_marker_breaks(src)
    post: _
    """
    return _marker_outcome(src, pos) is None


def ws_marker__excl(src: str, pos: int) -> bool:
    """
    pre: dom_marker(src, pos) and not known_marker_breaks(src)
    post: _
    """
    return _marker_outcome(src, pos) is None


def ws_marker__excl__reach(src: str, pos: int) -> bool:
    """
    pre: dom_marker(src, pos) and not known_marker_breaks(src)
    post: not _
    """
    return len(src) == N and pos >= 1


def ws_marker__explain(src, pos):
    line, col = lark_pos(src, pos)
    return {'line': line, 'column': col, 'exc': _marker_outcome(src, pos), 'splitlines': src.splitlines()}


# ---------------------------------------------------------------------------------------------
# obligation table for checks/c18.py.  regions: (harness restricted to the region, id of the finding it must hit)
# ---- case-insensitive literal construction: every character of a decoded string (code points 0..255) must give its case variants
#      without an internal exception
_cdm18 = object.__new__(nmfu.CaseDirectMatch)


def _casei_total(c):
    try:
        r = _cdm18._create_casei_from(chr(c))
    except nmfu.NMFUError:
        return True
    except Exception:
        return False
    return len(r) >= 1


def casei_total(c: int) -> bool:
    """
    pre: 0 <= c <= 255
    post: _
    """
    return _casei_total(c)


def casei_total__reach(c: int) -> bool:
    """
    pre: 0 <= c <= 255
    post: not _
    """
    return c >= 200


def casei_total__explain(c):
    try:
        r = _cdm18._create_casei_from(chr(c))
        return {'token': repr(chr(c)), 'outcome': repr(r)}
    except Exception as e:
        return {'token': repr(chr(c)), 'exc': type(e).__name__, 'observed': str(e)}


WIDTH_VALIDATED = _front_end_validates_width()


HARNESSES = {
    'C18/casei_variants': dict(fn='casei_total', reach=['casei_total__reach']),
    'C18/convert_string': dict(fn='tok_string', reach=['tok_string__reach'], excl='tok_string__excl',
                               regions=[('tok_string__in_1', 'C18-string-uescape-notimplemented'),
                                        ('tok_string__in_2', 'C18-string-unknown-escape-keyerror'),
                                        ('tok_string__in_3', 'C18-string-bad-hex-escape-valueerror')]),
    'C18/convert_char_const': dict(fn='tok_char', reach=['tok_char__reach']),
    'C18/convert_binary_string': dict(fn='tok_binstring', reach=['tok_binstring__reach']),
    'C18/convert_int': dict(fn='tok_int', reach=['tok_int__reach', 'tok_int__reach_bin', 'tok_int__excl__reach'], excl='tok_int__excl',
                            regions=[('tok_int__in_0b', 'C18-int-bare-0b-valueerror')]),
    'C18/int_width': dict(fn='int_width', reach=['int_width__reach', 'int_width__excl__reach'], excl='int_width__excl',
                          regions=[('int_width__in_w', 'C18-int-width-typeerror')]),
    'C18/out_decl_int_width': dict(fn='decl_width', reach=['decl_width__reach', 'decl_width__excl__reach'], excl='decl_width__excl',
                                   regions=[('decl_width__in_w', 'C18-int-width-typeerror')]),
    'C18/out_decl_str_size': dict(fn='decl_str', reach=['decl_str__reach']),
    'C18/regex_repeat_bounds': dict(fn='repeat_bounds', reach=['repeat_bounds__reach']),
    'C18/whitespace_marker': dict(fn='ws_marker', reach=['ws_marker__reach', 'ws_marker__excl__reach'], excl='ws_marker__excl',
                                  regions=[('ws_marker__in_breaks', 'C18-marker-linebreaks-indexerror')]),
}
