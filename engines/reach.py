"""Turning a one-step model (arbitrary pre-state) into an input through the public API: guided symbolic search with the
abstract machine from start() for bytes that reach the failing control state with data satisfying the failing path's condition."""
import collections
import z3
from . import symx, absm
from .nm import N, End


def distances(snap, target):
    """BFS distance (in transitions) from every state to target over the DFA graph incl. action override targets"""
    rev = collections.defaultdict(set)
    for st, trs in snap.tr.items():
        for t in trs:
            tg = [t.target]
            for a in t.actions:
                for sub in a.all_subactions():
                    try:
                        tg += list(sub.get_target_override_targets())
                    except Exception:
                        pass
            for g in tg:
                if g is not None:
                    rev[g].add(st)
    dist = {target: 0}
    q = collections.deque([target])
    while q:
        x = q.popleft()
        for p in rev[x]:
            if p not in dist:
                dist[p] = dist[x] + 1
                q.append(p)
    return dist


def subst_cond(cond_exprs, pre_data, reached):
    """rewrite a condition over the symbolic pre-state variables into one over the reached data"""
    subs = []
    for n, v in pre_data.vals.items():
        if v is not None and reached.vals.get(n) is not None:
            subs.append((v.v, reached.vals[n].v))
        elif v is not None:
            return None   # reached data leaves the output indeterminate: cannot decide
    for n, s in pre_data.strs.items():
        subs.append((s.len, reached.strs[n].len))
        subs.append((s.arr, reached.strs[n].arr))
    return [z3.substitute(c, *subs) for c in cond_exprs]


def find_input(machine, layout, target, cond_exprs, pre_data, maxlen=10, max_paths=600, timeout_ms=20000, ondemand=False, alloc=None):
    """returns list of bytes reaching `target` (resting there after the last byte) with data satisfying cond_exprs, or None"""
    snap = machine.m
    dist = distances(snap, target)
    if snap.start not in dist:
        return None
    solver = z3.Solver(); solver.set('timeout', timeout_ms)
    start_data = layout.initial(ondemand=ondemand)
    budget = [max_paths]
    for k in range(0, maxlen + 1):
        bs = [z3.BitVec(f'r_{i}', 8) for i in range(k)]
        found = []

        def fn(ctx, k=k, bs=bs):
            cur, dat = snap.start, start_data
            i = 0
            guard = 0
            while i < k:
                guard += 1
                if guard > 6 * k + 10:
                    raise symx.Infeasible()
                # prune: remaining symbols must suffice (each consuming or not, distance counts transitions: lower bound 0 for fallthrough)
                r = machine.dispatch(ctx, cur, bs[i], dat, [])
                cur, dat = r.state, r.data
                if r.code == 'OK':
                    i += 1
                elif r.code.startswith('YIELD_'):
                    if r.consumed:
                        i += 1
                else:
                    raise symx.Infeasible()
                if cur not in dist:
                    raise symx.Infeasible()
            return cur, dat
        try:
            paths = symx.explore(fn, solver, max_paths=budget[0])
        except (symx.PathBudget, absm.Unsupported):
            return None
        budget[0] -= len(paths)
        for pc, (cur, dat) in paths:
            if cur is not target:
                continue
            cs = subst_cond(cond_exprs, pre_data, dat)
            if cs is None:
                continue
            if alloc is not None:
                # the reached allocation state of every on-demand string must be the one of the model
                if any((dat.strs[n].alloc is True) != bool(v) for n, v in alloc.items() if n in dat.strs and isinstance(dat.strs[n].alloc, bool)):
                    continue
            solver.push(); solver.add(*pc, *cs)
            r = solver.check()
            if r == z3.sat:
                m = solver.model()
                solver.pop()
                return [m.eval(b, model_completion=True).as_long() for b in bs]
            solver.pop()
        if budget[0] <= 0:
            return None
    return None
