"""pyif (E4) -- AST if-conversion of small Python kernels of /repo/nmfu.py into z3 formulas.

The source of the *real* functions is read with inspect.getsource + ast on every run and interpreted by a
state-merging symbolic interpreter:

  * every value is either a concrete Python object (evaluated by CPython itself) or a model value:
    z3 Bool/Int, BitSet (frozenset over an n-symbol universe as an n-bit vector), Nat (result of len()),
    Obj (instance of a real class whose methods are inlined from their source), SymDict (dict with a concrete
    ordered key set and symbolic values; a key inserted under a symbolic path condition is *symbolically present*),
    SymSet (mutable set of concrete hashable elements -- e.g. enum members -- with symbolic membership), SymODict (read-only dict whose *presence, values and iteration order*
    are symbolic), ClassProxy (a real class with some attributes shadowed);
  * the interpreter keeps one path condition `pc`; an `if` on a symbolic condition runs both arms on forked
    local environments and merges them with If; heap writes (SymDict items, Obj attributes) are guarded by pc;
  * raise sets a guarded exception bit (per exception class) and kills the path; break/continue/return are
    recorded with their path condition and joined at the loop / call exit;
  * loops over concrete iterables are unrolled; loops over a SymODict are unrolled over rank positions
    (position p picks the present key whose rank is p); `while` is unrolled `while_bound` times and the residual
    path condition is recorded as an unwinding assertion (Interp.unwind) the caller must discharge;
  * calls of closures / methods of model objects are inlined (depth-bounded).

Supported subset (everything else raises CannotEncode -- loud, never skipped):
  statements : Expr, Assign (Name / tuple of Names / d[k] on SymDict / o.attr on Obj|ClassProxy), AugAssign on a
               Name, If, For (no else), While (no else), Break, Continue, Return, Raise (exception class or call
               of one, `from` ignored), Assert, Pass, nested FunctionDef (positional params, constant defaults)
  expressions: Constant, Name, Attribute, Subscript (load), Tuple, List, Dict, DictComp/ListComp/SetComp/
               GeneratorExp over concrete iterables, BoolOp (short-circuit), UnaryOp (not, -, ~ concrete),
               BinOp (+ - & | ^ on BitSets / concrete values / z3 Int), Compare (== != < <= > >= in not-in is
               is-not, chained), IfExp, Call
               bit-vector scalars (ranks) compare as unsigned naturals
  calls      : closures, methods of Obj (resolved through the real MRO, source inlined), constructors of
               registered model classes (__init__ inlined), isinstance, len, bool, frozenset/set on BitSets,
               set() / {a, b} / dict() (SymSet / SymDict), BitSet/SymDict/SymSet/SymODict methods (SymSet: add, discard,
               remove, update, copy, clear, in / not in, len, truth value), methods of a proxied real class on
               purely concrete arguments under an unconditional path (the REAL function is run), and -- on purely concrete arguments -- a fixed allow-list of
               builtins, enum classes, exception classes and methods of immutable builtin values.
"""
import ast, inspect, textwrap, hashlib, builtins, enum, operator, sys, os, json, subprocess, types
import z3


class CannotEncode(Exception):
    pass


def _ce(node, msg):
    ln = getattr(node, 'lineno', None)
    raise CannotEncode(f"cannot encode: {msg}" + (f" (line {ln} of the encoded fragment)" if ln else ''))


# --------------------------------------------------------------------------------------------------
# boolean helpers (Python bool or z3 Bool), constant folding, identity preserving
# --------------------------------------------------------------------------------------------------
def _norm(x):
    if isinstance(x, bool):
        return x
    if isinstance(x, z3.ExprRef):
        if z3.is_true(x):
            return True
        if z3.is_false(x):
            return False
    return x


def is_boolish(x):
    return isinstance(x, bool) or (isinstance(x, z3.ExprRef) and z3.is_bool(x))


def zb(x):
    return z3.BoolVal(x) if isinstance(x, bool) else x


def b_not(x):
    x = _norm(x)
    if isinstance(x, bool):
        return not x
    if z3.is_not(x):
        return x.arg(0)
    return z3.Not(x)


def b_and(*xs):
    out = []
    for x in xs:
        x = _norm(x)
        if x is True:
            continue
        if x is False:
            return False
        if not any(x is y or x.eq(y) for y in out):
            out.append(x)
    if not out:
        return True
    if len(out) == 1:
        return out[0]
    return z3.And(*out)


def b_or(*xs):
    out = []
    for x in xs:
        x = _norm(x)
        if x is False:
            continue
        if x is True:
            return True
        if not any(x is y or x.eq(y) for y in out):
            out.append(x)
    if not out:
        return False
    if len(out) == 1:
        return out[0]
    return z3.Or(*out)


def b_ite(c, a, b):
    c, a, b = _norm(c), _norm(a), _norm(b)
    if c is True:
        return a
    if c is False:
        return b
    if same(a, b):
        return a
    if a is True:
        return b_or(c, b)
    if a is False:
        return b_and(b_not(c), b)
    if b is True:
        return b_or(b_not(c), a)
    if b is False:
        return b_and(c, a)
    return z3.If(c, a, b)


def b_eq(a, b):
    a, b = _norm(a), _norm(b)
    if isinstance(a, bool) and isinstance(b, bool):
        return a == b
    if isinstance(a, bool):
        return b if a else b_not(b)
    if isinstance(b, bool):
        return a if b else b_not(a)
    return a == b


# --------------------------------------------------------------------------------------------------
# model values
# --------------------------------------------------------------------------------------------------
class Model:
    """base of all non-concrete interpreter values"""


class Poison(Model):
    """a local whose values on two merged paths could not be merged; reading it is a CannotEncode"""

    def __init__(self, why):
        self.why = why


class Nat(Model):
    """non-negative integer as an unsigned bit-vector (result of len() of a BitSet)"""

    def __init__(self, bv):
        self.bv = bv

    @property
    def w(self):
        return self.bv.size()


def popcount(bv, n):
    w = n.bit_length() + 1
    parts = [z3.ZeroExt(w - 1, z3.Extract(i, i, bv)) for i in range(n)]
    while len(parts) > 1:
        nxt = [parts[i] + parts[i + 1] for i in range(0, len(parts) - 1, 2)]
        if len(parts) % 2:
            nxt.append(parts[-1])
        parts = nxt
    return parts[0]


class BitSet(Model):
    """frozenset over the universe {0..n-1} (bytes / chr(0..n-1)) as an n-bit vector; bit i = member i"""

    def __init__(self, bv, n):
        self.bv, self.n = bv, n

    @staticmethod
    def elem_index(e, n):
        if isinstance(e, bool):
            return None
        if isinstance(e, int) and 0 <= e < n:
            return int(e)
        if isinstance(e, str) and len(e) == 1 and ord(e) < n:
            return ord(e)
        if isinstance(e, bytes) and len(e) == 1:
            return e[0]
        return None

    @staticmethod
    def lift(v, n):
        if isinstance(v, BitSet):
            return v
        if isinstance(v, SymSet):
            v = v.concrete_elems()
            if v is None:
                raise CannotEncode("cannot encode: set with symbolic membership used next to a bit-vector set")
        if isinstance(v, (frozenset, set, tuple, list, str, range)):
            x = 0
            for e in v:
                i = BitSet.elem_index(e, n)
                if i is None:
                    raise CannotEncode(f"cannot encode: set element {e!r} outside the {n}-symbol universe")
                x |= 1 << i
            return BitSet(z3.BitVecVal(x, n), n)
        raise CannotEncode(f"cannot encode: {type(v).__name__} used as a set next to a symbolic set")

    def full(self):
        return z3.BitVecVal((1 << self.n) - 1, self.n)


class Obj(Model):
    """instance of a real (registered) class; attributes are interpreter values"""

    def __init__(self, cls, depth=0):
        self.cls = cls
        self.attrs = {}
        self.depth = depth      # branch-nesting depth at creation: new attributes may only be added at that depth or above

    def __repr__(self):
        return f"<Obj {self.cls.__name__} {list(self.attrs)}>"


class SymDict(Model):
    """dict with a concrete, ordered key set (Python hash/eq semantics) and interpreter values.
    present[k] (only for keys first inserted under a symbolic path condition): the condition under which k is a key;
    keys not listed there are unconditionally present."""

    def __init__(self, items=()):
        self.vals = dict(items)
        self.present = {}

    def pres(self, k):
        return _norm(self.present.get(k, True)) if k in self.vals else False

    def all_present(self):
        return all(_norm(v) is True for v in self.present.values())


class SymSet(Model):
    """mutable set of CONCRETE hashable elements (e.g. enum members) with symbolic membership:
    mem[e] is a Python bool or a z3 Bool; elements never mentioned are not members.  A heap object: add/discard are
    guarded by the path condition, the object itself is shared by all paths (like SymDict)."""

    def __init__(self, items=()):
        self.mem = {}
        for e in items:
            self.mem[e] = True

    def member(self, e):
        return _norm(self.mem.get(e, False))

    def concrete_elems(self):
        """the elements if membership is concrete everywhere, else None"""
        out = []
        for e, m in self.mem.items():
            m = _norm(m)
            if m is True:
                out.append(e)
            elif m is not False:
                return None
        return out


class SymODict(Model):
    """read-only dict over a concrete universe of possible keys; presence, value and iteration order symbolic:
    present[k]: z3 Bool, value[k]: z3 value, rank[k]: z3 Int.  The caller must constrain ranks to be pairwise
    distinct and within 0..len(universe)-1; iteration order = increasing rank of the present keys."""

    def __init__(self, universe, present, value, rank):
        self.universe = list(universe)
        self.present, self.value, self.rank = present, value, rank

    def key(self, k):
        for u in self.universe:
            if u == k and hash(u) == hash(k):
                return u
        return None


class View(Model):
    def __init__(self, base, kind):
        self.base, self.kind = base, kind


class ClassProxy(Model):
    """a real class some of whose attributes are shadowed by model values (e.g. cls._flags)"""

    def __init__(self, real, shadow=None):
        self.real = real
        self.shadow = dict(shadow or {})


class Closure(Model):
    def __init__(self, fdef, frame, globs, qualname):
        self.fdef, self.frame, self.globs, self.qualname = fdef, frame, globs, qualname


class BoundMethod(Model):
    def __init__(self, obj, func):
        self.obj, self.func = obj, func


class ModelMethod(Model):
    def __init__(self, base, name):
        self.base, self.name = base, name


class RealMethod(Model):
    """a (class/static) method of a proxied real class: callable on purely concrete arguments, by running the REAL function"""

    def __init__(self, proxy, name, fn):
        self.proxy, self.name, self.fn = proxy, name, fn


class ExcValue(Model):
    def __init__(self, cls, args):
        self.cls, self.args = cls, args


class SymNameSet(Model):
    """`name in s` -> z3 Bool; used to evaluate known-finding region expressions symbolically"""

    def __init__(self, fn):
        self.fn = fn


class SymOrder(Model):
    """`o.index(name)` -> z3 Int rank, `name in o` -> present"""

    def __init__(self, rank_fn, present_fn):
        self.rank_fn, self.present_fn = rank_fn, present_fn


_UNBOUND = object()


def is_concrete(v):
    if isinstance(v, (Model, z3.ExprRef)):
        return False
    if isinstance(v, (tuple, list)):
        return all(is_concrete(x) for x in v)
    return True


def same(a, b):
    if a is b:
        return True
    za, zb_ = isinstance(a, z3.ExprRef), isinstance(b, z3.ExprRef)
    if za and zb_:
        return a.eq(b)
    if za or zb_:
        return False
    if isinstance(a, BitSet) and isinstance(b, BitSet):
        return a.n == b.n and a.bv.eq(b.bv)
    if isinstance(a, Nat) and isinstance(b, Nat):
        return a.bv.eq(b.bv)
    if isinstance(a, Model) or isinstance(b, Model):
        return False
    if isinstance(a, (tuple, list)) and type(a) is type(b):
        return len(a) == len(b) and all(same(x, y) for x, y in zip(a, b))
    try:
        return type(a) is type(b) and bool(a == b)
    except Exception:
        return False


def merge(c, a, b):
    """the value that is `a` where c holds and `b` elsewhere"""
    c = _norm(c)
    if c is True:
        return a
    if c is False:
        return b
    if same(a, b):
        return a
    if isinstance(a, Poison):
        return a
    if isinstance(b, Poison):
        return b
    if is_boolish(a) and is_boolish(b):
        return b_ite(c, a, b)
    if isinstance(a, BitSet) or isinstance(b, BitSet):
        try:
            n = a.n if isinstance(a, BitSet) else b.n
            x, y = BitSet.lift(a, n), BitSet.lift(b, n)
            return BitSet(z3.If(c, x.bv, y.bv), n)
        except CannotEncode:
            return Poison(f"set merged with {a!r}/{b!r}")
    if isinstance(a, Nat) and isinstance(b, Nat) and a.w == b.w:
        return Nat(z3.If(c, a.bv, b.bv))

    def _int(v):
        if isinstance(v, int) and not isinstance(v, (bool, enum.Enum)):
            return z3.IntVal(v)
        if isinstance(v, z3.ExprRef) and z3.is_int(v):
            return v
        return None
    ia, ib = _int(a), _int(b)
    if ia is not None and ib is not None:
        return z3.If(c, ia, ib)
    if isinstance(a, z3.ExprRef) and isinstance(b, z3.ExprRef) and a.sort().eq(b.sort()):
        return z3.If(c, a, b)
    if isinstance(a, tuple) and isinstance(b, tuple) and len(a) == len(b):
        r = tuple(merge(c, x, y) for x, y in zip(a, b))
        for x in r:
            if isinstance(x, Poison):
                return x
        return r
    if isinstance(a, Obj) and isinstance(b, Obj) and a.cls is b.cls and set(a.attrs) == set(b.attrs):
        o = Obj(a.cls)
        for k in a.attrs:
            o.attrs[k] = merge(c, a.attrs[k], b.attrs[k])
            if isinstance(o.attrs[k], Poison):
                return o.attrs[k]
        return o
    return Poison(f"values {a!r} and {b!r} of two merged paths have no common symbolic representation")


# --------------------------------------------------------------------------------------------------
# source access
# --------------------------------------------------------------------------------------------------
class FuncSrc:
    def __init__(self, fn):
        fn = getattr(fn, '__func__', fn)
        self.fn = fn
        lines, first = inspect.getsourcelines(fn)
        self.text = ''.join(lines)
        self.file = inspect.getsourcefile(fn)
        self.first, self.last = first, first + len(lines) - 1
        mod = ast.parse(textwrap.dedent(self.text))
        if not mod.body or not isinstance(mod.body[0], ast.FunctionDef):
            raise CannotEncode(f"cannot encode: {fn!r} is not a plain function definition")
        self.node = mod.body[0]
        ast.increment_lineno(self.node, first - 1)
        self.globs = fn.__globals__
        self.qualname = fn.__qualname__
        self.sha = hashlib.sha256(self.text.encode()).hexdigest()[:16]

    def describe(self, part=None, lines=None, sha=None):
        return {'function': self.qualname + (f" [{part}]" if part else ''), 'file': self.file,
                'lines': list(lines or (self.first, self.last)), 'sha256_16_of_encoded_source': sha or self.sha}


_FUNC_CACHE = {}


def func_src(fn):
    f = getattr(fn, '__func__', fn)
    if f not in _FUNC_CACHE:
        _FUNC_CACHE[f] = FuncSrc(f)
    return _FUNC_CACHE[f]


def segment_info(fs, stmts):
    """line range and hash of a statement sub-list of a FuncSrc"""
    first, last = stmts[0].lineno, max(getattr(s, 'end_lineno', s.lineno) for s in stmts)
    lines = fs.text.splitlines(True)[first - fs.first: last - fs.first + 1]
    text = ''.join(lines)
    return (first, last), hashlib.sha256(text.encode()).hexdigest()[:16], text


# --------------------------------------------------------------------------------------------------
# interpreter
# --------------------------------------------------------------------------------------------------
class Frame:
    def __init__(self, name, locals_, closure, globs, localnames=()):
        self.name, self.locals, self.closure, self.globs = name, locals_, closure, globs
        self.localnames = set(localnames)
        self.rets = []


class _Loop:
    def __init__(self):
        self.brks, self.conts = [], []


_SAFE_BUILTINS = {range, len, int, bool, str, tuple, list, min, max, sorted, abs, enumerate, zip, frozenset, set,
                  isinstance, ord, chr, reversed, any, all, sum, repr, hash}
_IMMUTABLE = (str, frozenset, tuple, int, bytes, bool, range)

_BINOPS = {ast.Add: operator.add, ast.Sub: operator.sub, ast.BitAnd: operator.and_, ast.BitOr: operator.or_,
           ast.BitXor: operator.xor, ast.Mult: operator.mul, ast.FloorDiv: operator.floordiv, ast.Mod: operator.mod,
           ast.LShift: operator.lshift, ast.RShift: operator.rshift}
_CMPOPS = {ast.Eq: operator.eq, ast.NotEq: operator.ne, ast.Lt: operator.lt, ast.LtE: operator.le,
           ast.Gt: operator.gt, ast.GtE: operator.ge}


def _assigned_names(fdef):
    names = set()

    def visit(n):
        for ch in ast.iter_child_nodes(n):
            if isinstance(ch, (ast.FunctionDef, ast.AsyncFunctionDef, ast.ClassDef)):
                names.add(ch.name)
                continue
            if isinstance(ch, (ast.Lambda, ast.ListComp, ast.SetComp, ast.DictComp, ast.GeneratorExp)):
                continue
            if isinstance(ch, ast.Name) and isinstance(ch.ctx, ast.Store):
                names.add(ch.id)
            visit(ch)
    visit(fdef)
    return names


class Interp:
    def __init__(self, universe=256, while_bound=8, max_depth=40, model_classes=()):
        self.n = universe
        self.while_bound = while_bound
        self.max_depth = max_depth
        self.model_classes = set(model_classes)
        self.pc = True
        self.exc = {}            # exception class name -> condition under which it was raised
        self.unwind = []         # residual path conditions of bounded while loops
        self.escapes = 0
        self.set_is_frozen = False   # region expressions may write set(x) for a symbolic set (never mutated there)
        self.facts = []          # conditions syntactically known to hold on the current path
        self.loops = []
        self.depth = 0
        self.functions = {}      # qualname -> description of every inlined real function
        self.stats = {'forks': 0, 'stmts': 0, 'inlined_calls': 0, 'while_unrollings': 0, 'heap_writes': 0}

    # ---- exceptions ------------------------------------------------------------------------------
    def raise_exc(self, name):
        if self.pc is False:
            return
        self.exc[name] = b_or(self.exc.get(name, False), self.pc)
        self.escapes += 1
        self.pc = False

    def exc_cond(self, name):
        return self.exc.get(name, False)

    def other_exc(self, *expected):
        return {k: v for k, v in self.exc.items() if k not in expected}

    # ---- truthiness ------------------------------------------------------------------------------
    def truth(self, v, node=None):
        v = _norm(v)
        if isinstance(v, bool):
            return v
        if isinstance(v, z3.ExprRef):
            if z3.is_bool(v):
                return v
            if z3.is_int(v):
                return v != 0
            _ce(node, f"truth value of z3 term of sort {v.sort()}")
        if isinstance(v, BitSet):
            return v.bv != 0
        if isinstance(v, Nat):
            return v.bv != 0
        if isinstance(v, SymDict):
            return b_or(*[v.pres(k) for k in v.vals])
        if isinstance(v, SymSet):
            return b_or(*[v.member(k) for k in v.mem])
        if isinstance(v, SymODict):
            return b_or(*[v.present[k] for k in v.universe])
        if isinstance(v, Obj):
            for k in v.cls.__mro__:
                if k is not object and ('__bool__' in k.__dict__ or '__len__' in k.__dict__):
                    _ce(node, f"truth value of {v.cls.__name__} instance with __bool__/__len__")
            return True
        if isinstance(v, Poison):
            _ce(node, v.why)
        if isinstance(v, Model):
            _ce(node, f"truth value of {type(v).__name__}")
        return bool(v)

    # ---- names -----------------------------------------------------------------------------------
    def lookup(self, name, fr, node=None):
        f = fr
        while f is not None:
            if name in f.locals:
                v = f.locals[name]
                if isinstance(v, Poison):
                    _ce(node, f"read of local '{name}': {v.why}")
                return v
            if name in f.localnames:
                _ce(node, f"local '{name}' may be unbound here")
            f = f.closure
        if name in fr.globs:
            return fr.globs[name]
        if hasattr(builtins, name):
            return getattr(builtins, name)
        _ce(node, f"unknown name '{name}'")

    # ---- branching / joining -----------------------------------------------------------------------
    def _merge_env(self, c, p1, e1, p2, e2):
        if p1 is False:
            return e2
        if p2 is False:
            return e1
        out = {}
        for k in list(e1) + [k for k in e2 if k not in e1]:
            v1, v2 = e1.get(k, _UNBOUND), e2.get(k, _UNBOUND)
            if v1 is v2:
                out[k] = v1
            elif v1 is _UNBOUND or v2 is _UNBOUND:
                out[k] = Poison(f"'{k}' is bound on only one of two merged paths")
            else:
                out[k] = merge(c, v1, v2)
        return out

    def _branch(self, c, then_fn, else_fn, fr):
        c = _norm(c)
        if c is True:
            then_fn()
            return
        if c is False:
            if else_fn:
                else_fn()
            return
        pc0, env0 = self.pc, fr.locals
        if pc0 is False:
            return
        self.stats['forks'] += 1
        pt = b_and(pc0, c)
        self.pc, fr.locals = pt, dict(env0)
        if pt is not False:
            self.facts.append(c)
            try:
                then_fn()
            finally:
                self.facts.pop()
        p1, e1 = self.pc, fr.locals
        nc = b_not(c)
        pe = b_and(pc0, nc)
        self.pc, fr.locals = pe, dict(env0)
        if else_fn and pe is not False:
            self.facts.append(nc)
            try:
                else_fn()
            finally:
                self.facts.pop()
        p2, e2 = self.pc, fr.locals
        if p1 is pt and p2 is pe:
            self.pc = pc0
        else:
            self.pc = b_or(p1, p2)
        fr.locals = self._merge_env(c, p1, e1, p2, e2)

    def _join(self, fr, pending):
        for cond, env in pending:
            if cond is False:
                continue
            if self.pc is False:
                self.pc, fr.locals = cond, env
            else:
                fr.locals = self._merge_env(cond, cond, env, self.pc, fr.locals)
                self.pc = b_or(cond, self.pc)

    # ---- statements ------------------------------------------------------------------------------
    def exec_block(self, stmts, fr):
        for s in stmts:
            if self.pc is False:
                return
            self.exec_stmt(s, fr)

    def exec_stmt(self, s, fr):
        self.stats['stmts'] += 1
        if isinstance(s, ast.Expr):
            if isinstance(s.value, ast.Constant):
                return
            self.eval(s.value, fr)
        elif isinstance(s, ast.Pass):
            return
        elif isinstance(s, ast.Assign):
            v = self.eval(s.value, fr)
            for t in s.targets:
                self.assign(t, v, fr)
        elif isinstance(s, ast.AugAssign):
            if not isinstance(s.target, ast.Name) or type(s.op) not in _BINOPS:
                _ce(s, "augmented assignment other than `name op= expr`")
            cur = self.lookup(s.target.id, fr, s)
            v = self.binop(type(s.op), cur, self.eval(s.value, fr), s)
            fr.locals[s.target.id] = v
        elif isinstance(s, ast.If):
            c = self.truth(self.eval(s.test, fr), s)
            self._branch(c, lambda: self.exec_block(s.body, fr), (lambda: self.exec_block(s.orelse, fr)) if s.orelse else None, fr)
        elif isinstance(s, ast.For):
            self.exec_for(s, fr)
        elif isinstance(s, ast.While):
            self.exec_while(s, fr)
        elif isinstance(s, ast.Break):
            if not self.loops:
                _ce(s, "break outside loop")
            self.loops[-1].brks.append((self.pc, dict(fr.locals)))
            self.pc = False
        elif isinstance(s, ast.Continue):
            if not self.loops:
                _ce(s, "continue outside loop")
            self.loops[-1].conts.append((self.pc, dict(fr.locals)))
            self.pc = False
        elif isinstance(s, ast.Return):
            v = self.eval(s.value, fr) if s.value is not None else None
            if self.pc is not False:
                fr.rets.append((self.pc, v))
            self.pc = False
        elif isinstance(s, ast.Raise):
            if s.exc is None:
                _ce(s, "bare raise")
            e = self.eval(s.exc, fr)
            if isinstance(e, ExcValue):
                name = e.cls.__name__
            elif isinstance(e, type) and issubclass(e, BaseException):
                name = e.__name__
            elif isinstance(e, BaseException):
                name = type(e).__name__
            else:
                _ce(s, "raise of a non-exception value")
            self.raise_exc(name)
        elif isinstance(s, ast.Assert):
            c = self.truth(self.eval(s.test, fr), s)
            self._branch(b_not(c), lambda: self.raise_exc('AssertionError'), None, fr)
        elif isinstance(s, ast.FunctionDef):
            a = s.args
            if a.vararg or a.kwarg or a.kwonlyargs or a.posonlyargs or s.decorator_list:
                _ce(s, "nested function with *args/**kwargs/keyword-only parameters or decorators")
            fr.locals[s.name] = Closure(s, fr, fr.globs, fr.name + '.<locals>.' + s.name)
        else:
            _ce(s, f"statement {type(s).__name__}")

    def assign(self, t, v, fr):
        if isinstance(t, ast.Name):
            fr.locals[t.id] = v
        elif isinstance(t, (ast.Tuple, ast.List)):
            if any(isinstance(e, ast.Starred) for e in t.elts):
                _ce(t, "starred assignment target")
            if not isinstance(v, (tuple, list)) or len(v) != len(t.elts):
                _ce(t, f"unpacking of {type(v).__name__} into {len(t.elts)} targets")
            for e, x in zip(t.elts, v):
                self.assign(e, x, fr)
        elif isinstance(t, ast.Subscript):
            base = self.eval(t.value, fr)
            key = self.eval(t.slice, fr)
            if not isinstance(base, SymDict):
                _ce(t, f"item assignment on {type(base).__name__}")
            if not is_concrete(key):
                _ce(t, "item assignment with a symbolic key")
            try:
                known = key in base.vals
            except TypeError:
                _ce(t, "unhashable key")
            if not known:
                if self._iterating(base):
                    _ce(t, "insertion of a new key into a dict while iterating it")
                base.vals[key] = v
                if self.pc is not True:
                    # the key exists exactly on the paths that come through here (read elsewhere: KeyError / `in` is False)
                    base.present[key] = self.pc
                    self.stats['heap_writes'] += 1
                return
            self.stats['heap_writes'] += 1
            if key in base.present:
                if self._iterating(base):
                    _ce(t, "possible insertion of a new key into a dict while iterating it")
                base.present[key] = b_or(base.pres(key), self.pc)    # (where the key was absent the old value is never read)
            nv = merge(self.pc, v, base.vals[key])
            if isinstance(nv, Poison):
                _ce(t, nv.why)
            base.vals[key] = nv
        elif isinstance(t, ast.Attribute):
            base = self.eval(t.value, fr)
            if isinstance(base, Obj):
                store = base.attrs
            elif isinstance(base, ClassProxy):
                store = base.shadow
            else:
                _ce(t, f"attribute assignment on {type(base).__name__}")
            if t.attr in store:
                nv = merge(self.pc, v, store[t.attr])
                if isinstance(nv, Poison):
                    _ce(t, nv.why)
                store[t.attr] = nv
            else:
                if isinstance(base, ClassProxy) and self.pc is not True:
                    _ce(t, "new class attribute under a symbolic path condition")
                if isinstance(base, Obj) and len(self.facts) > base.depth:
                    _ce(t, "new attribute of an object created outside the current symbolic branch")
                store[t.attr] = v
            self.stats['heap_writes'] += 1
        else:
            _ce(t, f"assignment target {type(t).__name__}")

    _iter_stack = ()

    def _iterating(self, d):
        return any(x is d for x in self._iter_stack)

    def iterate(self, it, node):
        """-> list of (guard, thunk) in iteration order; thunk() is evaluated when the iteration is reached"""
        if isinstance(it, View):
            base, kind = it.base, it.kind
        elif isinstance(it, (SymDict, SymODict)):
            base, kind = it, 'keys'
        else:
            base = None
        if isinstance(it, SymSet):
            el = it.concrete_elems()
            if el is None:
                _ce(node, "iteration over a set with symbolic membership (its order would depend on the path taken)")
            try:
                order = list(set(el))      # hash order of this CPython (concrete metadata), as for real sets
            except TypeError:
                _ce(node, "unhashable set element")
            return [(True, (lambda x=x: x)) for x in order], it
        if isinstance(base, SymDict):
            if not base.all_present():
                _ce(node, "iteration over a dict some of whose keys exist only on some paths")
            keys = list(base.vals)
            pick = {'keys': lambda k: k, 'values': lambda k: base.vals[k], 'items': lambda k: (k, base.vals[k])}[kind]
            return [(True, (lambda k=k: pick(k))) for k in keys], base
        if isinstance(base, SymODict):
            pick = {'keys': lambda k: k, 'values': lambda k: base.value[k], 'items': lambda k: (k, base.value[k])}[kind]
            out = []
            for p in range(len(base.universe)):
                for k in base.universe:
                    out.append((b_and(base.present[k], base.rank[k] == p), (lambda k=k: pick(k))))
            return out, None
        if isinstance(it, Model) or isinstance(it, z3.ExprRef):
            _ce(node, f"iteration over {type(it).__name__}")
        if isinstance(it, (range, tuple, list, frozenset, set, str, dict, enum.EnumMeta, enumerate, zip, reversed)) or \
                type(it).__name__ in ('dict_keys', 'dict_values', 'dict_items'):
            return [(True, (lambda x=x: x)) for x in it], None
        _ce(node, f"iteration over concrete {type(it).__name__}")

    def exec_for(self, s, fr):
        if s.orelse:
            _ce(s, "for-else")
        it = self.eval(s.iter, fr)
        items, locked = self.iterate(it, s)
        loop = _Loop()
        self.loops.append(loop)
        if locked is not None:
            self._iter_stack = self._iter_stack + (locked,)
        try:
            for g, thunk in items:
                if self.pc is False:
                    break

                def body(thunk=thunk):
                    loop.conts = []
                    self.assign(s.target, thunk(), fr)
                    self.exec_block(s.body, fr)
                    self._join(fr, loop.conts)
                    loop.conts = []
                self._branch(g, body, None, fr)
        finally:
            self.loops.pop()
            if locked is not None:
                self._iter_stack = self._iter_stack[:-1]
        self._join(fr, loop.brks)

    def exec_while(self, s, fr):
        if s.orelse:
            _ce(s, "while-else")
        loop = _Loop()
        self.loops.append(loop)
        U = self.while_bound
        try:
            for _ in range(U):
                if self.pc is False:
                    break
                c = self.truth(self.eval(s.test, fr), s)
                if c is False:
                    loop.brks.append((self.pc, fr.locals))
                    self.pc = False
                    break
                if c is not True:
                    loop.brks.append((b_and(self.pc, b_not(c)), dict(fr.locals)))
                    self.pc = b_and(self.pc, c)
                self.stats['while_unrollings'] += 1
                loop.conts = []
                self.exec_block(s.body, fr)
                self._join(fr, loop.conts)
                loop.conts = []
            if self.pc is not False:
                # paths that need more than U iterations: unwinding assertion, to be discharged by the caller
                c = self.truth(self.eval(s.test, fr), s) if not (isinstance(s.test, ast.Constant) and s.test.value is True) else True
                res = b_and(self.pc, c)
                if res is not False:
                    self.unwind.append({'line': s.lineno, 'bound': U, 'cond': res})
                    self.escapes += 1
                if c is not True:
                    loop.brks.append((b_and(self.pc, b_not(c)), dict(fr.locals)))
                self.pc = False
        finally:
            self.loops.pop()
        self._join(fr, loop.brks)

    # ---- expressions -----------------------------------------------------------------------------
    def eval(self, e, fr):
        m = getattr(self, 'ev_' + type(e).__name__, None)
        if m is None:
            _ce(e, f"expression {type(e).__name__}")
        return m(e, fr)

    def ev_Constant(self, e, fr):
        return e.value

    def ev_Name(self, e, fr):
        return self.lookup(e.id, fr, e)

    def ev_Tuple(self, e, fr):
        if any(isinstance(x, ast.Starred) for x in e.elts):
            _ce(e, "starred element")
        return tuple(self.eval(x, fr) for x in e.elts)

    def ev_List(self, e, fr):
        if any(isinstance(x, ast.Starred) for x in e.elts):
            _ce(e, "starred element")
        return [self.eval(x, fr) for x in e.elts]

    def ev_Set(self, e, fr):
        if any(isinstance(x, ast.Starred) for x in e.elts):
            _ce(e, "starred element")
        elts = [self.eval(x, fr) for x in e.elts]
        if not is_concrete(elts):
            _ce(e, "set display with symbolic elements")
        try:
            return SymSet(elts)
        except TypeError:
            self.raise_exc('TypeError')
            return None

    def ev_Dict(self, e, fr):
        if any(k is None for k in e.keys):
            _ce(e, "dict unpacking")
        d = SymDict()
        for k, v in zip(e.keys, e.values):
            kk = self.eval(k, fr)
            if not is_concrete(kk):
                _ce(e, "symbolic dict key")
            d.vals[kk] = self.eval(v, fr)
        return d

    def _comp(self, e, fr, emit):
        sub = Frame(fr.name + '.<comp>', {}, fr, fr.globs)

        def rec(i):
            if i == len(e.generators):
                emit(sub)
                return
            g = e.generators[i]
            if g.is_async:
                _ce(e, "async comprehension")
            it = self.eval(g.iter, sub if i else fr)
            items, _ = self.iterate(it, e)
            for guard, thunk in items:
                if guard is not True:
                    _ce(e, "comprehension over a symbolically ordered dict")
                self.assign(g.target, thunk(), sub)
                ok = True
                for cond in g.ifs:
                    c = self.truth(self.eval(cond, sub), e)
                    if not isinstance(c, bool):
                        _ce(e, "comprehension filter with a symbolic condition")
                    if not c:
                        ok = False
                        break
                if ok:
                    rec(i + 1)
        rec(0)

    def ev_DictComp(self, e, fr):
        d = SymDict()

        def emit(sub):
            k = self.eval(e.key, sub)
            if not is_concrete(k):
                _ce(e, "symbolic dict key")
            d.vals[k] = self.eval(e.value, sub)
        self._comp(e, fr, emit)
        return d

    def ev_ListComp(self, e, fr):
        out = []
        self._comp(e, fr, lambda sub: out.append(self.eval(e.elt, sub)))
        return out

    def ev_GeneratorExp(self, e, fr):
        return tuple(self.ev_ListComp(e, fr))

    def ev_SetComp(self, e, fr):
        out = self.ev_ListComp(e, fr)
        if not is_concrete(out):
            _ce(e, "set comprehension with symbolic elements")
        return set(out)

    def ev_Attribute(self, e, fr):
        base = self.eval(e.value, fr)
        return self.getattr(base, e.attr, e)

    def getattr(self, base, attr, node=None):
        if isinstance(base, Obj):
            if attr in base.attrs:
                v = base.attrs[attr]
                if isinstance(v, Poison):
                    _ce(node, v.why)
                return v
            if attr == '__class__':
                return base.cls
            for k in base.cls.__mro__:
                if attr in k.__dict__:
                    f = k.__dict__[attr]
                    if isinstance(f, types.FunctionType):
                        return BoundMethod(base, f)
                    if isinstance(f, (staticmethod, classmethod, property)):
                        _ce(node, f"{type(f).__name__} {attr} on a model object")
                    return f
            self.raise_exc('AttributeError')
            return None
        if isinstance(base, ClassProxy):
            if attr in base.shadow:
                return base.shadow[attr]
            v = getattr(base.real, attr)
            if callable(v) and not isinstance(v, type):
                if isinstance(v, (types.MethodType, types.FunctionType)):
                    return RealMethod(base, attr, v)     # callable on concrete arguments only (see call)
                _ce(node, f"call-able attribute {attr} of proxied class {base.real.__name__}")
            return v
        if isinstance(base, (BitSet, SymDict, SymSet, SymODict, SymOrder)):
            return ModelMethod(base, attr)
        if isinstance(base, Poison):
            _ce(node, base.why)
        if isinstance(base, (Model, z3.ExprRef)):
            _ce(node, f"attribute {attr} of {type(base).__name__}")
        try:
            return getattr(base, attr)
        except AttributeError:
            self.raise_exc('AttributeError')
            return None

    def ev_Subscript(self, e, fr):
        base = self.eval(e.value, fr)
        if isinstance(e.slice, ast.Slice):
            if not is_concrete(base):
                _ce(e, "slice of a symbolic value")
            lo = self.eval(e.slice.lower, fr) if e.slice.lower else None
            hi = self.eval(e.slice.upper, fr) if e.slice.upper else None
            st = self.eval(e.slice.step, fr) if e.slice.step else None
            if not is_concrete((lo, hi, st)):
                _ce(e, "symbolic slice bound")
            return base[lo:hi:st]
        key = self.eval(e.slice, fr)
        if isinstance(base, SymDict):
            if not is_concrete(key):
                _ce(e, "symbolic key")
            if key not in base.vals:
                self.raise_exc('KeyError')
                return None
            v = base.vals[key]
            if isinstance(v, Poison):
                _ce(e, v.why)
            pk = base.pres(key)
            if pk is not True:
                # KeyError exactly where the key has not been inserted on this path
                known = any((f is pk) or (isinstance(f, z3.ExprRef) and isinstance(pk, z3.ExprRef) and f.eq(pk)) for f in self.facts)
                miss = False if known else b_and(self.pc, b_not(pk))
                if miss is not False:
                    self.exc['KeyError'] = b_or(self.exc.get('KeyError', False), miss)
                    self.escapes += 1
                    self.pc = b_and(self.pc, pk)
            return v
        if isinstance(base, SymODict):
            if not is_concrete(key):
                _ce(e, "symbolic key")
            k = base.key(key)
            if k is None:
                self.raise_exc('KeyError')
                return None
            # KeyError exactly where the key is absent on this path
            pk = _norm(base.present[k])
            known = pk is True or any((f is pk) or (isinstance(f, z3.ExprRef) and isinstance(pk, z3.ExprRef) and f.eq(pk)) for f in self.facts)
            miss = False if known else b_and(self.pc, b_not(pk))
            if miss is not False:
                self.exc['KeyError'] = b_or(self.exc.get('KeyError', False), miss)
                self.escapes += 1
                self.pc = b_and(self.pc, base.present[k])
            return base.value[k]
        if isinstance(base, (tuple, list)) and is_concrete(key):
            try:
                return base[key]
            except (IndexError, TypeError) as ex:
                self.raise_exc(type(ex).__name__)
                return None
        if not is_concrete(base) or not is_concrete(key):
            _ce(e, f"subscript of {type(base).__name__} with {type(key).__name__}")
        try:
            return base[key]
        except (KeyError, IndexError, TypeError) as ex:
            self.raise_exc(type(ex).__name__)
            return None

    def ev_UnaryOp(self, e, fr):
        v = self.eval(e.operand, fr)
        if isinstance(e.op, ast.Not):
            return b_not(self.truth(v, e))
        if is_concrete(v):
            if isinstance(e.op, ast.USub):
                return -v
            if isinstance(e.op, ast.Invert):
                return ~v
            if isinstance(e.op, ast.UAdd):
                return +v
        _ce(e, f"unary {type(e.op).__name__} on {type(v).__name__}")

    def ev_BoolOp(self, e, fr):
        is_and = isinstance(e.op, ast.And)
        pc_base, guarded, nfacts = self.pc, False, len(self.facts)
        acc = None            # symbolic accumulated value (bool) once any operand is symbolic
        result = None
        try:
            for i, sub in enumerate(e.values):
                esc = self.escapes
                v = self.eval(sub, fr)
                if self.escapes != esc:
                    if guarded:
                        _ce(e, "possible exception inside a short-circuited operand")
                    pc_base = self.pc
                last = i == len(e.values) - 1
                if acc is None and is_concrete(v):
                    t = bool(v)
                    if last or (is_and and not t) or ((not is_and) and t):
                        result = v
                        break
                    continue
                if not is_boolish(v):
                    _ce(e, "and/or whose symbolic operand is not a bool")
                t = self.truth(v, e)
                acc = t if acc is None else (b_and(acc, t) if is_and else b_or(acc, t))
                if last:
                    result = acc
                    break
                go = t if is_and else b_not(t)   # the next operand is evaluated only where `go`
                if go is False:
                    result = acc
                    break
                if go is not True:
                    self.pc = b_and(self.pc, go)
                    self.facts.append(go)
                    guarded = True
        finally:
            del self.facts[nfacts:]
        self.pc = pc_base
        return result

    def ev_IfExp(self, e, fr):
        c = self.truth(self.eval(e.test, fr), e)
        if c is True:
            return self.eval(e.body, fr)
        if c is False:
            return self.eval(e.orelse, fr)
        pc0, esc0 = self.pc, self.escapes
        self.pc = b_and(pc0, c)
        a = self.eval(e.body, fr)
        self.pc = b_and(pc0, b_not(c))
        b = self.eval(e.orelse, fr)
        if self.escapes != esc0:
            _ce(e, "exception inside a conditional expression")
        self.pc = pc0
        r = merge(c, a, b)
        if isinstance(r, Poison):
            _ce(e, r.why)
        return r

    def ev_BinOp(self, e, fr):
        return self.binop(type(e.op), self.eval(e.left, fr), self.eval(e.right, fr), e)

    def binop(self, op, a, b, node):
        if op not in _BINOPS:
            _ce(node, f"operator {op.__name__}")
        if isinstance(a, Poison) or isinstance(b, Poison):
            _ce(node, (a if isinstance(a, Poison) else b).why)
        if isinstance(a, BitSet) or isinstance(b, BitSet):
            n = a.n if isinstance(a, BitSet) else b.n
            x, y = BitSet.lift(a, n), BitSet.lift(b, n)
            if op is ast.Sub:
                return BitSet(x.bv & ~y.bv, n)
            if op is ast.BitAnd:
                return BitSet(x.bv & y.bv, n)
            if op is ast.BitOr:
                return BitSet(x.bv | y.bv, n)
            if op is ast.BitXor:
                return BitSet(x.bv ^ y.bv, n)
            _ce(node, f"operator {op.__name__} on sets")
        if is_concrete(a) and is_concrete(b):
            try:
                return _BINOPS[op](a, b)
            except (TypeError, ZeroDivisionError, ValueError) as ex:
                self.raise_exc(type(ex).__name__)
                return None

        def zint(v):
            if isinstance(v, z3.ExprRef) and z3.is_int(v):
                return v
            if isinstance(v, int) and not isinstance(v, bool):
                return z3.IntVal(int(v))
            return None
        x, y = zint(a), zint(b)
        if x is not None and y is not None and op in (ast.Add, ast.Sub, ast.Mult):
            return _BINOPS[op](x, y)
        _ce(node, f"operator {op.__name__} on {type(a).__name__} and {type(b).__name__}")

    def ev_Compare(self, e, fr):
        left = self.eval(e.left, fr)
        if len(e.ops) == 1:
            return self.compare(type(e.ops[0]), left, self.eval(e.comparators[0], fr), e)
        acc = True
        pc_base, guarded, nfacts = self.pc, False, len(self.facts)
        try:
            for op, rn in zip(e.ops, e.comparators):
                esc = self.escapes
                right = self.eval(rn, fr)
                r = self.compare(type(op), left, right, e)
                if self.escapes != esc:
                    if guarded:
                        _ce(e, "possible exception inside a chained comparison")
                    pc_base = self.pc
                t = self.truth(r, e)
                acc = b_and(acc, t)
                if acc is False:
                    break
                left = right
                if t is not True:
                    self.pc = b_and(self.pc, t)
                    self.facts.append(t)
                    guarded = True
        finally:
            del self.facts[nfacts:]
        self.pc = pc_base
        return acc

    def compare(self, op, a, b, node):
        for v in (a, b):
            if isinstance(v, Poison):
                _ce(node, v.why)
        if op in (ast.In, ast.NotIn):
            r = self.contains(b, a, node)
            return r if op is ast.In else b_not(r)
        if op in (ast.Is, ast.IsNot):
            if is_concrete(a) and is_concrete(b):
                r = a is b
            elif (a is None and not is_concrete(b)) or (b is None and not is_concrete(a)):
                r = False
            elif isinstance(a, Obj) and isinstance(b, Obj):
                r = a is b
            else:
                _ce(node, "identity comparison of symbolic values")
            return r if op is ast.Is else (not r)
        if is_concrete(a) and is_concrete(b):
            try:
                return _CMPOPS[op](a, b)
            except TypeError:
                self.raise_exc('TypeError')
                return False
        if isinstance(a, BitSet) or isinstance(b, BitSet):
            n = a.n if isinstance(a, BitSet) else b.n
            x, y = BitSet.lift(a, n), BitSet.lift(b, n)
            zero = z3.BitVecVal(0, n)
            if op is ast.Eq:
                return x.bv == y.bv
            if op is ast.NotEq:
                return x.bv != y.bv
            if op is ast.LtE:
                return (x.bv & ~y.bv) == zero
            if op is ast.GtE:
                return (y.bv & ~x.bv) == zero
            if op is ast.Lt:
                return z3.And((x.bv & ~y.bv) == zero, x.bv != y.bv)
            if op is ast.Gt:
                return z3.And((y.bv & ~x.bv) == zero, x.bv != y.bv)
        if isinstance(a, Nat) or isinstance(b, Nat):
            w = a.w if isinstance(a, Nat) else b.w

            def nat(v):
                if isinstance(v, Nat):
                    return v.bv, None
                if isinstance(v, int) and not isinstance(v, bool):
                    if v < 0:
                        return None, 'neg'
                    if v >= (1 << w):
                        return None, 'big'
                    return z3.BitVecVal(v, w), None
                _ce(node, f"comparison of a length with {type(v).__name__}")
            (x, fx), (y, fy) = nat(a), nat(b)
            if fx or fy:
                # comparison with a constant outside the representable range: decided by the range alone
                if fx == 'neg' or fy == 'big':      # a < every Nat  /  b > every Nat
                    return {ast.Eq: False, ast.NotEq: True, ast.Lt: True, ast.LtE: True, ast.Gt: False, ast.GtE: False}[op]
                return {ast.Eq: False, ast.NotEq: True, ast.Lt: False, ast.LtE: False, ast.Gt: True, ast.GtE: True}[op]
            return {ast.Eq: lambda: x == y, ast.NotEq: lambda: x != y, ast.Lt: lambda: z3.ULT(x, y), ast.LtE: lambda: z3.ULE(x, y),
                    ast.Gt: lambda: z3.UGT(x, y), ast.GtE: lambda: z3.UGE(x, y)}[op]()
        if is_boolish(a) and is_boolish(b):
            if op is ast.Eq:
                return b_eq(a, b)
            if op is ast.NotEq:
                return b_not(b_eq(a, b))
        if isinstance(a, Obj) and op in (ast.Eq, ast.NotEq):
            meth = '__eq__' if op is ast.Eq else '__ne__'
            for k in a.cls.__mro__:
                if k is not object and meth in k.__dict__:
                    return self.call(BoundMethod(a, k.__dict__[meth]), [b], {}, node)
            r = a is b
            return r if op is ast.Eq else not r

        def zint(v):
            if isinstance(v, z3.ExprRef) and z3.is_int(v):
                return v
            if isinstance(v, int) and not isinstance(v, bool):
                return z3.IntVal(int(v))
            return None
        x, y = zint(a), zint(b)
        if x is not None and y is not None:
            return _CMPOPS[op](x, y)

        def zbv(v, w):
            if isinstance(v, z3.ExprRef) and z3.is_bv(v):
                return v
            if isinstance(v, int) and not isinstance(v, bool) and w and 0 <= v < (1 << w):
                return z3.BitVecVal(int(v), w)
            return None
        w = a.size() if (isinstance(a, z3.ExprRef) and z3.is_bv(a)) else (b.size() if (isinstance(b, z3.ExprRef) and z3.is_bv(b)) else 0)
        x, y = zbv(a, w), zbv(b, w)
        if x is not None and y is not None and x.size() == y.size():   # bit-vector scalars are unsigned naturals (ranks)
            return {ast.Eq: lambda: x == y, ast.NotEq: lambda: x != y, ast.Lt: lambda: z3.ULT(x, y), ast.LtE: lambda: z3.ULE(x, y),
                    ast.Gt: lambda: z3.UGT(x, y), ast.GtE: lambda: z3.UGE(x, y)}[op]()
        _ce(node, f"comparison {op.__name__} of {type(a).__name__} and {type(b).__name__}")

    def contains(self, cont, item, node):
        if isinstance(cont, SymODict):
            if not is_concrete(item):
                _ce(node, "membership of a symbolic key")
            k = cont.key(item)
            return cont.present[k] if k is not None else False
        if isinstance(cont, SymDict):
            if not is_concrete(item):
                _ce(node, "membership of a symbolic key")
            try:
                return cont.pres(item)
            except TypeError:
                self.raise_exc('TypeError')
                return False
        if isinstance(cont, SymSet):
            if not is_concrete(item):
                _ce(node, "membership of a symbolic element")
            try:
                return cont.member(item)
            except TypeError:
                self.raise_exc('TypeError')
                return False
        if isinstance(cont, View) and cont.kind == 'keys':
            return self.contains(cont.base, item, node)
        if isinstance(cont, BitSet):
            if not is_concrete(item):
                _ce(node, "membership of a symbolic element")
            i = BitSet.elem_index(item, cont.n)
            if i is None:
                return False
            return z3.Extract(i, i, cont.bv) == z3.BitVecVal(1, 1)
        if isinstance(cont, SymNameSet):
            return cont.fn(item)
        if isinstance(cont, SymOrder):
            return cont.present_fn(item)
        if is_concrete(cont) and is_concrete(item):
            try:
                return item in cont
            except TypeError:
                self.raise_exc('TypeError')
                return False
        _ce(node, f"membership in {type(cont).__name__}")

    # ---- calls -----------------------------------------------------------------------------------
    def ev_Call(self, e, fr):
        f = self.eval(e.func, fr)
        if any(isinstance(a, ast.Starred) for a in e.args) or any(k.arg is None for k in e.keywords):
            _ce(e, "call with * or ** arguments")
        args = [self.eval(a, fr) for a in e.args]
        kwargs = {k.arg: self.eval(k.value, fr) for k in e.keywords}
        return self.call(f, args, kwargs, e)

    def call(self, f, args, kwargs, node):
        for v in list(args) + list(kwargs.values()):
            if isinstance(v, Poison):
                _ce(node, v.why)
        if isinstance(f, Closure):
            return self.inline(f.fdef, f.frame, f.globs, f.qualname, args, kwargs, node)
        if isinstance(f, BoundMethod):
            fs = func_src(f.func)
            self.functions.setdefault(fs.qualname, fs.describe())
            return self.inline(fs.node, None, fs.globs, fs.qualname, [f.obj] + list(args), kwargs, node)
        if isinstance(f, ModelMethod):
            return self.model_call(f.base, f.name, args, kwargs, node)
        if f is builtins.isinstance and len(args) == 2 and not kwargs:
            o, c = args
            if not is_concrete(c):
                _ce(node, "isinstance against a symbolic class")
            if isinstance(o, Obj):
                return issubclass(o.cls, c)
            if isinstance(o, BitSet):
                return issubclass(frozenset, c)
            if isinstance(o, (SymDict, SymODict)):
                return issubclass(dict, c)
            if isinstance(o, SymSet):
                return issubclass(set, c)
            if is_boolish(o):
                return issubclass(bool, c)
            if not is_concrete(o):
                _ce(node, f"isinstance of {type(o).__name__}")
            return isinstance(o, c)
        if f is builtins.len and len(args) == 1 and not kwargs:
            o = args[0]
            if isinstance(o, BitSet):
                return Nat(popcount(o.bv, o.n))
            if isinstance(o, SymDict):
                if o.all_present():
                    return len(o.vals)
                return z3.Sum([z3.If(zb(o.pres(k)), 1, 0) for k in o.vals])
            if isinstance(o, SymSet):
                el = o.concrete_elems()
                if el is not None:
                    return len(el)
                return z3.Sum([z3.If(zb(o.member(k)), 1, 0) for k in o.mem])
            if isinstance(o, SymODict):
                return z3.Sum([z3.If(o.present[k], 1, 0) for k in o.universe])
            if not is_concrete(o):
                _ce(node, f"len of {type(o).__name__}")
            try:
                return len(o)
            except TypeError:
                self.raise_exc('TypeError')
                return 0
        if f is builtins.bool and len(args) == 1 and not kwargs:
            return self.truth(args[0], node)
        if f in (builtins.frozenset, builtins.set) and len(args) == 1 and isinstance(args[0], BitSet) and not kwargs:
            if f is builtins.set and not self.set_is_frozen:
                _ce(node, "mutable set of a symbolic set")
            return args[0]
        if f is builtins.set and not args and not kwargs:
            return SymSet()                # a mutable set: modelled (a concrete Python set could not be updated under a path condition)
        if f is builtins.set and len(args) == 1 and isinstance(args[0], SymSet) and not kwargs:
            return self.model_call(args[0], 'copy', [], {}, node)
        if f is builtins.dict and not args and not kwargs:
            return SymDict()
        if isinstance(f, RealMethod):
            return self.real_call(f, args, kwargs, node)
        if isinstance(f, type) and f in self.model_classes:
            o = Obj(f, len(self.facts))
            init = None
            for k in f.__mro__:
                if '__init__' in k.__dict__:
                    init = k.__dict__['__init__']
                    break
            for k in f.__mro__:
                if k is not object and '__new__' in k.__dict__:
                    _ce(node, f"class {f.__name__} with __new__")
            if init is object.__init__:
                if args or kwargs:
                    self.raise_exc('TypeError')
                return o
            if not isinstance(init, types.FunctionType):
                _ce(node, f"__init__ of {f.__name__} is not a plain function")
            self.call(BoundMethod(o, init), args, kwargs, node)
            return o
        conc = is_concrete(args) and all(is_concrete(v) for v in kwargs.values())
        if isinstance(f, type) and issubclass(f, BaseException):
            if not conc:
                _ce(node, "exception constructed from symbolic arguments")
            return ExcValue(f, tuple(args))
        if conc:
            try:
                safe = f in _SAFE_BUILTINS
            except TypeError:
                safe = False
            ok = safe or (isinstance(f, enum.EnumMeta)) or \
                 (isinstance(f, (types.BuiltinMethodType, types.MethodWrapperType)) and isinstance(getattr(f, '__self__', None), _IMMUTABLE)
                  and not isinstance(getattr(f, '__self__', None), types.ModuleType))
            if ok:
                try:
                    return f(*args, **kwargs)
                except (ValueError, KeyError, IndexError, TypeError, AttributeError) as ex:
                    self.raise_exc(type(ex).__name__)
                    return None
        if isinstance(f, types.BuiltinMethodType) and isinstance(getattr(f, '__self__', None), frozenset) and any(isinstance(a, BitSet) for a in args):
            n = [a for a in args if isinstance(a, BitSet)][0].n
            return self.model_call(BitSet.lift(f.__self__, n), f.__name__, args, kwargs, node)
        _ce(node, f"call of {getattr(f, '__qualname__', None) or getattr(f, '__name__', None) or type(f).__name__}"
                  f" with {'concrete' if conc else 'symbolic'} arguments is outside the supported subset")

    def real_call(self, f, args, kwargs, node):
        """helper (class) method of a proxied real class on concrete arguments: the REAL function is executed, once, in this
        process.  Allowed only (a) on an unconditional path (its side effects on real class state, e.g. a cache, happen
        exactly when the encoded code would run it), (b) with concrete arguments and a concrete result, (c) if its source -- and
        the source of every method of the class it mentions -- does not read or write an attribute the proxy shadows with a
        model value.  The history it sees is the history of THIS process: callers enumerate histories explicitly."""
        where = f"{f.proxy.real.__name__}.{f.name}"
        if not (is_concrete(args) and all(is_concrete(v) for v in kwargs.values())):
            _ce(node, f"call of the real method {where} with symbolic arguments")
        if self.pc is not True:
            _ce(node, f"call of the real method {where} under a symbolic path condition")
        seen, todo = set(), [f.name]
        while todo:
            nm_ = todo.pop()
            if nm_ in seen:
                continue
            seen.add(nm_)
            raw = None
            for k in f.proxy.real.__mro__:
                if nm_ in k.__dict__:
                    raw = k.__dict__[nm_]
                    break
            raw = getattr(raw, '__func__', raw)
            if not isinstance(raw, types.FunctionType):
                continue
            try:
                fs = func_src(raw)
            except (OSError, TypeError, CannotEncode):
                _ce(node, f"source of the real method {where} is not available")
            for n in ast.walk(fs.node):
                if isinstance(n, ast.Attribute):
                    if n.attr in f.proxy.shadow:
                        _ce(node, f"the real method {where} touches {n.attr}, which is modelled symbolically here")
                    if n.attr not in seen and callable(getattr(f.proxy.real, n.attr, None)) and \
                            isinstance(n.value, ast.Name) and n.value.id in ('cls', 'self', f.proxy.real.__name__):
                        todo.append(n.attr)
            self.functions.setdefault(fs.qualname, dict(fs.describe(), how='executed concretely (real function, concrete arguments)'))
        self.stats['real_calls'] = self.stats.get('real_calls', 0) + 1
        try:
            r = f.fn(*args, **kwargs)
        except (ValueError, KeyError, IndexError, TypeError, AttributeError, RuntimeError, AssertionError, RecursionError) as ex:
            self.raise_exc(type(ex).__name__)
            return None
        if not is_concrete(r):
            _ce(node, f"the real method {where} returned a model value")
        return r

    def model_call(self, base, name, args, kwargs, node):
        if kwargs:
            _ce(node, f"keyword arguments to {type(base).__name__}.{name}")
        if isinstance(base, BitSet):
            n = base.n
            zero = z3.BitVecVal(0, n)
            if name in ('isdisjoint', 'issubset', 'issuperset') and len(args) == 1:
                o = BitSet.lift(args[0], n)
                if name == 'isdisjoint':
                    return (base.bv & o.bv) == zero
                if name == 'issubset':
                    return (base.bv & ~o.bv) == zero
                return (o.bv & ~base.bv) == zero
            if name in ('union', 'intersection', 'difference', 'symmetric_difference'):
                r = base.bv
                for a in args:
                    o = BitSet.lift(a, n).bv
                    r = {'union': r | o, 'intersection': r & o, 'difference': r & ~o, 'symmetric_difference': r ^ o}[name]
                return BitSet(r, n)
            if name == 'copy' and not args:
                return base
            _ce(node, f"frozenset.{name}")
        if isinstance(base, SymSet):
            def elems(v):
                if isinstance(v, SymSet):
                    return [(k, v.member(k)) for k in v.mem]
                if isinstance(v, (frozenset, set, tuple, list, range)) and is_concrete(v) or type(v).__name__ == 'dict_keys':
                    return [(k, True) for k in v]
                _ce(node, f"set.{name} with {type(v).__name__}")

            def hashable(k):
                if not is_concrete(k):
                    _ce(node, f"set.{name} of a symbolic element")
                try:
                    hash(k)
                except TypeError:
                    self.raise_exc('TypeError')
                    return False
                return True
            if name in ('add', 'discard', 'remove') and len(args) == 1:
                k = args[0]
                if not hashable(k):
                    return None
                if self._iterating(base):
                    _ce(node, "set changed while iterating it")
                self.stats['heap_writes'] += 1
                if name == 'add':
                    base.mem[k] = b_or(base.member(k), self.pc)
                    return None
                if name == 'remove':
                    miss = b_and(self.pc, b_not(base.member(k)))
                    if miss is not False:
                        self.exc['KeyError'] = b_or(self.exc.get('KeyError', False), miss)
                        self.escapes += 1
                        self.pc = b_and(self.pc, base.member(k))
                if k in base.mem:
                    base.mem[k] = b_and(base.member(k), b_not(self.pc))
                return None
            if name == 'update':
                if self._iterating(base):
                    _ce(node, "set changed while iterating it")
                for a in args:
                    for k, m in elems(a):
                        if hashable(k):
                            base.mem[k] = b_or(base.member(k), b_and(self.pc, m))
                            self.stats['heap_writes'] += 1
                return None
            if name == 'copy' and not args:
                c = SymSet()
                c.mem = dict(base.mem)
                return c
            if name == 'clear' and not args:
                if self._iterating(base):
                    _ce(node, "set changed while iterating it")
                for k in list(base.mem):
                    base.mem[k] = b_and(base.member(k), b_not(self.pc))
                self.stats['heap_writes'] += 1
                return None
            if name == '__contains__' and len(args) == 1:
                return self.contains(base, args[0], node)
            _ce(node, f"set.{name}")
        if isinstance(base, (SymDict, SymODict)):
            if name in ('items', 'keys', 'values') and not args:
                return View(base, name)
            if name == 'get' and 1 <= len(args) <= 2 and is_concrete(args[0]):
                dflt = args[1] if len(args) == 2 else None
                if isinstance(base, SymDict):
                    if args[0] not in base.vals:
                        return dflt
                    r = merge(base.pres(args[0]), base.vals[args[0]], dflt)
                    if isinstance(r, Poison):
                        _ce(node, r.why)
                    return r
                k = base.key(args[0])
                if k is None:
                    return dflt
                r = merge(base.present[k], base.value[k], dflt)
                if isinstance(r, Poison):
                    _ce(node, r.why)
                return r
            _ce(node, f"dict.{name}")
        if isinstance(base, SymOrder):
            if name == 'index' and len(args) == 1:
                return base.rank_fn(args[0])
            _ce(node, f"order.{name}")
        _ce(node, f"method {name} of {type(base).__name__}")

    def inline(self, fdef, closure, globs, qualname, args, kwargs, node):
        if self.depth >= self.max_depth:
            _ce(node, f"call depth {self.max_depth} exceeded while inlining {qualname} (recursion not bounded by concrete data?)")
        a = fdef.args
        if a.vararg or a.kwarg or a.kwonlyargs or a.posonlyargs:
            _ce(node, f"{qualname}: *args/**kwargs/keyword-only/positional-only parameters")
        names = [x.arg for x in a.args]
        if len(args) > len(names):
            self.raise_exc('TypeError')
            return None
        loc = dict(zip(names, args))
        for k, v in kwargs.items():
            if k not in names or k in loc:
                self.raise_exc('TypeError')
                return None
            loc[k] = v
        ndef = len(a.defaults)
        for i, d in enumerate(a.defaults):
            nm = names[len(names) - ndef + i]
            if nm not in loc:
                if not isinstance(d, ast.Constant):
                    _ce(node, f"{qualname}: non-constant default value")
                loc[nm] = d.value
        if any(nm not in loc for nm in names):
            self.raise_exc('TypeError')
            return None
        fr = Frame(qualname, loc, closure, globs, _assigned_names(fdef) | set(names))
        pc0, esc0 = self.pc, self.escapes
        saved_loops, self.loops = self.loops, []
        self.depth += 1
        self.stats['inlined_calls'] += 1
        try:
            self.exec_block(fdef.body, fr)
        finally:
            self.depth -= 1
            self.loops = saved_loops
        if self.pc is not False:
            fr.rets.append((self.pc, None))
        if not fr.rets:
            self.pc = False
            return None
        val = fr.rets[-1][1]
        for c, v in reversed(fr.rets[:-1]):
            val = merge(c, v, val)
            if isinstance(val, Poison):
                _ce(node, f"return values of {qualname}: {val.why}")
        if self.escapes == esc0:
            self.pc = pc0
        else:
            self.pc = b_or(*[c for c, _ in fr.rets])
        return val

    # ---- entry points ----------------------------------------------------------------------------
    def run_fragment(self, stmts, locals_, globs, name='<fragment>'):
        """execute a statement list of a real function in an environment of model values"""
        fr = Frame(name, dict(locals_), None, globs)
        self.exec_block(stmts, fr)
        return fr

    def call_method(self, obj, name, args):
        return self.call(self.getattr(obj, name), list(args), {}, None)

    def construct(self, cls, args):
        return self.call(cls, list(args), {}, None)

    def eval_src(self, src, env):
        """evaluate a Python expression (e.g. a known-finding region) over model values"""
        node = ast.parse(src, mode='eval').body
        fr = Frame('<expr>', dict(env), None, {})
        return self.eval(node, fr)


# --------------------------------------------------------------------------------------------------
# solver plumbing shared by the checks
# --------------------------------------------------------------------------------------------------
def new_solver(timeout_ms=120000):
    s = z3.Solver()
    s.set('timeout', timeout_ms)
    s.set('random_seed', 0)
    return s


def cvc5_check(smt2_text, timeout_ms=120000, logic='ALL'):
    """re-discharge an SMT-LIB2 benchmark with the cvc5 python API; returns 'sat' / 'unsat' / 'unknown' / 'error: ...'"""
    try:
        import cvc5
        slv = cvc5.Solver()
        slv.setOption('tlimit-per', str(timeout_ms))
        sm = cvc5.SymbolManager(slv.getTermManager()) if hasattr(slv, 'getTermManager') else cvc5.SymbolManager(slv)
        p = cvc5.InputParser(slv, sm)
        if '(set-logic' not in smt2_text:
            smt2_text = f'(set-logic {logic})\n' + smt2_text
        p.setStringInput(cvc5.InputLanguage.SMT_LIB_2_6, smt2_text, 'ob')
        res = None
        while True:
            cmd = p.nextCommand()
            if cmd.isNull():
                break
            out = cmd.invoke(slv, sm)
            o = str(out).strip()
            if o in ('sat', 'unsat') or o.startswith('unknown'):
                res = o.split()[0]
            elif o.startswith('(error'):
                return 'error: ' + o[:200]
        return res or 'error: no check-sat result'
    except Exception as ex:  # any failure of the second solver is inconclusive, never a verdict
        return f'error: {type(ex).__name__}: {str(ex)[:200]}'


def run_real(code, payload, repo, timeout=60):
    """run `code` (a python program reading one JSON value from stdin, writing one to stdout) in a fresh interpreter
    with `repo` first on sys.path -- used to replay solver models on the real nmfu"""
    env = dict(os.environ)
    env['PYIF_REPO'] = repo
    pre = "import sys, os, json\nsys.path.insert(0, os.environ['PYIF_REPO'])\n"
    p = subprocess.run([sys.executable, '-c', pre + code], input=json.dumps(payload), capture_output=True, text=True,
                       timeout=timeout, env=env)
    if p.returncode != 0:
        raise RuntimeError(f"replay subprocess failed ({p.returncode}): {p.stderr[-800:]}")
    return json.loads(p.stdout.strip().splitlines()[-1])


# --------------------------------------------------------------------------------------------------
# self test (no /repo needed): the interpreter against CPython on small functions, < 5 s
# --------------------------------------------------------------------------------------------------
_ST_SRC = '''
def k1(a, b, d):
    r = 0
    if a:
        if b:
            raise RuntimeError("x")
        d["x"] = True
    else:
        d["y"] = not d["x"]
    while True:
        ch = False
        if d["x"] and not d["z"]:
            d["z"] = True
            ch = True
        if not ch:
            break
    return d["z"] or b

def k2(od, cell):
    def put(v):
        cell["c"] = v
    for k, v in od.items():
        if k == "skip":
            continue
        put(v)

def k3(s, t):
    u = s - t
    if len(u | t) >= 8:
        return (u & t) <= s and not (u & t)
    return s.isdisjoint(t) == (not (s & t))

def k4(od, flags, log):
    seen = set()
    cache = {}
    def visit(k):
        if k in seen:
            return
        seen.add(k)
        for o in ("p", "q", "r"):
            if o in seen:
                continue
            if o not in cache:
                cache[o] = (k == "p")
            if o in od and od[o] and o != k:
                flags[o] = False
    for k in od.keys():
        if od[k]:
            visit(k)
    log["n"] = len(seen)
    log["q_seen"] = "q" in seen
    log["q_cached"] = "q" in cache
    if "q" in cache:
        log["q_by_p"] = cache["q"]
    seen.discard("p")
    log["p_after"] = "p" in seen or not seen

def bad1(a):
    try:
        return a
    except Exception:
        return 0

def bad2(a):
    return (lambda x: x)(a)
'''


def selftest():
    import itertools
    ok = True
    mod = ast.parse(_ST_SRC)
    fd = {n.name: n for n in mod.body}
    pyns = {}
    exec(compile(mod, '<pyif selftest>', 'exec'), pyns)
    # k1: branches, raise, guarded heap writes, while with unwinding, short-circuit -- against CPython on all inputs
    A, B, X, Y, Z = z3.Bools('a b x y z')
    it = Interp(while_bound=3)
    d = SymDict({'x': X, 'y': Y, 'z': Z})
    r = it.inline(fd['k1'], None, {}, 'k1', [A, B, d], {}, None)
    if it.unwind:
        s = new_solver()
        s.add(z3.Or(*[zb(u['cond']) for u in it.unwind]))
        ok = ok and s.check() == z3.unsat
    for a, b, x, y, z in itertools.product([False, True], repeat=5):
        dd = {'x': x, 'y': y, 'z': z}
        try:
            rr, err = pyns['k1'](a, b, dd), False
        except RuntimeError:
            rr, err = None, True
        sub = [(A, z3.BoolVal(a)), (B, z3.BoolVal(b)), (X, z3.BoolVal(x)), (Y, z3.BoolVal(y)), (Z, z3.BoolVal(z))]
        ev = lambda t: z3.is_true(z3.simplify(z3.substitute(zb(t), *sub)))
        if ev(it.exc_cond('RuntimeError')) != err:
            ok = False
        if not err and (ev(r) != rr or any(ev(d.vals[k]) != dd[k] for k in dd)):
            ok = False
    # an insufficient unrolling must leave a satisfiable unwinding residue
    it0 = Interp(while_bound=1)
    it0.inline(fd['k1'], None, {}, 'k1', [A, B, SymDict({'x': X, 'y': Y, 'z': Z})], {}, None)
    s = new_solver()
    s.add(z3.Or(*[zb(u['cond']) for u in it0.unwind]) if it0.unwind else z3.BoolVal(False))
    ok = ok and s.check() == z3.sat
    # k2: symbolically ordered dict, closure writing the heap: last writer wins => order dependence must be found
    keys = ['p', 'q', 'skip']
    P = {k: z3.Bool('p_' + k) for k in keys}
    V = {k: z3.Bool('v_' + k) for k in keys}
    res = []
    for tag in '12':
        R = {k: z3.Int(f'r{tag}_{k}') for k in keys}
        it2 = Interp()
        cell = SymDict({'c': False})
        it2.inline(fd['k2'], None, {}, 'k2', [SymODict(keys, P, V, R), cell], {}, None)
        res.append((cell.vals['c'], R))
    s = new_solver()
    for _, R in res:
        s.add(z3.Distinct(*R.values()), *[z3.And(0 <= r, r < len(keys)) for r in R.values()])
    s.add(zb(res[0][0]) != zb(res[1][0]))
    ok = ok and s.check() == z3.sat
    s.add(z3.Not(z3.And(P['p'], P['q'])))      # with at most one non-skipped key the order cannot matter
    ok = ok and s.check() == z3.unsat
    # k4: a set and a dict of concrete keys with symbolic membership (add / in / not in / discard / len / truth / d[k] = v under a
    # path condition), driven by a symbolically ordered dict -- against CPython on every presence/value/order
    keys = ['p', 'q', 'r']
    P = {k: z3.Bool('P_' + k) for k in keys}
    V = {k: z3.Bool('V_' + k) for k in keys}
    R = {k: z3.Int('R_' + k) for k in keys}
    it4 = Interp()
    flags4 = SymDict({k: True for k in keys})
    log4 = SymDict({'n': 0, 'q_seen': False, 'q_cached': False, 'q_by_p': False, 'p_after': False})
    it4.inline(fd['k4'], None, {}, 'k4', [SymODict(keys, P, V, R), flags4, log4], {}, None)
    s = new_solver()
    s.add(z3.Distinct(*R.values()), *[z3.And(0 <= r, r < 3) for r in R.values()], z3.Or([zb(c) for c in it4.exc.values()] + [z3.BoolVal(False)]))
    ok = ok and s.check() == z3.unsat and not it4.unwind
    for pres in itertools.product([False, True], repeat=3):
        for vals in itertools.product([False, True], repeat=3):
            for perm in itertools.permutations(range(3)):
                od = {}
                for pos in range(3):
                    i = perm.index(pos)
                    if pres[i]:
                        od[keys[i]] = vals[i]
                fl = {k: True for k in keys}
                lg = {'n': 0, 'q_seen': False, 'q_cached': False, 'q_by_p': False, 'p_after': False}
                pyns['k4'](od, fl, lg)
                sub = [(P[k], z3.BoolVal(pres[i])) for i, k in enumerate(keys)] + [(V[k], z3.BoolVal(vals[i])) for i, k in enumerate(keys)] + \
                      [(R[k], z3.IntVal(perm[i])) for i, k in enumerate(keys)]

                def ev4(t):
                    t = z3.simplify(z3.substitute(zb(t) if isinstance(t, bool) else (z3.IntVal(t) if isinstance(t, int) else t), *sub))
                    return z3.is_true(t) if z3.is_bool(t) else t.as_long()
                if any(ev4(flags4.vals[k]) != fl[k] for k in keys) or any(ev4(log4.vals[k]) != lg[k] for k in lg):
                    if os.environ.get('VERIF_DEBUG'):
                        print('k4 mismatch', od, {k: ev4(flags4.vals[k]) for k in keys}, fl, {k: ev4(log4.vals[k]) for k in lg}, lg, file=sys.stderr)
                    ok = False
    # k3: set algebra on an 8-symbol universe against frozensets
    S, T = z3.BitVecs('s t', 8)
    it3 = Interp(universe=8)
    r3 = it3.inline(fd['k3'], None, {}, 'k3', [BitSet(S, 8), BitSet(T, 8)], {}, None)
    for sv, tv in [(0, 0), (0xff, 0), (0xf0, 0x0f), (0x3c, 0x18), (0xff, 0xff), (1, 0xfe), (0x81, 0x7e), (0xaa, 0x55), (0xab, 0x55)]:
        fs = lambda m: frozenset(i for i in range(8) if m >> i & 1)
        want = pyns['k3'](fs(sv), fs(tv))
        got = z3.is_true(z3.simplify(z3.substitute(zb(r3), (S, z3.BitVecVal(sv, 8)), (T, z3.BitVecVal(tv, 8)))))
        ok = ok and (want == got)
    # unsupported constructs are loud
    for nm in ('bad1', 'bad2'):
        try:
            Interp().inline(fd[nm], None, {}, nm, [A], {}, None)
            ok = False
        except CannotEncode:
            pass
    return bool(ok)


if __name__ == '__main__':
    import time
    t = time.time()
    print('selftest', selftest(), '%.2fs' % (time.time() - t))
