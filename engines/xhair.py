"""E1 runner: CrossHair (symbolic execution of Python with z3) on PEP-316 harnesses over the real /repo/nmfu.py.

One `crosshair check` process per condition (= per harness function, optionally per partition of its input space,
selected through environment variables the kernel reads), run in parallel under `timeout`.

Verdict mapping (DESIGN §2/E1):
  "Confirmed over all paths."                    -> 'confirmed'       (held for ALL values within the harness' stated bound)
  "<...> when calling f(args)"                   -> 'counterexample'  (then replayed concretely in a fresh interpreter)
  "Not confirmed." / "Unable to meet precondition" / timeout / crash / anything unparsable -> 'inconclusive' (never success)

Replay: the counterexample's argument text is evaluated in a fresh `python3-vt` process that imports the same kernel
file, checks the harness' `pre:` lines concretely, calls the harness function concretely (which calls the real nmfu
function) and evaluates its `post:` line. `reproduced` is true only if the precondition holds and the postcondition is
false (or the harness raises). If the kernel defines `<base>__explain(**args)` (base = harness name without the
`__excl`/`__reach`/... suffix) its json-able result is attached (expected / observed / exception type ...).
"""
import ast, json, os, re, subprocess, sys, tempfile, threading, time
from concurrent.futures import ThreadPoolExecutor
from . import chk

PY = 'python3-vt'
CONFIRMED, CEX, INCONC = 'confirmed', 'counterexample', 'inconclusive'

_LINE_RE = re.compile(r'^(?P<file>/[^:\n]+|[^:\n]+\.py):(?P<line>\d+): (?P<kind>error|info): (?P<msg>.*)$')


class Job:
    """One CrossHair condition. env: extra environment for the kernel (bounds / partition selection)."""

    def __init__(self, file, fn, timeout, env=None, tag=None, path_timeout=None, expect=None, meta=None):
        self.file = os.path.abspath(file)
        self.fn = fn
        self.timeout = float(timeout)
        self.env = {k: str(v) for k, v in (env or {}).items()}
        self.tag = tag or fn
        self.path_timeout = path_timeout
        self.expect = expect          # free for the caller (e.g. 'cex' for reachability twins)
        self.meta = meta or {}

    def key(self):
        e = ','.join(f'{k}={v}' for k, v in sorted(self.env.items()))
        return f'{os.path.basename(self.file)}:{self.fn}' + (f'[{e}]' if e else '')


class Result:
    def __init__(self, job):
        self.job = job
        self.verdict = INCONC
        self.reason = ''
        self.message = None       # crosshair's message line
        self.call_text = None     # 'f(a=1, b=[2])'
        self.returns_text = None
        self.args = None          # dict name -> value (from the replay process)
        self.replay = None        # dict: reproduced, pre_ok, ret, exc, explain
        self.wall = 0.0
        self.cpu = 0.0
        self.replay_wall = 0.0
        self.line = None
        self.raw = ''
        self.cmd = ''

    @property
    def reproduced(self):
        return bool(self.replay and self.replay.get('reproduced'))

    def witness(self):
        """json-able witness: the harness arguments plus whatever <base>__explain returned."""
        w = dict(self.args or {})
        if self.replay and isinstance(self.replay.get('explain'), dict):
            for k, v in self.replay['explain'].items():
                w.setdefault(k, v)
        return w

    def summary(self):
        s = f'{self.job.tag}: {self.verdict}'
        if self.verdict == CEX:
            s += f' {self.call_text}' + (' [replayed]' if self.reproduced else ' [NOT reproduced]')
        elif self.verdict == INCONC:
            s += f' ({self.reason})'
        return s + f' cpu={self.cpu:.1f}s wall={self.wall:.1f}s'

    def as_dict(self):
        return {'condition': self.job.key(), 'tag': self.job.tag, 'verdict': self.verdict, 'reason': self.reason,
                'counterexample': self.call_text, 'replayed': self.reproduced if self.verdict == CEX else None,
                'cpu_s': round(self.cpu, 2), 'wall_s': round(self.wall, 2), 'timeout_s': self.job.timeout}


# ---------------------------------------------------------------------------------------------
_ast_cache = {}


def find_functions(file):
    """name -> (def line, first body line, docstring) for every top-level def of the file (ast)."""
    st = os.stat(file)
    k = (file, st.st_mtime_ns, st.st_size)
    if k not in _ast_cache:
        with open(file) as f:
            tree = ast.parse(f.read(), filename=file)
        d = {}
        for node in tree.body:
            if isinstance(node, ast.FunctionDef):
                d[node.name] = (node.lineno, node.body[0].lineno, ast.get_docstring(node, clean=False) or '')
        _ast_cache[k] = d
    return _ast_cache[k]


def line_of(file, fn):
    fns = find_functions(file)
    if fn not in fns:
        raise KeyError(f'{fn} not defined at top level of {file}')
    return fns[fn][1]      # a line inside the def (first statement = the contract docstring)


def contract_of(file, fn):
    """(pre lines, post lines) of the PEP-316 docstring (single-line conditions only, as the kernels use)."""
    doc = find_functions(file)[fn][2]
    pre, post = [], []
    for ln in doc.splitlines():
        s = ln.strip()
        if s.startswith('pre:'):
            pre.append(s[4:].strip())
        elif s.startswith('post:'):
            post.append(s[5:].strip())
    return pre, post


def split_call(msg):
    """'... when calling f(a, b=[1]) (which returns X)' -> ('f(a, b=[1])', 'X')"""
    i = msg.find('when calling ')
    if i < 0:
        return None, None
    rest = msg[i + len('when calling '):]
    depth, j, instr, esc = 0, 0, None, False
    end = None
    while j < len(rest):
        c = rest[j]
        if instr:
            if esc:
                esc = False
            elif c == '\\':
                esc = True
            elif c == instr:
                instr = None
        elif c in '"\'':
            instr = c
        elif c in '([{':
            depth += 1
        elif c in ')]}':
            depth -= 1
            if depth == 0:
                end = j + 1
                break
        j += 1
    if end is None:
        return None, None
    call = rest[:end]
    tail = rest[end:].strip()
    ret = None
    m = re.match(r'^\(which returns (.*)\)$', tail, re.S)
    if m:
        ret = m.group(1)
    return call, ret


def _child_env(job):
    env = dict(os.environ)
    env.update(job.env)
    env['VERIF_REPO'] = chk.REPO
    env['NMFU_VERIF'] = '1'
    env.setdefault('PYTHONHASHSEED', '0')
    env['PYTHONDONTWRITEBYTECODE'] = '1'
    pp = env.get('PYTHONPATH', '')
    env['PYTHONPATH'] = chk.VERIF + (os.pathsep + pp if pp else '')
    return env


def _run_timed(cmd, env, hard_timeout, cwd=None):
    """run cmd under coreutils `timeout`; returns (rc, stdout, stderr, wall, cpu(user+sys incl. descendants))"""
    full = ['timeout', '-k', '5', str(int(hard_timeout)), *cmd]
    t0 = time.time()
    with tempfile.TemporaryFile() as so, tempfile.TemporaryFile() as se:
        p = subprocess.Popen(full, stdout=so, stderr=se, env=env, cwd=cwd, stdin=subprocess.DEVNULL)
        try:
            _, status, ru = os.wait4(p.pid, 0)
            rc = os.waitstatus_to_exitcode(status)
            cpu = ru.ru_utime + ru.ru_stime
        except ChildProcessError:
            rc, cpu = p.wait(), 0.0
        p.returncode = rc
        wall = time.time() - t0
        so.seek(0)
        se.seek(0)
        out = so.read().decode('utf-8', 'replace')
        err = se.read().decode('utf-8', 'replace')
    return rc, out, err, wall, cpu


def run_one(job, do_replay=True):
    r = Result(job)
    try:
        line = line_of(job.file, job.fn)
    except Exception as e:
        r.reason = f'cannot locate harness: {e}'
        return r
    r.line = line
    cmd = [PY, '-m', 'crosshair', 'check', '--report_all', '--per_condition_timeout', str(job.timeout)]
    if job.path_timeout:
        cmd += ['--per_path_timeout', str(job.path_timeout)]
    cmd.append(f'{job.file}:{line}')
    r.cmd = ' '.join(cmd)
    try:
        rc, out, err, wall, cpu = _run_timed(cmd, _child_env(job), job.timeout * 3 + 120, cwd=os.path.dirname(job.file))
    except Exception as e:   # crosshair could not even be started
        r.reason = f'runner failure: {type(e).__name__}: {e}'
        return r
    r.wall, r.cpu = wall, cpu
    r.raw = (out[-3000:] + ('\n--stderr--\n' + err[-1500:] if err.strip() else ''))
    msgs = []
    for ln in out.splitlines():
        m = _LINE_RE.match(ln.strip())
        if m and os.path.basename(m.group('file')) == os.path.basename(job.file):
            msgs.append((m.group('kind'), m.group('msg')))
    errs = [m for k, m in msgs if k == 'error']
    infos = [m for k, m in msgs if k == 'info']
    if rc in (124, 137):
        r.reason = 'killed by outer timeout'
    elif errs:
        call, ret = None, None
        for m in errs:
            call, ret = split_call(m)
            if call:
                r.message = m
                break
        if call:
            r.verdict, r.call_text, r.returns_text = CEX, call, ret
        else:
            r.reason = 'crosshair error without counterexample: ' + errs[0][:300]
    elif rc == 0 and len(infos) == 1 and infos[0].strip() == 'Confirmed over all paths.':
        r.verdict, r.message = CONFIRMED, infos[0]
    elif infos:
        r.message = infos[0]
        r.reason = infos[0].strip()
    else:
        r.reason = f'no verdict line (exit {rc}): ' + (err.strip().splitlines()[-1][:300] if err.strip() else out.strip()[-300:])
    if r.verdict == CEX and do_replay:
        t0 = time.time()
        r.replay = replay(job, r.call_text)
        r.replay_wall = time.time() - t0
        r.args = r.replay.get('args')
    return r


# ---------------------------------------------------------------------------------------------
_REPLAY_SRC = r'''
import sys, os, json, importlib.util, io, contextlib, traceback
file, fn, call_text, pre_json, post_json = sys.argv[1:6]
out = {'reproduced': False, 'pre_ok': None, 'ret': None, 'exc': None, 'explain': None, 'args': None, 'error': None}
real_stdout = sys.stdout
try:
    sys.path.insert(0, os.path.dirname(file))
    spec = importlib.util.spec_from_file_location(os.path.splitext(os.path.basename(file))[0], file)
    mod = importlib.util.module_from_spec(spec)
    sys.modules[spec.name] = mod
    sink = io.StringIO()
    with contextlib.redirect_stdout(sink):
        spec.loader.exec_module(mod)
        f = getattr(mod, fn)
        import inspect
        sig = inspect.signature(f)
        cap = {}
        def _capture(*a, **k):
            cap['b'] = sig.bind(*a, **k)
        g = dict(vars(mod)); g[fn] = _capture
        eval(compile(call_text, '<counterexample>', 'eval'), g)
        b = cap['b']; b.apply_defaults()
        args = dict(b.arguments)
        out['args'] = json.loads(json.dumps(args, default=repr))
        env = dict(vars(mod)); env.update(args)
        pre_ok = True
        for p in json.loads(pre_json):
            if not eval(p, env):
                pre_ok = False
        out['pre_ok'] = pre_ok
        try:
            ret = f(**args)
            out['ret'] = repr(ret)[:300]
            env2 = dict(env); env2['_'] = ret; env2['__return__'] = ret
            post_ok = all(bool(eval(p, env2)) for p in json.loads(post_json))
            out['reproduced'] = pre_ok and not post_ok
        except Exception as e:
            out['exc'] = type(e).__name__ + ': ' + str(e)[:300]
            out['reproduced'] = pre_ok
        base = fn.split('__')[0]
        ex = getattr(mod, base + '__explain', None)
        if ex is not None:
            try:
                out['explain'] = json.loads(json.dumps(ex(**args), default=repr))
            except Exception as e:
                out['explain'] = {'explain_error': type(e).__name__ + ': ' + str(e)[:300]}
except BaseException as e:
    out['error'] = type(e).__name__ + ': ' + str(e)[:500]
real_stdout.write('\n@@REPLAY@@' + json.dumps(out) + '\n')
'''


def replay(job, call_text, fn=None):
    """Concrete re-execution of a counterexample in a fresh interpreter."""
    fn = fn or job.fn
    try:
        pre, post = contract_of(job.file, fn)
        cmd = [PY, '-c', _REPLAY_SRC, job.file, fn, call_text, json.dumps(pre), json.dumps(post)]
        rc, out, err, wall, cpu = _run_timed(cmd, _child_env(job), 300, cwd=os.path.dirname(job.file))
        for ln in reversed(out.splitlines()):
            if ln.startswith('@@REPLAY@@'):
                d = json.loads(ln[len('@@REPLAY@@'):])
                d['cmd'] = f'{PY} -c <xhair replay> {job.file} {fn} {call_text!r}'
                return d
        return {'reproduced': False, 'error': f'replay process gave no result (exit {rc}): {err[-400:]}'}
    except Exception as e:
        return {'reproduced': False, 'error': f'{type(e).__name__}: {e}'}


def call_concrete(file, fn, args, env=None):
    """call kernel function `fn(**args)` concretely in a fresh interpreter (used to re-check listed witnesses)."""
    j = Job(file, fn, 1, env=env)
    text = fn + '(' + ', '.join(f'{k}={v!r}' for k, v in args.items()) + ')'
    return replay(j, text)


# ---------------------------------------------------------------------------------------------
def run_jobs(jobs, nproc=None, do_replay=True, progress=None):
    """Run all jobs, up to nproc CrossHair processes at a time (longest timeouts first). Order of results = order of jobs."""
    nproc = nproc or chk.ncpu()
    res = [None] * len(jobs)
    order = sorted(range(len(jobs)), key=lambda i: -jobs[i].timeout)
    lock = threading.Lock()

    def work(i):
        try:
            r = run_one(jobs[i], do_replay)
        except Exception as e:      # robustness: anything unexpected = inconclusive
            r = Result(jobs[i])
            r.reason = f'runner exception {type(e).__name__}: {e}'
        res[i] = r
        if progress:
            with lock:
                progress(r)
        return r
    with ThreadPoolExecutor(max_workers=max(1, nproc)) as ex:
        list(ex.map(work, order))
    return res


def totals(results):
    return {'conditions': len(results), 'confirmed': sum(r.verdict == CONFIRMED for r in results),
            'counterexample': sum(r.verdict == CEX for r in results), 'inconclusive': sum(r.verdict == INCONC for r in results),
            'cpu_s': round(sum(r.cpu for r in results), 1), 'max_wall_s': round(max([r.wall for r in results] or [0]), 1)}


def version():
    try:
        out = subprocess.run([PY, '-c', 'import crosshair, z3; print(crosshair.__version__, z3.get_version_string())'],
                             capture_output=True, text=True, timeout=60).stdout.strip().splitlines()
        return out[-1] if out else '?'
    except Exception:
        return '?'


# ---------------------------------------------------------------------------------------------
# Obligation driver shared by checks/c15.py, c18.py, c03_kernels.py, c19_argv.py
#
# A kernel module exposes HARNESSES: obligation name -> dict(fn=..., reach=[twins], excl=<fn with all known regions
# excluded>, regions=[(<fn restricted to the region of one known finding>, <finding id>), ...]).
# A check passes, per obligation, a list of bound configurations: dict(env={...}, parts=<number of case-split parts>,
# timeout=<CPU s per condition>, label='...').
#   * no known regions:  `fn` is checked on every part of every configuration.
#   * with known regions: every region harness is run (un-split, first configuration) - while the defect exists it yields the
#     finding's witness, which is replayed and handed to Run.violation (KNOWN-FINDING if listed, VIOLATION otherwise) -
#     and `excl` (pre: ... and not region) is checked on every part of every configuration, so that any OTHER violation
#     of the same obligation is still found.  regions + excl together cover the whole domain of `fn`.
#   * every reachability twin is run under each configuration (part 0) and must yield a replayed counterexample.
def plan_jobs(kernel_file, harnesses, configs):
    jobs = []
    for ob, entry in harnesses.items():
        for ci, cfg in enumerate(configs.get(ob, [])):
            env = dict(cfg.get('env', {}))
            parts = int(cfg.get('parts', 1))
            t = cfg.get('timeout', 120)
            label = cfg.get('label') or ','.join(f'{k}={v}' for k, v in sorted(env.items())) or 'default'
            # the kernel's excl/region harnesses are tied to findings listed as OPEN in known_findings.json; when none of this
            # obligation's findings is open (all fixed), the unrestricted harness is the obligation again
            open_ids = {k['id'] for k in chk.load_known() if k.get('status', 'open') == 'open'}
            any_open = any(fid in open_ids for _, fid in entry.get('regions', []))
            main_fn = (entry.get('excl') if any_open else None) or entry['fn']
            role = 'excl' if (entry.get('excl') and any_open) else 'main'
            for p in range(parts):
                e = dict(env)
                if parts > 1:
                    e.update({'XH_NP': parts, 'XH_P': p})
                jobs.append(Job(kernel_file, main_fn, t, env=e, tag=f'{ob} [{label}] {role} part {p + 1}/{parts}',
                                meta={'ob': ob, 'role': role, 'cfg': label, 'part': p, 'parts': parts}))
            for tw in entry.get('reach', []):
                jobs.append(Job(kernel_file, tw, min(t, 300), env=dict(env), tag=f'{ob} [{label}] twin {tw}',
                                meta={'ob': ob, 'role': 'twin', 'cfg': label}))
            if ci == 0 and any_open:
                for fn, fid in entry.get('regions', []):
                    renv = dict(cfg.get('region_env', env))
                    jobs.append(Job(kernel_file, fn, t, env=renv, tag=f'{ob} [{label}] region {fid}',
                                    meta={'ob': ob, 'role': 'region', 'cfg': label, 'finding': fid}))
    return jobs


def _contract(r):
    pre, post = contract_of(r.job.file, r.job.fn)
    return {'harness': r.job.fn, 'pre': pre, 'post': post, 'env': r.job.env}


def _what(r):
    ex = (r.replay or {}).get('explain') or {}
    bits = [f'{k}={ex[k]!r}' for k in ('token', 'decl', 'argv', 'emitted', 'expected', 'observed', 'expected_bytes', 'literal_denotes',
                                       'expected_length', 'emitted_length', 'exc', 'outcome', 'capacity') if k in ex and ex[k] is not None]
    return f'{r.call_text}: ' + '; '.join(bits)[:500]


def absorb(run, results, kernel_file):
    """Feed CrossHair results into a chk.Run: obligations, inconclusives, (known) violations, harness errors, evidence."""
    rel = os.path.relpath(kernel_file, chk.VERIF)
    conds = run.cov.setdefault('conditions', [])
    reported_new = set()
    for r in results:
        m = r.job.meta
        ob, role = m.get('ob', r.job.tag), m.get('role', 'main')
        run.queries += 1
        run.solver_time += r.cpu
        run.cov['crosshair_cpu_s'] = round(run.cov.get('crosshair_cpu_s', 0.0) + r.cpu, 1)
        d = r.as_dict()
        d['role'] = role
        conds.append(d)
        key = r.job.key()
        if role == 'twin':
            # vacuity guard, not an obligation of the property
            if r.verdict == CEX and r.reproduced:
                run.cov['twins_reached'] = run.cov.get('twins_reached', 0) + 1
            elif r.verdict == CEX:
                run.harness_error(f'reachability twin {r.job.tag}: counterexample {r.call_text} did not replay: {r.replay}')
            else:
                run.harness_error(f'reachability twin {r.job.tag} gave no counterexample ({r.verdict}: {r.reason}) - '
                                  f'precondition may be vacuous or the bound unreachable')
            continue
        if r.verdict == CONFIRMED:
            run.ob(key)
            if role == 'region':
                run.cov.setdefault('regions_without_counterexample', []).append(
                    f"{ob}: region of {m.get('finding')} confirmed clean under {r.job.env} (finding fixed or not reachable at this bound)")
            run.sample({'obligation': ob, 'condition': key, 'contract': _contract(r), 'verdict': 'Confirmed over all paths',
                        'cpu_s': round(r.cpu, 1)})
        elif r.verdict == INCONC:
            run.inconc(f'{r.job.tag}: {r.reason}')
        else:
            run.ob(key, discharged=False)
            if not r.reproduced:
                run.harness_error(f'{r.job.tag}: counterexample {r.call_text} did NOT reproduce concretely ({r.replay}); nothing is claimed')
                continue
            w = r.witness()
            w['_kernel'], w['_harness'], w['_env'] = rel, r.job.fn, r.job.env
            if role == 'region':
                k = run.match_known(ob, w)
                if k is not None and k['id'] != m.get('finding'):
                    run.harness_error(f"{r.job.tag}: witness {r.call_text} lies in the kernel's region for {m.get('finding')} but "
                                      f"known_findings.json attributes it to {k['id']} (regions out of sync)")
                    continue
            if role != 'region' and run.match_known(ob, w) is None and ob in reported_new:
                # a further part of the same case split hit the same unlisted obligation: one VIOLATION line per obligation
                run.cov.setdefault('further_counterexamples', []).append({'obligation': ob, 'condition': key, 'witness': _what(r)[:300]})
                continue
            res = run.violation(ob, w, _what(r))
            if res == 'new':
                reported_new.add(ob)
            run.sample({'obligation': ob, 'condition': key, 'contract': _contract(r),
                        'verdict': 'counterexample (replayed): ' + _what(r)[:300], 'classified': res, 'cpu_s': round(r.cpu, 1)}, limit=40)


def replay_file(path):
    """./check <id> --replay <path>: re-run a stored witness concretely against the current tree. exit 1 if it still fails."""
    with open(path) as f:
        d = json.load(f)
    w = d['witness']
    kernel = os.path.join(chk.VERIF, w['_kernel'])
    fn = w['_harness']
    names = _arg_names(kernel, fn)
    args = {k: w[k] for k in names}
    res = call_concrete(kernel, fn, args, env=w.get('_env') or {})
    print(json.dumps({'obligation': d.get('obligation'), 'harness': fn, 'args': args, 'replay': res}, indent=1, default=str))
    if res.get('reproduced'):
        print(f"VIOLATION property={d.get('property')} replay={path}")
        return chk.EXIT_VIOLATION
    if res.get('error') or res.get('pre_ok') is False:
        return chk.EXIT_HARNESS
    return chk.EXIT_OK


def _arg_names(file, fn):
    with open(file) as f:
        tree = ast.parse(f.read())
    for node in tree.body:
        if isinstance(node, ast.FunctionDef) and node.name == fn:
            return [a.arg for a in node.args.args]
    raise KeyError(fn)


# ---------------------------------------------------------------------------------------------
_SELFTEST = r'''
from typing import List
def st_confirmed(x: int) -> bool:
    """
    pre: 0 <= x < 300
    post: _
    """
    return int(hex(x)[2:], 16) == x
def st_cex(x: int) -> bool:
    """
    pre: 0 <= x < 300
    post: _
    """
    return int(hex(x)[2:], 16) != 171
def st_vacuous(x: int) -> bool:
    """
    pre: x < 0 and x > 0
    post: _
    """
    return False
def st_crash(x: int) -> bool:
    """
    pre: undefined_name(x)
    post: _
    """
    return True
'''


def selftest():
    """realised values (hex/int(str,16)) are still exhausted soundly; verdict mapping of the four outcome classes"""
    d = tempfile.mkdtemp(prefix='xhair-st-')
    try:
        f = os.path.join(d, 'xhair_st.py')
        with open(f, 'w') as fh:
            fh.write(_SELFTEST)
        rs = run_jobs([Job(f, 'st_confirmed', 120), Job(f, 'st_cex', 120), Job(f, 'st_vacuous', 30), Job(f, 'st_crash', 30)])
        ok = (rs[0].verdict == CONFIRMED and rs[1].verdict == CEX and rs[1].reproduced and rs[1].args == {'x': 171}
              and rs[2].verdict == INCONC and rs[3].verdict == INCONC)
        if not ok:
            for r in rs:
                print('xhair selftest:', r.summary(), r.raw[-300:], file=sys.stderr)
        return ok
    finally:
        import shutil
        shutil.rmtree(d, ignore_errors=True)


if __name__ == '__main__':
    # python3-vt -m engines.xhair file.py fn [timeout] [K=V ...]
    a = sys.argv[1:]
    if a and a[0] == 'selftest':
        print('selftest', selftest())
        sys.exit(0)
    env = dict(x.split('=', 1) for x in a[3:])
    r = run_one(Job(a[0], a[1], float(a[2]) if len(a) > 2 else 60, env=env))
    print(r.summary())
    if r.replay:
        print(json.dumps(r.replay, indent=1))
    if r.verdict == INCONC:
        print(r.raw)
