"""absm: abstract machine over the real nmfu DFA objects (nm.Snap of DfaCompileCtx.dfa), over z3 terms.

Semantics written from the meaning of the data structure (DFState.__getitem__, DFA.trace/dfs, --dump dfa, docs/user-ref):
 * dispatch of a symbol (a byte, or End) at a state: the first listed transition naming the symbol, else the Else
   transition; a condition point takes its first transition whose condition holds;
 * the transition's actions run in list order; an append that does not fit stores nothing, drops the remaining actions and
   re-dispatches the same symbol at the action's end_target; break runs the loop's after-break actions, moves to the
   loop's end state and drops the remaining actions; finish / custom finish end the parse with that code; yield returns
   its code (the parse continues from the transition's target on re-invocation);
 * a fall-through transition re-dispatches the same symbol at its target, any other transition consumes it;
 * resting on an accepting state whose transitions are all error handling is DONE at once (unless strict-done);
   an accepting state with no applicable transition is DONE; the generic fail state is FAIL.
All data-dependent decisions go through symx.Ctx.br, so the same code runs symbolically and (with constants) concretely.
"""
import z3
from . import cexpr as C
from .cexpr import CV, CT
from . import nm
from .nm import N, End, Else

OST = N.OutputStorageType


class Unsupported(Exception):
    pass


BV64 = z3.BitVecSort(64)
BV8 = z3.BitVecSort(8)


def idx64(v):
    """zero-extend an unsigned counter / python int to a 64-bit index"""
    if isinstance(v, int):
        return z3.BitVecVal(v, 64)
    return z3.ZeroExt(64 - v.size(), v) if v.size() < 64 else v


class StrVal:
    """string / raw buffer: length counter + byte array (z3 Array BV64 -> BV8; only [0,size) is meaningful)"""
    __slots__ = ('len', 'arr', 'alloc')

    def __init__(self, ln, arr, alloc=True):
        self.len, self.arr, self.alloc = ln, arr, alloc     # alloc: is the (on-demand) buffer allocated (python bool / z3 Bool)

    def copy(self):
        return StrVal(self.len, self.arr, self.alloc)

    def byte(self, i):
        return z3.Select(self.arr, idx64(i))


class Layout:
    """typing of the outputs of one program (from the OutputStorage declarations, not from codegen)"""

    def __init__(self, spec, packed_enums=False, raw_sizes=None):
        self.spec = dict(spec)
        self.ct = {}
        self.cnt = {}
        self.size = {}
        self.cap = {}
        for n, o in self.spec.items():
            if o.type == OST.INT:
                try:
                    self.ct[n] = C.int_ctype(o.int_width, o.int_signed)
                except ValueError as e:
                    raise Unsupported(str(e))
            elif o.type == OST.BOOL:
                self.ct[n] = C.BOOLT
            elif o.type == OST.ENUM:
                self.ct[n] = C.U8 if packed_enums and len(o.enum_values) < 256 else C.UINT
            elif o.type == OST.STR:
                self.size[n] = o.str_size
                self.cap[n] = o.str_size - 1 if o.str_null else o.str_size
                self.cnt[n] = C.counter_ctype(o.str_size)
                if self.cap[n] < 0 or o.str_size > 4096:
                    raise Unsupported('string size %r' % o.str_size)
            elif o.type == OST.RAW:
                sz = {'int8_t': 1, 'uint8_t': 1, 'int16_t': 2, 'uint16_t': 2, 'int32_t': 4, 'uint32_t': 4, 'int64_t': 8,
                      'uint64_t': 8, 'float': 4, 'double': 8}.get(o.raw_underlying)
                if raw_sizes and n in raw_sizes:
                    sz = raw_sizes[n]
                if sz is None:
                    raise Unsupported('raw type ' + o.raw_underlying)
                self.size[n] = sz
                self.cap[n] = sz
                self.cnt[n] = C.counter_ctype(sz)

    def symbolic(self, prefix='d_'):
        """fully symbolic data; returns (Data, invariant constraints)"""
        d = Data(self)
        inv = []
        for n, o in self.spec.items():
            if n in self.ct:
                v = z3.BitVec(prefix + n, self.ct[n].w)
                d.vals[n] = CV(v, self.ct[n])
                if o.type == OST.BOOL:
                    inv.append(z3.ULE(v, 1))
                elif o.type == OST.ENUM:
                    inv.append(z3.ULT(v, len(o.enum_values)))
            else:
                ln = z3.BitVec(prefix + n + '_len', self.cnt[n].w)
                d.strs[n] = StrVal(ln, z3.Array(prefix + n + '_arr', BV64, BV8))
                inv.append(z3.ULE(ln, self.cap[n]))
        return d, inv

    def initial(self, start_actions=(), symbolic_uninit=False, ondemand=False):
        """data after start(): defaults (concrete); outputs without default are indeterminate (None) or named unknowns"""
        d = Data(self)
        for n, o in self.spec.items():
            if n in self.ct:
                if o.default_value is not None:
                    ev = Eval(d, None, C.UB())
                    d.vals[n] = C.convert(ev.ev(o.default_value), self.ct[n]) if o.type != OST.BOOL else \
                        CV(z3.If(C.to_bool(ev.ev(o.default_value)), z3.BitVecVal(1, 8), z3.BitVecVal(0, 8)), C.BOOLT)
                elif symbolic_uninit:
                    d.vals[n] = CV(z3.BitVec('uninit_' + n, self.ct[n].w), self.ct[n])
                else:
                    d.vals[n] = None  # indeterminate until assigned
            else:
                dv = o.default_value
                arr = z3.Array('uninit_' + n, BV64, BV8)
                ln = 0
                if dv is not None:
                    raw = dv.encode('latin-1') if isinstance(dv, str) else bytes(dv)
                    ln = len(raw)
                    for i, b in enumerate(raw[:self.size[n]]):
                        arr = z3.Store(arr, idx64(i), z3.BitVecVal(b, 8))
                    if o.type == OST.STR and o.str_null and ln < self.size[n]:
                        arr = z3.Store(arr, idx64(ln), z3.BitVecVal(0, 8))
                d.strs[n] = StrVal(z3.BitVecVal(ln, self.cnt[n].w), arr, alloc=(dv is not None) if ondemand else True)
        return d


class Data:
    def __init__(self, layout):
        self.layout = layout
        self.vals = {}
        self.strs = {}

    def copy(self):
        d = Data(self.layout)
        d.vals = dict(self.vals)
        d.strs = {k: v.copy() for k, v in self.strs.items()}
        return d

    def snapshot(self):
        return ({k: v for k, v in self.vals.items()}, {k: (v.len, v.arr) for k, v in self.strs.items()})


def member(b, on):
    """z3 condition: byte b (BV8) is one of the str members of on (list of 1-char strings / End / Else)"""
    vals = sorted({ord(x) for x in on if isinstance(x, str)})
    if not vals:
        return z3.BoolVal(False)
    if len(vals) == 256:
        return z3.BoolVal(True)
    # group into ranges
    rs = []
    lo = prev = vals[0]
    for v in vals[1:]:
        if v == prev + 1:
            prev = v
            continue
        rs.append((lo, prev))
        lo = prev = v
    rs.append((lo, prev))
    cs = []
    for lo, hi in rs:
        if lo == hi:
            cs.append(b == lo)
        else:
            cs.append(z3.And(z3.UGE(b, lo), z3.ULE(b, hi)))
    return z3.Or(*cs) if len(cs) > 1 else cs[0]


class Eval:
    """C-semantics evaluation of nmfu IntegerExpr objects over abstract data"""

    def __init__(self, data, last, ub, unsafe_index=False, str_signed_char=False, null_strs=()):
        self.d, self.last, self.ub = data, last, ub
        self.unsafe = unsafe_index
        self.str_signed_char = str_signed_char
        self.null_strs = null_strs

    def ev(self, e):
        T = type(e).__name__
        L = self.d.layout
        if T == 'LiteralIntegerExpr':
            if e.typ == OST.ENUM:
                return C.lit(e.model_ref.enum_values.index(e.value), C.INT)
            if e.typ == OST.BOOL:
                return C.lit(1 if e.value else 0, C.INT)
            if e.typ == OST.INT:
                n = int(e.value)
                t = C.literal_type(abs(n))
                if t is None:
                    raise Unsupported('literal out of range')
                return C.lit(n, t) if n >= 0 else C.neg(C.lit(-n, t), self.ub)
            raise Unsupported('literal type %s' % e.typ)
        if T == 'OutIntegerExpr':
            v = self.d.vals[e.ref.name]
            if v is None:
                raise Unsupported('read of uninitialised output ' + e.ref.name)
            return v
        if T == 'StringLengthIntegerExpr':
            n = e.ref.name
            return CV(self.d.strs[n].len, L.cnt[n])
        if T == 'StringRefIntegerExpr':
            n = e.ref.name
            idx = self.ev(e.index)
            s = self.d.strs[n]
            size = L.size[n]
            # byte at position idx (documented: runtime range check, out of range reads 0)
            elt = C.I8 if (self.str_signed_char and e.ref.type == OST.STR) else C.U8
            i64 = C.convert(C.promote(idx), C.LONG).v
            inrange = z3.And(i64 >= 0, i64 < size)
            r = z3.If(inrange, z3.Select(s.arr, i64), z3.BitVecVal(0, 8))
            # bytes beyond the current length (beyond the terminator for terminated strings) are unspecified content:
            # such reads are excluded from comparisons like undefined arithmetic
            l64 = idx64(s.len)
            term = e.ref.type == OST.STR and e.ref.str_null
            self.ub.add(z3.And(inrange, (i64 > l64) if term else (i64 >= l64)))
            if self.unsafe:
                self.ub.add(z3.Not(inrange))
                if n in self.null_strs:
                    self.ub.add(z3.BoolVal(True))   # unchecked read through a NULL on-demand buffer: outside "in-range only"
            return C.promote(CV(r, elt))
        if T == 'LastCharIntegerExpr':
            if self.last is None:
                raise Unsupported('$last without a byte')
            return self.last
        if T == 'SumIntegerExpr':
            t = self.ev(e.children[0])
            for c, n in zip(e.children[1:], e.negate[1:]):
                t = C.arith('-' if n else '+', t, self.ev(c), self.ub)
            return t
        if T == 'MulIntegerExpr':
            t = self.ev(e.children[0])
            for c, o in zip(e.children[1:], e.divide[1:]):
                t = C.arith(o.value, t, self.ev(c), self.ub)
            return t
        if T == 'CompareIntegerExpr':
            return C.compare(e.op.value, self.ev(e.left), self.ev(e.right))
        if T == 'BitShiftIntegerExpr':
            return C.shift(e.towards_left, self.ev(e.left), self.ev(e.right), self.ub)
        if T == 'BitwiseIntegerExpr':
            t = self.ev(e.children[0])
            for c in e.children[1:]:
                t = C.arith(e.op.value, t, self.ev(c), self.ub)
            return t
        if T in ('DisjunctionIntegerExpr', 'ConjunctionIntegerExpr'):
            isor = T == 'DisjunctionIntegerExpr'
            acc = C.to_bool(self.ev(e.children[0]))
            guards = 0
            for c in e.children[1:]:
                self.ub.guard.append(z3.Not(acc) if isor else acc)
                guards += 1
                v = C.to_bool(self.ev(c))
                acc = z3.Or(acc, v) if isor else z3.And(acc, v)
            for _ in range(guards):
                self.ub.guard.pop()
            return C.from_bool(acc)
        raise Unsupported('expr ' + T)


class Res:
    """result of dispatching one symbol"""
    __slots__ = ('code', 'state', 'consumed', 'data', 'events', 'ub', 'moves')

    def __init__(self, code, state, consumed, data, events, ub, moves):
        self.code, self.state, self.consumed, self.data, self.events, self.ub, self.moves = code, state, consumed, data, events, ub, moves

    def __repr__(self):
        return f"<Res {self.code} consumed={self.consumed} events={len(self.events)}>"


class Unwind(Exception):
    pass


class Machine:
    def __init__(self, snap, layout, strict_done=False, unsafe_index=False, str_signed_char=False, max_moves=None,
                 program_codes=None, free_on_delete=False):
        self.m = snap
        self.layout = layout
        self.strict = strict_done
        self.unsafe = unsafe_index
        self.str_signed_char = str_signed_char
        self.max_moves = max_moves or (len(snap.states) + 2)
        self.null_strs = ()
        self.free_on_delete = free_on_delete

    # ---- actions ------------------------------------------------------------------------
    def cond(self, ctx, c, data, last, ub):
        if isinstance(c, N.ConstantCondition):
            return bool(c.value)
        ev = Eval(data, last, ub, self.unsafe, self.str_signed_char, self.null_strs)
        return ctx.br(C.to_bool(ev.ev(c.expr)))

    def act(self, ctx, a, data, last, ub, events):
        """returns None | ('goto', state) | ('skip', state) | ('ret', code)"""
        L = self.layout
        if isinstance(a, N.CustomFinishAction):
            return ('ret', 'FINISH_' + a.result_code)
        if isinstance(a, N.FinishAction):
            return ('ret', 'DONE')
        if isinstance(a, N.CustomYieldAction):
            return ('ret', 'YIELD_' + a.result_code)
        if isinstance(a, N.CallHook):
            events.append(('hook', a.name, last.v if last is not None and last.t.w == 8 else (z3.BitVecVal(255, 8) if last is not None else z3.BitVecVal(0, 8)), data.snapshot()))
            return None
        if isinstance(a, N.SetTo):
            n = a.into_storage.name
            ev = Eval(data, last, ub, self.unsafe, self.str_signed_char, self.null_strs)
            v = ev.ev(a.value_expr)
            if a.into_storage.type == OST.BOOL:
                data.vals[n] = CV(z3.If(C.to_bool(v), z3.BitVecVal(1, 8), z3.BitVecVal(0, 8)), C.BOOLT)
            else:
                data.vals[n] = C.convert(v, L.ct[n])
            return None
        if isinstance(a, N.SetToStr):
            n = a.into_storage.name
            raw = a.value_expr.encode('latin-1') if isinstance(a.value_expr, str) else bytes(a.value_expr)
            s = data.strs[n].copy()
            if len(raw) > L.cap[n]:
                raise Unsupported('constant longer than capacity (must be a compile-time error)')
            for i, b in enumerate(raw):
                s.arr = z3.Store(s.arr, idx64(i), z3.BitVecVal(b, 8))
            if a.into_storage.str_null:
                s.arr = z3.Store(s.arr, idx64(len(raw)), z3.BitVecVal(0, 8))
            s.len = z3.BitVecVal(len(raw), L.cnt[n].w)
            s.alloc = True
            data.strs[n] = s
            return None
        if isinstance(a, N.DeleteBuf):
            n = a.into_storage.name
            s = data.strs[n].copy()
            s.len = z3.BitVecVal(0, L.cnt[n].w)
            if a.into_storage.type == OST.STR and a.into_storage.str_null:
                s.arr = z3.Store(s.arr, idx64(0), z3.BitVecVal(0, 8))   # an empty terminated string is "" (NUL at its length)
            if self.free_on_delete and a.into_storage.type == OST.STR:
                s.alloc = False
            data.strs[n] = s
            return None
        if isinstance(a, (N.AppendTo, N.AppendCharTo)):
            n = a.into_storage.name
            s = data.strs[n]
            cap = L.cap[n]
            if s.alloc is not True:
                s = s.copy(); s.alloc = True; data.strs[n] = s     # the on-demand buffer is allocated before the capacity test
            if ctx.br(z3.UGE(s.len, cap)):
                return ('goto', a.end_target)
            if isinstance(a, N.AppendTo):
                if last is None:
                    raise Unsupported('append without byte')
                v = C.convert(last, C.U8).v
            else:
                ev = Eval(data, last, ub, self.unsafe, self.str_signed_char, self.null_strs)
                v = C.convert(ev.ev(a.append_value), C.U8).v
            s = s.copy()
            term = a.into_storage.type == OST.STR and a.into_storage.str_null
            s.arr = z3.Store(s.arr, idx64(s.len), v)
            if term:
                s.arr = z3.Store(s.arr, idx64(s.len) + 1, z3.BitVecVal(0, 8))
            s.len = z3.simplify(s.len + 1)
            data.strs[n] = s
            return None
        if isinstance(a, N.ConditionalAction):
            for c in a.conditions:
                if self.cond(ctx, c, data, last, ub):
                    for sub in a.sub_actions[c]:
                        r = self.act(ctx, sub, data, last, ub, events)
                        if r:
                            return r
                    return None
            return None
        if isinstance(a, N.BreakAction):
            for sub in a.replacement_actions():
                r = self.act(ctx, sub, data, last, ub, events)
                if r:
                    return r
            return ('skip', a.refers_to.end_state)
        raise Unsupported('action ' + type(a).__name__)

    # ---- dispatch -----------------------------------------------------------------------
    def select(self, ctx, st, sym, data, last, ub):
        trs = self.m.tr[st]
        if self.m.is_cond(st):
            for t in trs:
                if self.cond(ctx, t.cond, data, last, ub):
                    return t
            return 'nocond'
        if sym is End:
            for t in trs:
                if End in t.on:
                    return t
        else:
            for t in trs:
                c = member(sym, t.on)
                if ctx.br(c):
                    return t
        for t in trs:
            if Else in t.on:
                return t
        return None

    def immediate_done(self, st):
        return (not self.strict) and st in self.m.accept and st in self.m.tr and all(t.eh for t in self.m.tr[st])

    def end_result(self, st, data, events, ub, moves):
        """input ended on state st: DONE iff accepting; otherwise FAIL, and the parser stays failed (it rests on the fail state)"""
        if st in self.m.accept:
            return Res('DONE', st, False, data, events, ub, moves)
        fail = self.m.fail
        return Res('FAIL', fail if (fail is not None and fail in self.m.tr) else DEAD, False, data, events, ub, moves)

    def dispatch(self, ctx, st, sym, data, events=None, in_end=False):
        """dispatch one symbol (z3 BV8 byte or End) from state st with Data `data` (copied). Returns Res."""
        data = data.copy()
        events = [] if events is None else events
        ub = C.UB()
        last = CV(sym, C.U8) if sym is not End else C.lit(255, C.INT)
        moves = 0
        while True:
            moves += 1
            if moves > self.max_moves:
                return Res('UNWIND', st, False, data, events, ub, moves)
            if st is self.m.fail or st is DEAD:
                return Res('FAIL', st, False, data, events, ub, moves)
            if st not in self.m.tr:
                return Res('TERM', st, False, data, events, ub, moves)
            t = self.select(ctx, st, sym, data, last, ub)
            if t == 'nocond':
                return Res('FAIL', st, False, data, events, ub, moves)   # "fallback for invalid state"
            if t is None:
                if sym is End:
                    return self.end_result(st, data, events, ub, moves)
                return Res('DONE' if st in self.m.accept else 'STUCK', st, False, data, events, ub, moves)
            nst = t.target
            consumes = not t.fall
            redirect = False
            for a in t.actions:
                r = self.act(ctx, a, data, last, ub, events)
                if r is None:
                    continue
                if r[0] == 'ret':
                    code = r[1]
                    if code.startswith('YIELD_'):
                        return Res(code, nst, consumes and sym is not End, data, events, ub, moves)
                    return Res(code, nst, consumes and sym is not End, data, events, ub, moves)
                if r[0] == 'goto':
                    nst = r[1]
                    redirect = True
                    break
                if r[0] == 'skip':
                    nst = r[1]
                    break
            st = nst
            if redirect:
                continue  # same symbol at the out-of-space target
            if not consumes:
                if st not in self.m.tr and st is not self.m.fail:
                    return Res('TERM', st, False, data, events, ub, moves)
                continue
            if sym is End:
                # an End transition was taken: the parse is over; DONE iff resting on an accepting state
                return self.end_result(st, data, events, ub, moves)
            if self.immediate_done(st):
                return Res('DONE', st, True, data, events, ub, moves)
            return Res('OK', st, True, data, events, ub, moves)


# ------------------------------------------------------------------------------------------------------------------
# eager normal form (DESIGN §2/E2): after a symbol is consumed, transitions out of states whose transition list is exactly
# one fall-through Else (dummy / proxy states, with or without actions) are taken at once, until the machine rests on a state
# that looks at input or data. Used on both sides of machine-vs-machine comparisons (C05, C13, C20) and by C01.
class _Dead:
    """resting place after end() returned FAIL in a machine without a fail state: no state of the machine; the emitted C stores the index
    one past the last state, which feed and end answer with FAIL"""
    def __repr__(self):
        return 'DEAD'


DEAD = _Dead()


class ERes:
    __slots__ = ('code', 'state', 'consumed', 'data', 'events', 'ub')

    def __init__(self, code, state, consumed, data, events, ub):
        self.code, self.state, self.consumed, self.data, self.events, self.ub = code, state, consumed, data, events, ub


def is_pending_state(snap, st):
    """input-independent pending work: a lone fall-through Else (dummy / proxy state) or a condition point (looks at data only)"""
    trs = snap.tr.get(st)
    if trs is None or st is snap.fail:
        return False
    if snap.is_cond(st):
        return True
    if not trs or not all(t.fall for t in trs) or not any(Else in t.on for t in trs):
        return False
    # every symbol (the Else transition covers the rest, End included) falls through to the same target with the same actions
    t0 = trs[0]
    return all(t.target is t0.target and len(t.actions) == len(t0.actions) and all(a is b for a, b in zip(t.actions, t0.actions)) for t in trs)


def eflush(machine, ctx, st, data, events, last_sym, ubs, limit=None):
    """take input-independent pending transitions; returns (code or None, st, data)"""
    snap = machine.m
    n = 0
    limit = limit or (len(snap.states) + 2)
    while is_pending_state(snap, st):
        n += 1
        if n > limit:
            return 'UNWIND', st, data
        last = CV(last_sym, C.U8) if (last_sym is not None and last_sym is not End) else (C.lit(255, C.INT) if last_sym is End else None)
        data = data.copy()
        ub = C.UB()
        if snap.is_cond(st):
            t = None
            for cand in snap.tr[st]:
                if machine.cond(ctx, cand.cond, data, last, ub):
                    t = cand
                    break
            if t is None:
                ubs.append(ub.any())
                return 'FAIL', st, data
        else:
            t = next(x for x in snap.tr[st] if Else in x.on)
        nst = t.target
        ret = None
        for a in t.actions:
            r = machine.act(ctx, a, data, last, ub, events)
            if r is None:
                continue
            if r[0] == 'ret':
                if r[1].startswith('YIELD_'):
                    events.append(('yield', r[1]))
                    continue
                ret = r[1]
                break
            nst = r[1]
            break
        ubs.append(ub.any())
        st = nst
        if ret is not None:
            return ret, st, data
    return None, st, data


def estep(machine, ctx, st, sym, data):
    """one eager-normal-form step: dispatch sym (re-dispatching until it is consumed or the parse ends), then flush"""
    events = []
    ubs = []
    cur = st
    guard = 0
    while True:
        guard += 1
        if guard > len(machine.m.states) + 4:
            return ERes('UNWIND', cur, False, data, events, ubs)
        r = machine.dispatch(ctx, cur, sym, data, events)
        ubs.append(r.ub.any())
        data = r.data
        cur = r.state
        if r.code.startswith('YIELD_'):
            events.append(('yield', r.code))
            if r.consumed or sym is End:
                break
            continue   # yield on a non-consuming move: the symbol is dispatched again after re-invocation
        if r.code != 'OK':
            return ERes(r.code, cur, r.consumed, data, events, ubs)
        break
    if sym is End:
        return ERes('OK', cur, False, data, events, ubs)
    code, cur, data = eflush(machine, ctx, cur, data, events, sym, ubs)
    if code is not None:
        return ERes(code, cur, True, data, events, ubs)
    if machine.immediate_done(cur):
        return ERes('DONE', cur, True, data, events, ubs)
    return ERes('OK', cur, True, data, events, ubs)
