"""refsem: reference interpreter of the nmfu statement language, directly on lark's parse tree of the source text
(own reading of docs/user-ref/parser.md; patterns via refre derivatives, math expressions via cparse/cexpr on the expression's
source text). Value-generic: every data- or input-dependent decision goes through symx.Ctx.br, so it runs symbolically
(symbolic bytes, symbolic input length) and, with constants, concretely.

Rules (DESIGN §4 C01): statements run in order; a match consumes a member of its language, completing without look-ahead as soon
as no live pattern can be continued, otherwise deciding stop/continue with one byte of look-ahead; a byte that continues nothing
raises nomatch at that byte (not consumed); `x += match` appends each byte when consumed, a byte that does not fit raises
outofspace at that byte; instantaneous statements happen at their program position; optional/loop/case/greedy case/try/foreach/
if/wait as documented; End is never a data byte.
"""
import lark
import z3
from . import refre, cparse, cexpr as C, absm
from .cexpr import CV
from .absm import idx64, StrVal

END = 'END'


class NoMatch(Exception):
    pass


class OutOfSpace(Exception):
    pass


class Incomplete(Exception):
    pass


class Finish(Exception):
    def __init__(s, code):
        s.code = code


class Break(Exception):
    def __init__(s, name):
        s.name = name


class Unsupported(Exception):
    pass


RAW_SIZES = {'int8_t': 1, 'uint8_t': 1, 'int16_t': 2, 'uint16_t': 2, 'int32_t': 4, 'uint32_t': 4, 'int64_t': 8, 'uint64_t': 8, 'float': 4, 'double': 8}


def intlit(t):
    t = str(t)
    neg = t.startswith('-')
    t = t.lstrip('+-')
    v = int(t[2:], 16) if t.lower().startswith('0x') else int(t[2:], 2) if t.lower().startswith('0b') else int(t)
    return -v if neg else v


def charconst(tok):
    tok = str(tok)
    if len(tok) == 3:
        return ord(tok[1])
    e = tok[2]
    m = {'n': 10, 'r': 13, 't': 9, 'b': 8, '0': 0, "'": 39, '\\': 92, '"': 34}
    if e not in m:
        raise Unsupported('char escape ' + e)
    return m[e]


def member(b, s):
    """z3 condition: byte b in python set s"""
    return absm.member(b, [chr(x) for x in s])


def first(t):
    out = set()
    for cls in refre.classes(t):
        if refre.deriv(t, min(cls)) is not refre.EMPTY:
            out |= cls
    return out


class Decl:
    pass


class Program:
    """static part: declarations (own reading of the out-decl grammar)"""

    def __init__(self, tree, src):
        self.tree, self.src = tree, src
        self.outs = {}
        self.hooks = set()
        self.enum_consts = {}
        for d in tree.find_data('out_decl'):
            self.decl(d)
        for h in tree.find_data('hook_decl'):
            self.hooks.add(h.children[0].value)
        if list(tree.find_data('macro_decl')):
            raise Unsupported('macros (expanded textually first: C13)')
        self.body = next(tree.find_data('parser_decl')).children
        # an optional statement followed only by non-matching statements up to the end of the program (known finding: nmfu has no
        # transition to carry those statements when the optional is skipped). append of a match consumes input, so it does not count
        self.tail_optional = None
        k = len(self.body)
        def is_action(st):
            d = str(st.data)
            if d == 'append_stmt':
                return str(st.children[1].data) not in ('string_const', 'string_case_const', 'binary_string_const', 'regex', 'binary_regex', 'concat_expr', 'end_expr')
            return d in ('assign_stmt', 'delete_stmt', 'call_stmt', 'finish_stmt', 'custom_finish_stmt', 'custom_yield_stmt')
        while k > 0 and is_action(self.body[k - 1]):
            k -= 1
        if 0 < k < len(self.body) and str(self.body[k - 1].data) == 'optional_stmt':
            self.tail_optional = self.body[k - 1]

    def decl(self, d):
        ty = d.children[0]
        name = d.children[1].value
        o = Decl()
        o.name = name
        o.kind = str(ty.data)
        o.default = d.children[2] if len(d.children) == 3 else None
        if o.kind in ('str_type', 'unterm_str_type'):
            o.size = intlit(ty.children[0].value)
            o.term = o.kind == 'str_type'
            o.cap = o.size - 1 if o.term else o.size
            if o.cap < 0 or o.size > 4096:
                raise Unsupported('string size')
            o.cnt = C.counter_ctype(o.size)
        elif o.kind == 'raw_type':
            sz = RAW_SIZES.get(ty.children[0].value)
            if sz is None:
                raise Unsupported('raw type')
            o.size = o.cap = sz
            o.term = False
            o.cnt = C.counter_ctype(sz)
        elif o.kind == 'enum_type':
            o.vals = [c.value for c in ty.children]
            o.ct = C.UINT
            for i, v in enumerate(o.vals):
                self.enum_consts.setdefault(v, set()).add(i)
        elif o.kind == 'bool_type':
            o.ct = C.BOOLT
        else:
            signed, w = True, 4
            for a in ty.children:
                if a.data == 'signed_attr':
                    signed = a.children[0].value == 'signed'
                else:
                    w = int(a.children[0].value)
            if w not in (1, 2, 4, 8):
                raise Unsupported('int width')
            o.ct = C.CT(8 * w, signed)
        self.outs[name] = o

    def layout_like(self):
        return self


class Ref:
    def __init__(self, prog, ctx, bs, nvar, end):
        self.p, self.ctx, self.bs, self.nvar, self.end = prog, ctx, bs, nvar, end
        self.skipped = []
        self.pos = 0
        self.trace = []
        self.last = None
        self.each = []
        self.ubs = []
        self.vals = {}
        self.strs = {}
        self.ended = False
        self.known_len = None
        for n, o in prog.outs.items():
            if hasattr(o, 'ct'):
                self.vals[n] = CV(z3.BitVec('uninit_' + n, o.ct.w), o.ct)
            else:
                self.strs[n] = StrVal(z3.BitVecVal(0, o.cnt.w), z3.Array('uninit_' + n, absm.BV64, absm.BV8))
        for n, o in prog.outs.items():
            if o.default is not None:
                if hasattr(o, 'ct'):
                    self.assign_value(n, o.default)
                else:
                    self.set_string(n, o.default)

    # ---- data
    def snapshot(self):
        return (dict(self.vals), {k: (v.len, v.arr) for k, v in self.strs.items()})

    def env(self):
        consts = {}
        return cparse.Env(dict(self.vals), {n: (CV(s.len, self.p.outs[n].cnt), s.arr, self.p.outs[n].size) for n, s in self.strs.items()}, self.last)

    def math(self, e, target=None):
        """value of a math / integer expression tree: evaluated from its SOURCE TEXT by cparse"""
        d = str(e.data)
        if d in ('number_const',):
            n = intlit(e.children[0].value)
            t = C.literal_type(abs(n))
            if t is None:
                raise Unsupported('literal')
            ub = C.UB()
            return C.lit(n, t) if n >= 0 else C.neg(C.lit(-n, t), ub)
        if d == 'char_const':
            return C.lit(charconst(e.children[0].value), C.INT)
        if d == 'bool_const':
            return C.lit(1 if e.children[0].value == 'true' else 0, C.INT)
        if d == 'identifier_const':
            n = e.children[0].value
            if target is not None and self.p.outs[target].kind == 'enum_type' and n in self.p.outs[target].vals:
                return C.lit(self.p.outs[target].vals.index(n), C.INT)
            if n in self.vals:
                return self.vals[n]
            raise Unsupported('identifier ' + n)
        text = self.p.src[e.meta.start_pos:e.meta.end_pos]
        try:
            ast = cparse.Parser(text).parse()
        except cparse.ParseError as ex:
            raise Unsupported('expression text: ' + str(ex))
        env = self.env()
        # enum constants: resolved by the enum variable they are compared with / assigned to (unique names only)
        for n, idxs in self.p.enum_consts.items():
            if n not in env.vars:
                if target is not None and self.p.outs[target].kind == 'enum_type' and n in self.p.outs[target].vals:
                    env.vars[n] = C.lit(self.p.outs[target].vals.index(n), C.INT)
                elif len(idxs) == 1:
                    env.vars[n] = C.lit(next(iter(idxs)), C.INT)
        ub = C.UB()
        try:
            v = cparse.evaluate(ast, env, ub)
        except KeyError as ex:
            raise Unsupported('name in expression: ' + str(ex))
        except TypeError:
            raise Unsupported('$last before any byte')
        self.ubs.append(ub.any())
        return v

    def assign_value(self, name, e):
        o = self.p.outs[name]
        v = self.math(e, name)
        if o.kind == 'bool_type':
            self.vals[name] = CV(z3.If(C.to_bool(v), z3.BitVecVal(1, 8), z3.BitVecVal(0, 8)), C.BOOLT)
        else:
            self.vals[name] = C.convert(v, o.ct)

    def set_string(self, name, e):
        o = self.p.outs[name]
        d = str(e.data)
        if d == 'string_const':
            raw = refre.decode_string(e.children[0])
        elif d == 'binary_string_const':
            raw = refre.decode_binary_string(e.children[0])
        else:
            raise Unsupported('string value ' + d)
        if len(raw) > o.cap:
            raise Unsupported('constant longer than capacity')
        s = self.strs[name].copy()
        for i, b in enumerate(raw):
            s.arr = z3.Store(s.arr, idx64(i), z3.BitVecVal(b, 8))
        if o.term:
            s.arr = z3.Store(s.arr, idx64(len(raw)), z3.BitVecVal(0, 8))
        s.len = z3.BitVecVal(len(raw), o.cnt.w)
        self.strs[name] = s

    def append_byte(self, name, v8):
        o = self.p.outs[name]
        s = self.strs[name]
        if self.ctx.br(z3.UGE(s.len, o.cap)):
            raise OutOfSpace()
        s = s.copy()
        s.arr = z3.Store(s.arr, idx64(s.len), v8)
        if o.term:
            s.arr = z3.Store(s.arr, idx64(s.len) + 1, z3.BitVecVal(0, 8))
        s.len = z3.simplify(s.len + 1)
        self.strs[name] = s

    # ---- input
    def peek(self):
        if self.ended:
            raise Unsupported('input after end')
        if self.pos >= len(self.bs) or self.ctx.br(self.nvar == self.pos):
            if self.pos >= len(self.bs):
                self.ctx.assume(self.nvar == len(self.bs))
            if self.end:
                return END
            raise Incomplete()
        return self.bs[self.pos]

    def consume(self, on_byte=None):
        b = self.bs[self.pos]
        self.pos += 1
        self.last = CV(b, C.U8)
        for acts in self.each:
            for a in acts:
                self.stmt(a)
        if on_byte:
            on_byte(b)

    def deriv_sym(self, rs, c):
        """derivatives of the terms rs by the symbolic byte c: branches over the common byte-class partition"""
        part = [refre.ALL]
        for r in rs:
            part = refre._meet(part, refre.classes(r))
        part = sorted(part, key=lambda s_: min(s_))
        for cls in part[:-1]:
            if self.ctx.br(member(c, cls)):
                return [refre.deriv(r, min(cls)) for r in rs]
        cls = part[-1]
        return [refre.deriv(r, min(cls)) for r in rs]

    def match(self, r, on_byte=None):
        while True:
            if not first(r):
                if r.null:
                    return
                raise NoMatch()
            c = self.peek()
            d = self.deriv_sym([r], c)[0] if c is not END else refre.EMPTY
            if d is refre.EMPTY:
                if r.null:
                    return
                raise NoMatch()
            self.consume(on_byte)
            r = d

    def appender(self, name):
        def f(b):
            try:
                self.append_byte(name, b)
            except OutOfSpace:
                self.pos -= 1    # the byte that does not fit is not consumed
                raise
        return f

    # ---- statements
    def block(self, stmts):
        for st in stmts:
            self.stmt(st)

    def pat(self, e):
        try:
            return refre.pattern(e)
        except refre.Unsupported as ex:
            raise Unsupported(str(ex))

    def stmt(self, st):
        d = str(st.data)
        ch = st.children
        if d == 'match_stmt':
            if ch[0].data == 'end_expr':
                if self.peek() is END:
                    self.ended = True
                    return
                raise NoMatch()
            if str(ch[0].data) not in ('string_const', 'string_case_const', 'binary_string_const', 'regex', 'binary_regex', 'concat_expr'):
                raise Unsupported('match of ' + str(ch[0].data))
            return self.match(self.pat(ch[0]))
        if d == 'wait_stmt':
            if ch[0].data == 'end_expr':
                while self.peek() is not END:
                    self.consume()
                self.ended = True
                return
            r0 = self.pat(ch[0])
            r = r0
            while True:
                if not first(r) and r.null:
                    return
                c = self.peek()
                if c is END:
                    raise Incomplete()       # end of input during a wait: the parse is merely incomplete
                dd = self.deriv_sym([r], c)[0]
                if dd is refre.EMPTY:
                    if r.null:
                        return
                    if r is r0:
                        self.consume()
                    r = r0
                    continue
                self.consume()
                r = dd
        if d in ('assign_stmt', 'append_stmt'):
            name = ch[0].value
            if name not in self.p.outs:
                raise Unsupported('unknown output ' + name)
            o = self.p.outs[name]
            e = ch[1]
            ed = str(e.data)
            if d == 'append_stmt':
                if not hasattr(o, 'cap'):
                    raise Unsupported('append to non-buffer')
                if ed in ('string_const', 'string_case_const', 'binary_string_const', 'regex', 'binary_regex', 'concat_expr'):
                    return self.match(self.pat(e), self.appender(name))
                if ed == 'end_expr':
                    raise Unsupported('append end')
                v = self.math(e)
                try:
                    self.append_byte(name, C.convert(v, C.U8).v)
                except OutOfSpace:
                    # a computed character that does not fit: whether the handler then sees the byte consumed just before or the next one depends on
                    # which of the two bytes the action is scheduled with, which the language leaves open; such runs are outside the comparison
                    self.ubs.append(z3.BoolVal(True))
                    raise
                return
            if hasattr(o, 'cap'):
                if o.kind == 'raw_type':
                    raise Unsupported('raw assignment')
                self.set_string(name, e)
                return
            self.assign_value(name, e)
            return
        if d == 'delete_stmt':
            name = ch[0].value
            o = self.p.outs[name]
            s = self.strs[name].copy()
            s.len = z3.BitVecVal(0, o.cnt.w)
            if o.term:
                s.arr = z3.Store(s.arr, idx64(0), z3.BitVecVal(0, 8))
            self.strs[name] = s
            return
        if d == 'call_stmt':
            if ch[0].value in self.p.hooks:
                self.trace.append(('hook', ch[0].value, self.pos, self.snapshot()))
                return
            raise Unsupported('macro call')
        if d == 'finish_stmt':
            raise Finish(None)
        if d == 'custom_finish_stmt':
            raise Finish(ch[0].value)
        if d == 'custom_yield_stmt':
            self.trace.append(('yield', 'YIELD_' + ch[0].value, self.pos))
            return
        if d == 'break_stmt':
            raise Break(ch[0].value if ch else None)
        if d == 'loop_stmt':
            name = None
            body = ch
            if isinstance(ch[0], lark.Token):
                name = ch[0].value
                body = ch[1:]
            while True:
                p0 = (self.pos, len(self.trace))
                try:
                    self.block(body)
                except Break as b:
                    if b.name is None or b.name == name:
                        return
                    raise
                if (self.pos, len(self.trace)) == p0:
                    raise Unsupported('loop iteration without progress')
        if d == 'optional_stmt':
            if self.ended:
                return    # end-of-input was consumed by an `end` pattern: nothing is left that the optional could match
            save = (self.pos, dict(self.vals), {k: v.copy() for k, v in self.strs.items()}, len(self.trace), self.last)
            try:
                self.block(ch)
            except NoMatch:
                if self.pos == save[0]:
                    self.vals, self.strs, self.last = save[1], save[2], save[4]
                    del self.trace[save[3]:]
                    self.skipped.append(st)
                    return
                raise
            return
        if d == 'try_stmt':
            cb = ch[-1]
            hs = {'nomatch', 'outofspace'}
            hb = cb.children
            if hb and isinstance(hb[0], lark.Tree) and hb[0].data == 'catch_options':
                hs = {t.value for t in hb[0].children}
                hb = hb[1:]
            try:
                self.block(ch[:-1])
            except NoMatch:
                if 'nomatch' not in hs:
                    raise
                self.block(hb)
            except OutOfSpace:
                if 'outofspace' not in hs:
                    raise
                self.block(hb)
            return
        if d == 'foreach_stmt':
            self.each.append(ch[-1].children)
            try:
                self.block(ch[:-1])
            finally:
                self.each.pop()
            return
        if d == 'if_stmt':
            for c in ch:
                if c.data == 'else_condition':
                    return self.block(c.children)
                if self.ctx.br(C.to_bool(self.math(c.children[0]))):
                    return self.block(c.children[1:])
            return
        if d in ('case_stmt', 'greedy_case_stmt'):
            return self.case(st, d == 'greedy_case_stmt')
        raise Unsupported('statement ' + d)

    def case(self, st, greedy):
        clauses = []  # (prio, [patterns], has_else, has_end, body)

        def add(cl, prio):
            pats = []
            els = hend = False
            body = []
            for c in cl.children:
                if isinstance(c, lark.Tree) and c.data == 'else_predicate':
                    els = True
                elif isinstance(c, lark.Tree) and c.data == 'expr_predicate':
                    if c.children[0].data == 'end_expr':
                        hend = True
                    else:
                        pats.append(self.pat(c.children[0]))
                else:
                    body.append(c)
            clauses.append((prio, pats, els, hend, body))
        for b in st.children:
            if b.data == 'case_clause':
                add(b, 0)
            else:
                for cl in b.children[1:]:
                    add(cl, int(b.children[0].value))
        live = [(i, r) for i, cl in enumerate(clauses) for r in cl[1]]
        start = self.pos
        while True:
            if live and not any(first(r) for i, r in live) and any(r.null for i, r in live):
                acc = [(clauses[i][0], i) for i, r in live if r.null]
                return self.block(clauses[max(acc)[1]][4])
            c = self.peek()
            if c is not END and live:
                ds = self.deriv_sym([r for i, r in live], c)
                nxt = [(i, dr) for (i, r), dr in zip(live, ds) if dr is not refre.EMPTY]
            else:
                nxt = []
            if not nxt:
                acc = [(clauses[i][0], i) for i, r in live if r.null]
                if c is END and self.pos == start:
                    for i, cl in enumerate(clauses):
                        if cl[3]:
                            self.ended = True
                            return self.block(cl[4])
                if acc and self.pos > start:
                    return self.block(clauses[max(acc)[1]][4])
                for cl in clauses:
                    if cl[2]:
                        return self.block(cl[4])
                raise NoMatch()
            self.consume()
            live = nxt


class Result:
    __slots__ = ('code', 'pos', 'trace', 'snap', 'ubs', 'fin', 'ended', 'skipped_tail_optional')

    def __init__(s, code, pos, trace, snap, ubs, fin=False, ended=False):
        s.code, s.pos, s.trace, s.snap, s.ubs, s.fin, s.ended = code, pos, trace, snap, ubs, fin, ended


def run(prog, bs, nvar, end):
    """function for symx.explore / concrete call: returns Result (code in DONE, FINISH_x, FAIL, INCOMPLETE)"""
    def fn(ctx):
        r = Ref(prog, ctx, bs, nvar, end)
        fin = False
        try:
            r.block(prog.body)
            code = 'DONE'
        except Finish as f:
            code = 'FINISH_' + f.code if f.code else 'DONE'
            fin = True
        except (NoMatch, OutOfSpace):
            code = 'FAIL'
        except Incomplete:
            code = 'INCOMPLETE'
        except Break:
            raise Unsupported('break outside loop')
        res = Result(code, r.pos, r.trace, r.snapshot(), r.ubs, fin, r.ended)
        res.skipped_tail_optional = prog.tail_optional is not None and any(x is prog.tail_optional for x in r.skipped)
        return res
    return fn
