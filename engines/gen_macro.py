"""Macro program family for C13: (name, source, expectation). 'same' = must behave like (and be accepted exactly when) its textual
expansion; 'reject' = wrong argument kind / count: must be a diagnosed error. Seeded variation of literals and nesting."""
import random

HEAD = '''out int a = 0;
out int b = 0;
out str[6] s;
out bool f = false;
hook h1;
hook h2;
finishcode F1, F2;
'''


def programs(seed, n_random):
    rnd = random.Random(seed)
    P = []
    P.append(('nested-all-kinds', HEAD + '''
macro num(out tgt, match sep) { tgt = 0; foreach { /\\d+/; } do { tgt = [tgt * 10 + ($last - '0')]; } sep; }
macro twice(macro m, hook h) { m(a, ","); h(); m(b, ";"); h(); }
macro guard(expr e, finishcode fc) { if e { finish fc; } }
macro leave(loop l, match stop) { case { stop -> { break l; } "." -> { } } }
parser {
    loop outer {
        twice(num, h1);
        guard([a > b], F1);
        guard([a + b == 7], F2);
        leave(outer, "!");
    }
    h2();
}
''', 'same'))
    P.append(('same-macro-twice-with-loop', HEAD + '''
macro run(match m, out o) { loop { case { m -> { o = [o + 1]; } "/" -> { break; } } } }
parser { run("x", a); run(/[yz]/, b); h1(); }
''', 'same'))
    P.append(('shadowed-arg-names', HEAD + '''
macro inner(out a, expr b) { a = b; h1(); }
macro outer(out b, expr a) { inner(b, a); inner(b, [a + 1]); }
parser { "k"; outer(a, [b + 2]); outer(b, [a * 2]); ";"; }
''', 'same'))
    P.append(('shadowed-silent-capture', HEAD + '''
macro inner(expr b, expr a) { if b > a { h1(); } else { h2(); } }
macro outer(expr a) { inner([a + 1], 7); }
parser { /[0-9]/; outer([$last - '0']); ";"; }
''', 'same'))
    P.append(('swapped-forwarding-same-names', HEAD + '''
macro set2(out p, out q) { p = 1; q = [p + 1]; }
macro rd2(match u, match v, out p, out q) { s += u; p = [s.len]; delete s; s += v; q = [s.len]; }
macro swapped(out p, out q, match u, match v) { set2(q, p); rd2(v, u, q, p); }
parser { "<"; swapped(a, b, /[0-9]+/, /[a-z]+/); ">"; h1(); }
''', 'same'))
    P.append(('enum-constant-through-expr-arg', '''out enum{NONE,GET,POST} method;
out int cnt = 0;
hook seen;
macro set_method(expr which, expr c) { method = which; cnt = c; }
macro verb(match text, expr which) { text; set_method(which, [cnt + 1]); seen(); }
parser { method = NONE; loop { case { "G" -> { verb("ET", GET); } "P" -> { verb("OST", POST); } "." -> { break; } } } }
''', 'same'))
    P.append(('yieldcode-arg', '''// args: -fyield-support
yieldcode Y1, Y2;
out int n = 0;
macro tok(match m, yieldcode y) { m; n = [n + 1]; yield y; }
parser { loop { case { "a" -> { tok("b", Y1); } "c" -> { tok(/d+/, Y2); } } } }
''', 'same'))
    P.append(('macro-in-try-append', HEAD + '''
macro grab(out dst, match what, hook onfull) { try { dst += what; } catch (outofspace) { onfull(); wait ";"; } }
parser { grab(s, /[a-z]+/, h1); ":"; delete s; grab(s, /[0-9]+/, h2); "."; }
''', 'same'))
    P.append(('empty-args-and-hook-same-name-priority', HEAD + '''
macro ows() { optional { " "; } }
macro kv(match k) { k; ows(); "="; ows(); }
parser { kv("x"); a = 1; kv("yy"i); b = 2; ";"; }
''', 'same'))
    P.append(('expr-arg-with-last', HEAD + '''
macro store(out o, expr v) { o = v; }
parser { /[0-9]/; store(a, [$last - '0']); /[a-f]/; store(b, [($last - 'a') + 10 + a]); ";"; }
''', 'same'))
    P.append(('macro-defined-after-use', HEAD + '''
parser { first(); second("q"); }
macro first() { "p"; a = 3; }
macro second(match m) { m; b = [a + 1]; h1(); }
''', 'same'))
    # wrong kinds / counts: must be diagnosed
    P.append(('wrong-kind-hook-for-out', HEAD + '''
macro set(out o) { o = 1; }
parser { "x"; set(h1); }
''', 'reject'))
    P.append(('wrong-kind-expr-for-match', HEAD + '''
macro m(match w) { w; }
parser { m([a + 1]); }
''', 'reject'))
    P.append(('wrong-kind-out-for-macro', HEAD + '''
macro call(macro q) { q(); }
parser { "x"; call(a); }
''', 'reject'))
    P.append(('wrong-kind-finishcode', HEAD + '''
macro fin(finishcode c) { finish c; }
parser { "x"; fin(h1); }
''', 'reject'))
    P.append(('too-few-args', HEAD + '''
macro two(out o, match m) { m; o = 1; }
parser { two(a); }
''', 'reject'))
    P.append(('too-many-args', HEAD + '''
macro one(match m) { m; }
parser { one("x", "y"); }
''', 'reject'))
    P.append(('wrong-kind-loop', HEAD + '''
macro out_of(loop l) { break l; }
parser { loop q { "x"; out_of(a); } }
''', 'reject'))
    # the same macro body instantiated twice with different outputs: per-instantiation actions attached to one regex literal of the body
    P.append(('out-arg-append-regex-twice', '''out str[4] p;
out str[4] q;
hook h1;
macro field(out tgt) { tgt += /[a-z]+/; ";"; }
parser { field(p); field(q); h1(); }
''', 'same'))
    P.append(('match-arg-used-twice-with-appends', '''out str[4] p;
out str[4] q;
out int n = 0;
macro two(match m, out o1, out o2) { o1 += m; ","; n = [n + 1]; o2 += m; }
parser { two(/[0-9]+/, p, q); ";"; two("ab", q, p); }
''', 'same'))
    # a literal / expression / pattern where a named entity (out, hook, macro, loop, finishcode) is declared: a diagnosed error for every form
    decl = {'out': 'macro k(out x) { x = 1; }', 'hook': 'macro k(hook x) { x(); }', 'macro': 'macro k(macro x) { x(); }',
            'finishcode': 'macro k(finishcode x) { finish x; }', 'loop': 'macro k(loop x) { break x; }'}
    bad_args = {'number': '5', 'string': '"s"', 'bool': 'true', 'math': '[a + 1]', 'regex': '/a/', 'concat': '("a" "b")'}
    for kind, dtext in decl.items():
        for an, atext in bad_args.items():
            body = f'loop q {{ "x"; k({atext}); }}' if kind == 'loop' else f'"x"; k({atext});'
            P.append((f'wrong-kind-{an}-for-{kind}', HEAD + dtext + '\nparser { ' + body + ' }\n', 'reject'))
    # seeded variations
    lits = ['"ab"', '"x"i', '/[0-9]+/', '/a|bc/', '"\\n"', '/[^,]+/']
    for i in range(n_random):
        l1, l2, l3 = rnd.choice(lits), rnd.choice(lits[:2] + ['","', '";"']), rnd.choice(['a', 'b'])
        k = rnd.randint(1, 9)
        body = rnd.choice([
            f'macro m1(match x, out o) {{ x; o = [o + {k}]; }}\nmacro m2(macro q, match y) {{ q(y, {l3}); q({l2}, {l3}); }}\nparser {{ m2(m1, {l1}); ";"; h1(); }}',
            f'macro m1(expr e, hook h) {{ if e {{ h(); }} else {{ {l3} = [{l3} - {k}]; }} }}\nparser {{ loop {{ {l1}; {l3} = [{l3} + 1]; m1([{l3} > {k}], h1); {l2}; }} }}',
            f'macro rd(out o, match d) {{ foreach {{ /[0-9]+/; }} do {{ o = [o * {k} + $last]; }} d; }}\nmacro pair(match sep) {{ rd(a, sep); rd(b, ";"); h2(); }}\nparser {{ pair({l2}); }}',
        ])
        P.append((f'rand{i}', HEAD + body + '\n', 'same'))
    return P
