"""Macro program family for C13: (name, source, expectation). 'same' = must behave like (and be accepted exactly when) its textual
expansion; 'reject' = wrong argument kind / count: must be a diagnosed error. Seeded variation of literals and nesting."""
import random

HEAD = '''out int a = 0;
out int b = 0;
out str[6] s;
out bool f = false;
hook h1;
hook h2;
finishcode F1, F2;
'''


def programs(seed, n_random):
    rnd = random.Random(seed)
    P = []
    P.append(('nested-all-kinds', HEAD + '''
macro num(out tgt, match sep) { tgt = 0; foreach { /\\d+/; } do { tgt = [tgt * 10 + ($last - '0')]; } sep; }
macro twice(macro m, hook h) { m(a, ","); h(); m(b, ";"); h(); }
macro guard(expr e, finishcode fc) { if e { finish fc; } }
macro leave(loop l, match stop) { case { stop -> { break l; } "." -> { } } }
parser {
    loop outer {
        twice(num, h1);
        guard([a > b], F1);
        guard([a + b == 7], F2);
        leave(outer, "!");
    }
    h2();
}
''', 'same'))
    P.append(('same-macro-twice-with-loop', HEAD + '''
macro run(match m, out o) { loop { case { m -> { o = [o + 1]; } "/" -> { break; } } } }
parser { run("x", a); run(/[yz]/, b); h1(); }
''', 'same'))
    P.append(('shadowed-arg-names', HEAD + '''
macro inner(out a, expr b) { a = b; h1(); }
macro outer(out b, expr a) { inner(b, a); inner(b, [a + 1]); }
parser { "k"; outer(a, [b + 2]); outer(b, [a * 2]); ";"; }
''', 'same'))
    P.append(('shadowed-silent-capture', HEAD + '''
macro inner(expr b, expr a) { if b > a { h1(); } else { h2(); } }
macro outer(expr a) { inner([a + 1], 7); }
parser { /[0-9]/; outer([$last - '0']); ";"; }
''', 'same'))
    P.append(('swapped-forwarding-same-names', HEAD + '''
macro set2(out p, out q) { p = 1; q = [p + 1]; }
macro rd2(match u, match v, out p, out q) { s += u; p = [s.len]; delete s; s += v; q = [s.len]; }
macro swapped(out p, out q, match u, match v) { set2(q, p); rd2(v, u, q, p); }
parser { "<"; swapped(a, b, /[0-9]+/, /[a-z]+/); ">"; h1(); }
''', 'same'))
    P.append(('enum-constant-through-expr-arg', '''out enum{NONE,GET,POST} method;
out int cnt = 0;
hook seen;
macro set_method(expr which, expr c) { method = which; cnt = c; }
macro verb(match text, expr which) { text; set_method(which, [cnt + 1]); seen(); }
parser { method = NONE; loop { case { "G" -> { verb("ET", GET); } "P" -> { verb("OST", POST); } "." -> { break; } } } }
''', 'same'))
    P.append(('yieldcode-arg', '''// args: -fyield-support
yieldcode Y1, Y2;
out int n = 0;
macro tok(match m, yieldcode y) { m; n = [n + 1]; yield y; }
parser { loop { case { "a" -> { tok("b", Y1); } "c" -> { tok(/d+/, Y2); } } } }
''', 'same'))
    P.append(('macro-in-try-append', HEAD + '''
macro grab(out dst, match what, hook onfull) { try { dst += what; } catch (outofspace) { onfull(); wait ";"; } }
parser { grab(s, /[a-z]+/, h1); ":"; delete s; grab(s, /[0-9]+/, h2); "."; }
''', 'same'))
    P.append(('empty-args-and-hook-same-name-priority', HEAD + '''
macro ows() { optional { " "; } }
macro kv(match k) { k; ows(); "="; ows(); }
parser { kv("x"); a = 1; kv("yy"i); b = 2; ";"; }
''', 'same'))
    P.append(('expr-arg-with-last', HEAD + '''
macro store(out o, expr v) { o = v; }
parser { /[0-9]/; store(a, [$last - '0']); /[a-f]/; store(b, [($last - 'a') + 10 + a]); ";"; }
''', 'same'))
    P.append(('macro-defined-after-use', HEAD + '''
parser { first(); second("q"); }
macro first() { "p"; a = 3; }
macro second(match m) { m; b = [a + 1]; h1(); }
''', 'same'))
    # wrong kinds / counts: must be diagnosed
    P.append(('wrong-kind-hook-for-out', HEAD + '''
macro set(out o) { o = 1; }
parser { "x"; set(h1); }
''', 'reject'))
    P.append(('wrong-kind-expr-for-match', HEAD + '''
macro m(match w) { w; }
parser { m([a + 1]); }
''', 'reject'))
    P.append(('wrong-kind-out-for-macro', HEAD + '''
macro call(macro q) { q(); }
parser { "x"; call(a); }
''', 'reject'))
    P.append(('wrong-kind-finishcode', HEAD + '''
macro fin(finishcode c) { finish c; }
parser { "x"; fin(h1); }
''', 'reject'))
    P.append(('too-few-args', HEAD + '''
macro two(out o, match m) { m; o = 1; }
parser { two(a); }
''', 'reject'))
    P.append(('too-many-args', HEAD + '''
macro one(match m) { m; }
parser { one("x", "y"); }
''', 'reject'))
    P.append(('wrong-kind-loop', HEAD + '''
macro out_of(loop l) { break l; }
parser { loop q { "x"; out_of(a); } }
''', 'reject'))
    # the same macro body instantiated twice with different outputs: per-instantiation actions attached to one regex literal of the body
    P.append(('out-arg-append-regex-twice', '''out str[4] p;
out str[4] q;
hook h1;
macro field(out tgt) { tgt += /[a-z]+/; ";"; }
parser { field(p); field(q); h1(); }
''', 'same'))
    P.append(('match-arg-used-twice-with-appends', '''out str[4] p;
out str[4] q;
out int n = 0;
macro two(match m, out o1, out o2) { o1 += m; ","; n = [n + 1]; o2 += m; }
parser { two(/[0-9]+/, p, q); ";"; two("ab", q, p); }
''', 'same'))
    # a literal / expression / pattern where a named entity (out, hook, macro, loop, finishcode) is declared: a diagnosed error for every form
    decl = {'out': 'macro k(out x) { x = 1; }', 'hook': 'macro k(hook x) { x(); }', 'macro': 'macro k(macro x) { x(); }',
            'finishcode': 'macro k(finishcode x) { finish x; }', 'loop': 'macro k(loop x) { break x; }'}
    bad_args = {'number': '5', 'string': '"s"', 'bool': 'true', 'math': '[a + 1]', 'regex': '/a/', 'concat': '("a" "b")'}
    for kind, dtext in decl.items():
        for an, atext in bad_args.items():
            body = f'loop q {{ "x"; k({atext}); }}' if kind == 'loop' else f'"x"; k({atext});'
            P.append((f'wrong-kind-{an}-for-{kind}', HEAD + dtext + '\nparser { ' + body + ' }\n', 'reject'))
    P += forwarded_kind_programs()
    P += empty_body_programs()
    P += lexical_scope_programs()
    rnd2 = random.Random(seed * 7919 + 13)      # own stream: the rand<i> programs below stay what they were
    for i in range(max(3, n_random // 4)):
        P += forwarded_and_empty_variations(rnd2, i)
    # seeded variations
    lits = ['"ab"', '"x"i', '/[0-9]+/', '/a|bc/', '"\\n"', '/[^,]+/']
    for i in range(n_random):
        l1, l2, l3 = rnd.choice(lits), rnd.choice(lits[:2] + ['","', '";"']), rnd.choice(['a', 'b'])
        k = rnd.randint(1, 9)
        body = rnd.choice([
            f'macro m1(match x, out o) {{ x; o = [o + {k}]; }}\nmacro m2(macro q, match y) {{ q(y, {l3}); q({l2}, {l3}); }}\nparser {{ m2(m1, {l1}); ";"; h1(); }}',
            f'macro m1(expr e, hook h) {{ if e {{ h(); }} else {{ {l3} = [{l3} - {k}]; }} }}\nparser {{ loop {{ {l1}; {l3} = [{l3} + 1]; m1([{l3} > {k}], h1); {l2}; }} }}',
            f'macro rd(out o, match d) {{ foreach {{ /[0-9]+/; }} do {{ o = [o * {k} + $last]; }} d; }}\nmacro pair(match sep) {{ rd(a, sep); rd(b, ";"); h2(); }}\nparser {{ pair({l2}); }}',
        ])
        P.append((f'rand{i}', HEAD + body + '\n', 'same'))
    return P


# --- a caller's own match/expr parameter handed on to a parameter of the other kind -------------------------------------------
# The kind of an argument is the kind of what finally arrives, also when it arrives through one (or two) forwarding macros under a
# bare parameter name. A plain "string" is of both kinds (a match, and a string-typed expr), so it is not in either list.
MATCH_ONLY = {'regex': '/[a-c]+/', 'concat': '("a" /b+/)', 'caseless': '"ab"i', 'binstr': '"ab"b', 'binregex': 'b/[01-02]+/'}
EXPR_ONLY = {'number': '5', 'bool': 'true', 'char': "'c'", 'math': "['A' + 1]", 'mathvar': '[a + b]', 'bare-out': 'a'}
# what the callee does with the parameter: a position where both kinds are syntactically possible, one position of each kind, nothing
MATCH_CALLEE = {'append': 's += p;', 'stmt': 'p;', 'unused': '"q";'}
EXPR_CALLEE = {'append': 's += p;', 'assign': 'a = p;', 'cond': 'if p == 1 { h1(); }', 'unused': '"q";'}


def forwarded_kind_programs():
    P = []
    # wrong kind behind a forwarded name: must be the same diagnosed error as when written at the call directly
    for (akind, spell), (ckind, uses) in (((('match', MATCH_ONLY), ('expr', EXPR_CALLEE))), (('expr', EXPR_ONLY), ('match', MATCH_CALLEE))):
        for an, atext in spell.items():
            for un, utext in uses.items():
                if not (an in ('regex', 'math') or un in ('append', 'unused')):
                    continue        # full product for one spelling of each kind, the both-kinds position and the unused one for the others
                callee = f'macro inner({ckind} p) {{ {utext} }}\n'
                P.append((f'fwd-{akind}-{an}-to-{ckind}-{un}', HEAD + callee + f'macro outer({akind} x) {{ "k"; inner(x); }}\nparser {{ outer({atext}); ";"; }}\n', 'reject'))
                if un in ('append', 'unused'):
                    P.append((f'direct-{akind}-{an}-to-{ckind}-{un}', HEAD + callee + f'parser {{ "k"; inner({atext}); ";"; }}\n', 'reject'))
        an, atext = next(iter(spell.items()))
        callee = f'macro inner({ckind} p) {{ s += p; }}\n'
        # through two forwarding macros; under the callee's own parameter name; as the second argument; spelled [x]; from inside a case clause
        P.append((f'fwd2-{akind}-to-{ckind}', HEAD + callee + f'macro mid({akind} y) {{ inner(y); }}\nmacro outer({akind} x) {{ mid(x); }}\nparser {{ outer({atext}); ";"; }}\n', 'reject'))
        P.append((f'fwd-samename-{akind}-to-{ckind}', HEAD + callee + f'macro outer({akind} p) {{ inner(p); }}\nparser {{ outer({atext}); ";"; }}\n', 'reject'))
        P.append((f'fwd-second-arg-{akind}-to-{ckind}', HEAD + f'macro inner(out o, {ckind} p) {{ o += p; }}\nmacro outer(out o, {akind} x) {{ inner(o, x); }}\nparser {{ outer(s, {atext}); ";"; }}\n', 'reject'))
        P.append((f'fwd-in-case-{akind}-to-{ckind}', HEAD + callee + f'macro outer({akind} x) {{ case {{ "1" -> {{ inner(x); }} "2" -> {{ h1(); }} }} }}\nparser {{ outer({atext}); ";"; }}\n', 'reject'))
    P.append(('fwd-bracketed-match-to-expr', HEAD + 'macro inner(expr p) { s += p; }\nmacro outer(match x) { inner([x]); }\nparser { outer(/[a-c]+/); ";"; }\n', 'reject'))
    # parameters of the identifier kinds, and plain global names, where a match is declared
    for kind, actual in (('out', 'a'), ('hook', 'h1'), ('finishcode', 'F1'), ('macro', 'inner')):
        for un in ('stmt', 'unused'):
            P.append((f'fwd-{kind}-param-to-match-{un}', HEAD + f'macro inner(match p) {{ {MATCH_CALLEE[un]} }}\nmacro outer({kind} x) {{ inner(x); }}\nparser {{ "k"; outer({actual}); ";"; }}\n', 'reject'))
    for actual in ('a', 'h1', 'nosuchname'):
        P.append((f'bare-name-{actual}-for-unused-match', HEAD + f'macro inner(match p) {{ "q"; }}\nparser {{ "k"; inner({actual}); ";"; }}\n', 'reject'))
    # controls: forwarding to the same kind (bare, inside a concatenation, inside a math expression, twice removed) is the textual expansion
    P.append(('fwd-match-to-match', HEAD + '''
macro take(match m) { s += m; }
macro mid(match y) { take(y); ","; take((y "-")); }
macro outer(match mm) { mid(mm); }
parser { outer(/[a-c]+/); ";"; delete s; outer("xy"i); h1(); }
''', 'same'))
    P.append(('fwd-expr-to-expr', HEAD + '''
macro put(expr e, out o) { s += e; o = [e + 1]; }
macro mid(expr y, out o) { put(y, o); put([y + 1], o); }
macro outer(expr x) { mid(x, a); ","; mid([x * 2], b); }
parser { /[a-c]/; outer([$last - 32]); ";"; h1(); }
''', 'same'))
    P.append(('fwd-string-is-both-kinds', HEAD + '''
macro put(expr e) { s += e; }
macro take(match m) { s += m; }
macro as_expr(match mm) { put(mm); "."; }
macro as_match(expr x) { take(x); }
parser { as_expr("ab"); as_match("cd"); h1(); }
''', 'same'))
    return P


# --- macros whose body is empty: the expansion of a call is nothing, and nothing of the call may stay behind -------------------------
# Their parameters are named like global outputs that the surrounding statements (before and after the call, in the same block, in
# enclosing blocks and in the calling macro) read and assign.
def lexical_scope_programs():
    """a macro body sees its OWN parameters and the globals - not the parameters of the macros that called it (textual expansion
    substitutes a parameter only inside the body it belongs to). Every program starts with a match: statements before the first match
    run in start() and are not part of the compared traces."""
    P = []
    P.append(('callee-free-name-equals-callers-out-param', HEAD + '''
macro inner() { b = 7; }
macro outer(out b) { inner(); "x"; b = [b + 1]; }
parser { "k"; outer(a); "y"; h1(); }
''', 'same'))
    P.append(('callee-own-out-param-vs-callers-expr-param', HEAD + '''
macro inner(out v) { v = [v + 5]; }
macro outer(expr v) { "x"; b = 1; inner(b); a = v; }
parser { "k"; outer(100); "y"; h1(); }
''', 'same'))
    P.append(('callee-free-name-equals-callers-match-param', HEAD + '''
macro inner() { s += "q"; "z"; }
macro outer(match s) { s; inner(); }
parser { "k"; outer("mm"); "y"; h1(); }
''', 'same'))
    P.append(('callee-free-name-equals-callers-expr-param-two-levels', HEAD + '''
macro leaf() { a = [b + 1]; }
macro mid(expr q) { leaf(); "m"; a = [a + q]; }
macro top(expr b) { mid([b + 2]); "t"; }
parser { "k"; b = 3; top(40); "y"; h1(); }
''', 'same'))
    return P


def empty_body_programs():
    P = []
    P.append(('empty-macro-params-named-like-globals', HEAD + '''
macro stub(out a, expr b) { }
parser { "k"; a = [b + 1]; stub(b, [a + 40]); b = [a + 2]; ";"; h1(); }
''', 'same'))
    P.append(('empty-macro-in-nested-blocks', HEAD + '''
macro stub(out b, expr a, match s) { }
parser {
    a = 3; "k"; b = [a];
    loop {
        b = [b + a];
        case {
            "x" -> { a = [a + b]; if a > 9 { a = [a - b]; stub(a, [b * 2], /z+/); } b = [a - 1]; }
            "." -> { break; }
        }
        a = [b];
    }
    "w"; b = [a + 1]; h1();
}
''', 'same'))
    P.append(('empty-macro-called-first-in-a-macro', HEAD + '''
macro stub(out x, match y) { }
macro outer(out b, expr a) { stub(b, "q"); b = a; "m"; }
parser { "k"; a = [b + 3]; b = [a]; outer(a, [b + 5]); a = [a + b]; ";"; h1(); }
''', 'same'))
    P.append(('empty-macro-called-last-in-a-macro', HEAD + '''
macro stub(out b, expr a) { }
macro outer(out b, expr a) { b = a; "m"; b = [b + a]; stub(b, [a + 7]); }
parser { "k"; a = [b + 3]; b = [a]; outer(b, [a + 5]); a = [a + b]; ";"; h1(); }
''', 'same'))
    P.append(('empty-macro-between-two-calls', HEAD + '''
macro stub(out a, expr b) { }
macro inc(out a, expr b) { a = [a + b]; }
parser { "k"; inc(b, [a + 2]); stub(b, 9); inc(a, [b + 1]); "l"; stub(a, [b + b]); inc(b, [a]); ";"; h1(); }
''', 'same'))
    P.append(('empty-macro-every-kind', HEAD + '''
macro nothing() { }
macro stub(macro m, hook h, out a, match w, expr b, loop l, finishcode fc) { }
parser { loop outer { "k"; a = [b + 1]; nothing(); stub(nothing, h1, b, /x+/, [a + 1], outer, F1); b = [a]; case { "!" -> { break outer; } "." -> { } } } h2(); }
''', 'same'))
    P.append(('empty-macro-yieldcode', '''// args: -fyield-support
yieldcode Y1, Y2;
out int n = 0;
out int k = 0;
macro later(yieldcode y, out n, expr k) { }
parser { loop { case { "a" -> { n = [k + 1]; later(Y1, k, [n + 9]); yield Y1; } "c" -> { k = [n + 2]; later(Y2, n, k); yield Y2; } } } }
''', 'same'))
    # many calls one after the other (not nested): nothing accumulates from call to call
    P.append(('empty-macro-70-sequential-calls', HEAD + 'macro t(out a) { }\nmacro it(expr b) { t(b); a = [a + b]; }\nparser { "k"; it(1); it(2); ";"; '
              + ' '.join('t(b);' for i in range(66)) + ' a = [a + b]; h1(); }\n', 'same'))
    P.append(('nonempty-macro-70-sequential-calls', HEAD + 'macro st(out a, expr b) { a = [a ^ b]; }\nparser { "k"; '
              + ' '.join(f'st(b, {i});' for i in range(70)) + ' ";"; h1(); }\n', 'same'))
    # the arguments of a call of an empty macro are checked like any others
    P.append(('empty-macro-wrong-kind', HEAD + 'macro stub(out x) { }\nparser { "x"; stub(h1); }\n', 'reject'))
    P.append(('empty-macro-wrong-kind-match', HEAD + 'macro stub(match x) { }\nparser { "x"; stub([a + 1]); }\n', 'reject'))
    P.append(('empty-macro-too-many-args', HEAD + 'macro stub(out x) { }\nparser { "x"; stub(a, b); }\n', 'reject'))
    P.append(('empty-macro-too-few-args', HEAD + 'macro stub(out x, expr y) { }\nparser { "x"; stub(a); }\n', 'reject'))
    return P


def forwarded_and_empty_variations(rnd, i):
    """seeded variations of the two families above"""
    P = []
    # forwarding chain of random depth with a random wrong (or, for the control, right) final kind
    akind = rnd.choice(['match', 'expr'])
    right = rnd.random() < 0.3
    ckind = akind if right else ('expr' if akind == 'match' else 'match')
    an, atext = rnd.choice(sorted((MATCH_ONLY if akind == 'match' else EXPR_ONLY).items()))
    uses = MATCH_CALLEE if ckind == 'match' else EXPR_CALLEE
    un = rnd.choice(['append', 'unused'] if not right else ['append'])
    if right and akind == 'expr' and an not in ('math', 'mathvar'):
        an, atext = 'math', EXPR_ONLY['math']       # the only expr spellings that `s += p` takes
    depth = rnd.randint(1, 3)
    names = ['x', 'p', 'y', 'q']
    src = HEAD + f'macro inner({ckind} p) {{ {uses[un]} }}\n'
    prev = 'inner'
    for d in range(depth):
        nm_ = rnd.choice(names)
        extra = rnd.choice(['', '"k"; ', 'h1(); '])
        src += f'macro f{d}({akind} {nm_}) {{ {extra}{prev}({nm_}); }}\n'
        prev = f'f{d}'
    src += f'parser {{ "<"; {prev}({atext}); ";"; }}\n'
    P.append((f'randfwd{i}-{akind}-{an}-to-{ckind}-{un}-depth{depth}', src, 'same' if right else 'reject'))
    # an empty macro with parameters named like globals, called at a random place of a random statement list
    k1, k2 = rnd.randint(1, 9), rnd.randint(1, 9)
    pa, pb = rnd.choice([('a', 'b'), ('b', 'a')])
    stmts = [f'a = [b + {k1}];', f'b = [a * {k2}];', 'a = [b];', f'if a > {k1} {{ h1(); }} else {{ b = [b + a]; }}', '"m";', f'b = [a - {k2}];', 'a = [a + b];']
    rnd.shuffle(stmts)
    call = f'stub({rnd.choice(["a", "b"])}, {rnd.choice(["[a + b]", "[a]", "[b * 3]", "7"])});'
    pos = rnd.randint(0, len(stmts))
    via = rnd.random() < 0.5
    body = stmts[:pos] + (['wrap(b, [a + 1]);'] if via else [call]) + stmts[pos:]
    src = HEAD + f'macro stub(out {pa}, expr {pb}) {{ }}\n'
    if via:
        inner_first = rnd.random() < 0.5
        rest = f'{pa} = [{pb} + {k1}];'
        src += f'macro wrap(out {pa}, expr {pb}) {{ {call + " " + rest if inner_first else rest + " " + call} }}\n'
    src += 'parser { "k"; ' + ' '.join(body) + ' ";"; h2(); }\n'
    P.append((f'randempty{i}', src, 'same'))
    return P
