"""Multi-call L3 runs: driving a chunk through <p>_feed (re-invoking after every YIELD code as the protocol prescribes) under
llsym, compositions of a chunk into parts (C02), protocol rules and comparison with the multi-byte abstract run (C10)."""
import time, itertools
import z3
from . import symx, absm, llsym, l3 as l3mod, stepcmp, cexpr as C
from .llsym import Ptr, bv
from .nm import N, End

OST = N.OutputStorageType


class Outcome:
    """one feasible way a driven chunk ends"""
    __slots__ = ('pc', 'mem', 'events', 'code', 'off', 'kind', 'why', 'calls')

    def __init__(self, pc, mem, events, code, off, kind='RET', why=None, calls=1):
        self.pc, self.mem, self.events, self.code, self.off, self.kind, self.why, self.calls = pc, mem, events, code, off, kind, why, calls


def _const(x):
    x = z3.simplify(x)
    if z3.is_bv_value(x):
        return x.as_long()
    return None


def call_feed(l3, mem, start, end, solver, base, stats, max_steps):
    fn = f'@{l3.name}_feed'
    if l3.indirect:
        mem.new('startcell', 8, kind='cell')
        # the caller hands over chunk[start:end): reading at or beyond `end` is outside the input chunk
        mem.cells[('startcell', 0)] = Ptr('chunk', bv(start, 64), 0, end)
        args = [Ptr('startcell', bv(0, 64)), Ptr('chunk', bv(end, 64), 0, end), Ptr('state', bv(0, 64))]
    else:
        args = [Ptr('chunk', bv(start, 64), 0, end), Ptr('chunk', bv(end, 64), 0, end), Ptr('state', bv(0, 64))]
    return llsym.Exec(l3.mod, fn, args, mem, solver, base, max_steps=max_steps, stats=stats, hook_snapshot=l3.hook_snapshot)


def drive(l3, mem, pc, events, start, end, solver, inv, stats, max_steps, max_reinv, depth=0, calls=0):
    """feed chunk[start:end) to completion. Returns list of Outcome; code is an index into l3.codes"""
    out = []
    if start == end and not (l3.cfg['ZERO_LEN_INPUT_SUPPORT'] or l3.cfg['YIELD_SUPPORT']):
        # a zero-length call is outside the protocol unless supported: nothing to do
        return [Outcome(pc, mem, events, l3.codes.index('OK'), start, calls=calls)]
    ex = call_feed(l3, mem.copy(), start, end, solver, list(inv) + list(pc), stats, max_steps)
    stats['c_calls'] = stats.get('c_calls', 0) + 1
    stats['mem_obl'] = stats.get('mem_obl', 0) + ex.n_obl
    for p in ex.paths:
        npc = list(pc) + list(p.pc)
        if p.kind != 'RET':
            out.append(Outcome(npc, p.mem, events + list(p.events), None, None, kind=p.kind, why=p.why, calls=calls + 1))
            continue
        code = _const(p.ret)
        if code is None:
            raise llsym.CannotEncode('return code not constant on a path')
        off = None
        if l3.indirect:
            off = _const(l3.start_offset(p.mem))
            if off is None:
                raise llsym.CannotEncode('*start offset not constant on a path')
        name = l3.codes[code] if code < len(l3.codes) else '?'
        ev = events + list(p.events)
        if name.startswith('YIELD_'):
            ev = ev + [('yield', name, off)]
            if depth >= max_reinv:
                out.append(Outcome(npc, p.mem, ev, code, off, kind='REINVOKE-UNWIND', calls=calls + 1))
                continue
            out += drive(l3, p.mem, npc, ev, off, end, solver, inv, stats, max_steps, max_reinv, depth + 1, calls + 1)
        else:
            out.append(Outcome(npc, p.mem, ev, code, off if off is not None else (end if name == 'OK' else None), calls=calls + 1))
    return out


def drive_parts(l3, mem, parts, solver, inv, stats, max_steps, max_reinv):
    """drive consecutive parts [(a,b),...] of the chunk; a terminal code stops the sequence"""
    cur = [Outcome([], mem, [], l3.codes.index('OK'), 0, calls=0)]
    for (a, b) in parts:
        nxt = []
        for o in cur:
            if o.kind != 'RET' or l3.codes[o.code] != 'OK':
                nxt.append(o)
                continue
            nxt += drive(l3, o.mem, o.pc, o.events, a, b, solver, inv, stats, max_steps, max_reinv, calls=o.calls)
        cur = nxt
    return cur


def mem_equal_conds(l3, m1, m2, tag=''):
    """conditions for two C memories to be observably equal (declared fields, string contents up to length, allocation state)"""
    conds = []
    L = l3.layout
    conds.append(('control state', l3.state_of(m1) == l3.state_of(m2)))
    s1, s2 = l3.snapshot(m1), l3.snapshot(m2)
    for n, o in l3.comp.spec.items():
        if n in L.ct:
            conds.append((f'value of {n}', s1[0][n] == s2[0][n]))
        else:
            l1, a1 = s1[1][n]
            l2, a2 = s2[1][n]
            conds.append((f'length of {n}', l1 == l2))
            if (a1 is None) != (a2 is None):
                conds.append((f'allocation state of {n}', z3.BoolVal(False)))
                continue
            if a1 is None:
                continue
            term = o.type == OST.STR and o.str_null
            k = z3.BitVec(f'k{tag}_{n}', 64)
            l64 = absm.idx64(l1)
            within = z3.ULE(k, l64) if term else z3.ULT(k, l64)
            conds.append((f'bytes of {n}', z3.Implies(z3.And(within, z3.ULT(k, L.size[n])), z3.Select(a1[0], a1[1] + k) == z3.Select(a2[0], a2[1] + k))))
    return conds


def snap_equal_cc(l3, s1, s2, tag):
    conds = []
    L = l3.layout
    for n, o in l3.comp.spec.items():
        if n in L.ct:
            conds.append((f'{tag} value of {n}', s1[0][n] == s2[0][n]))
        else:
            l1, a1 = s1[1][n]
            l2, a2 = s2[1][n]
            conds.append((f'{tag} length of {n}', l1 == l2))
            if a1 is None or a2 is None:
                if (a1 is None) != (a2 is None):
                    conds.append((f'{tag} allocation of {n}', z3.BoolVal(False)))
                continue
            term = o.type == OST.STR and o.str_null
            k = z3.BitVec(f'k_{tag}_{n}'.replace(' ', ''), 64)
            l64 = absm.idx64(l1)
            within = z3.ULE(k, l64) if term else z3.ULT(k, l64)
            conds.append((f'{tag} bytes of {n}', z3.Implies(z3.And(within, z3.ULT(k, L.size[n])), z3.Select(a1[0], a1[1] + k) == z3.Select(a2[0], a2[1] + k))))
    return conds


def outcome_equal_conds(l3, w, q):
    """whole-chunk outcome w vs composed outcome q"""
    conds = []
    if w.kind != 'RET' or q.kind != 'RET':
        # a memory fault / unwinding on both sides is not a chunking difference (it is C03's / C04's subject)
        same = w.kind == q.kind and not ('chunk' in (w.why or '') or 'chunk' in (q.why or ''))
        conds.append((f'both runs return (whole: {w.kind} {w.why}, split: {q.kind} {q.why})', z3.BoolVal(same)))
        return conds
    conds.append((f'final result code ({l3.codes[w.code]} vs {l3.codes[q.code]})', z3.BoolVal(w.code == q.code)))
    if l3.indirect:
        conds.append((f'final absolute offset ({w.off} vs {q.off})', z3.BoolVal(w.off == q.off)))
    if len(w.events) != len(q.events):
        conds.append((f'number of hook calls/yields ({len(w.events)} vs {len(q.events)})', z3.BoolVal(False)))
    else:
        for i, (a, b) in enumerate(zip(w.events, q.events)):
            if a[0] != b[0]:
                conds.append((f'event #{i} kind ({a[0]} vs {b[0]})', z3.BoolVal(False)))
                continue
            if a[0] == 'yield':
                conds.append((f'yield #{i} code/offset ({a[1:]} vs {b[1:]})', z3.BoolVal(a[1] == b[1] and a[2] == b[2])))
                continue
            for x, y in zip(a[1], b[1]):
                conds.append((f'hook #{i} argument', x == y))
            if a[2] is not None and b[2] is not None:
                conds += snap_equal_cc(l3, a[2], b[2], f'hook #{i}')
    terminal = l3.codes[w.code] in ('DONE',) or l3.codes[w.code].startswith('FINISH_')
    conds += [c for c in mem_equal_conds(l3, w.mem, q.mem) if not (terminal and c[0] == 'control state')]
    return conds


def compositions(n):
    """all compositions of n into >= 2 positive parts, as lists of (a,b) intervals"""
    out = []
    for k in range(1, n):
        for cuts in itertools.combinations(range(1, n), k):
            pts = [0] + list(cuts) + [n]
            out.append([(pts[i], pts[i + 1]) for i in range(len(pts) - 1)])
    return out


def overlap_pairs(solver, inv, A, B, pcB, d, key, on_pair):
    """for every a in A enumerate the b in B whose path condition overlaps a's (solver-guided), calling on_pair(a, b)"""
    for a in A:
        solver.push()
        solver.add(*inv, *a.pc)
        remaining = list(B)
        while True:
            t = time.time(); r0 = solver.check(); d['queries'] += 1; d['solver_time'] += time.time() - t
            if r0 == z3.unsat:
                break
            if r0 == z3.unknown:
                d['inconclusive'].append(f'{key} overlap enumeration'); break
            mdl0 = solver.model()
            b = None
            for cand in remaining:
                if z3.is_true(mdl0.eval(pcB[id(cand)], model_completion=True)):
                    b = cand; break
            if b is None:
                d['harness_errors'].append(f'paths do not cover the input space at {key}'); break
            remaining.remove(b)
            on_pair(a, b)
            solver.add(z3.Not(pcB[id(b)]))
        solver.pop()


def c02_state(l3, sidx, alloc, L, stats, max_reinv=None, timeout_ms=30000):
    """C02 at one control state: whole chunk of L symbolic bytes vs every composition"""
    d = stats.d
    findings = []
    solver = z3.Solver(); solver.set('timeout', timeout_ms)
    data, inv0 = l3.layout.symbolic()
    inv = stepcmp.pre_inv(l3, data, inv0, alloc)
    bs = [z3.BitVec(f'chunk_{i}', 8) for i in range(L)]
    mem = l3.image(sidx, data, alloc)
    l3.add_chunk(mem, L, symbols=bs)
    n = len(l3.comp.post.states)
    ms = 60 * (n + 4) * L
    mr = max_reinv or (n + 1)
    sx = {'queries': 0, 'solver_time': 0.0}
    whole = drive(l3, mem, [], [], 0, L, solver, inv, sx, ms, mr)
    key = f"{getattr(l3, 'label', '?')}@{sidx}/L{L}/{stepcmp._amask(alloc)}"
    d['cov']['states'] += 1
    d['cov']['whole_paths'] = d['cov'].get('whole_paths', 0) + len(whole)

    def witness(model):
        w = {'pre': stepcmp.model_pre(l3, model, data, sidx, alloc), 'bytes': [model.eval(b, model_completion=True).as_long() for b in bs]}
        return w
    for parts in compositions(L):
        comp_out = drive_parts(l3, mem, parts, solver, inv, sx, ms, mr)
        pcB = {id(q): (z3.And(*q.pc) if q.pc else z3.BoolVal(True)) for q in comp_out}
        d['cov']['transitions'] += len(comp_out)

        def on_pair(w, q, parts=parts):
            conds = outcome_equal_conds(l3, w, q)
            goal = z3.And(*[c for _, c in conds]) if conds else z3.BoolVal(True)
            d['obligations'] += 1
            d['cov']['pairs'] += 1
            solver.push(); solver.add(pcB[id(q)], z3.Not(goal))
            t = time.time(); r, mdl = symx.robust_check(solver); d['queries'] += 1; d['solver_time'] += time.time() - t
            solver.pop()
            if r == z3.unsat:
                d['discharged'] += 1
            elif r == z3.unknown:
                d['inconclusive'].append(f'C02 {key} {parts}')
            else:
                bad = [nm_ for nm_, c in conds if z3.is_false(mdl.eval(c, model_completion=True))]
                findings.append({'kind': 'c02-diff', 'what': 'result depends on chunking', 'detail': '; '.join(bad[:3]), 'parts': parts, **witness(mdl)})
        overlap_pairs(solver, inv, whole, comp_out, pcB, d, 'C02 ' + key, on_pair)
    d['queries'] += sx['queries']; d['solver_time'] += sx['solver_time']
    d['nontrivial'].append('c02:' + key)
    if len(d['samples']) < 5:
        d['samples'].append({'program': getattr(l3, 'label', '?'), 'state': sidx, 'chunk_len': L, 'compositions': [str(p) for p in compositions(L)],
                             'whole_call_paths': len(whole), 'first_whole_outcome': (l3.codes[whole[0].code] if whole and whole[0].kind == 'RET' else None)})
    return findings


# ------------------------------------------------------------------------------------------ C10
def abs_run(machine, l3, st, data, bs):
    """function for symx.explore: the abstract machine over bytes bs from (st, data). Returns (events, final code, offset)"""
    def fn(ctx):
        cur, dat = st, data
        events = []
        i = 0
        ub = []
        n = len(bs)
        guard = 0
        while i < n:
            guard += 1
            if guard > 4 * n + 8:
                return (events, 'UNWIND', i, cur, dat, ub)
            ev = []
            r = machine.dispatch(ctx, cur, bs[i], dat, ev)
            ub.append(r.ub.any())
            events += [('hook', e[1], e[2], e[3]) for e in ev]
            cur, dat = r.state, r.data
            if r.code == 'OK':
                i += 1
                continue
            if r.code.startswith('YIELD_'):
                if r.consumed:
                    i += 1
                events.append(('yield', r.code, i))
                continue
            if r.code == 'STUCK':
                return (events, 'OK', i, cur, dat, ub)     # C returns OK without consuming
            if r.code == 'FAIL':
                return (events, 'FAIL', i, cur, dat, ub)
            if r.code == 'DONE' or r.code.startswith('FINISH_'):
                return (events, r.code, i, cur, dat, ub)   # pointer stays on the byte being processed ("last byte read")
            return (events, r.code, i, cur, dat, ub)
        return (events, 'OK', n, cur, dat, ub)
    return fn


def c10_state(l3, machine, sidx, alloc, L, stats, timeout_ms=30000):
    d = stats.d
    findings = []
    solver = z3.Solver(); solver.set('timeout', timeout_ms)
    st = l3.comp.post.states[sidx]
    data, inv0 = l3.layout.symbolic()
    inv = stepcmp.pre_inv(l3, data, inv0, alloc)
    bs = [z3.BitVec(f'chunk_{i}', 8) for i in range(L)]
    mem = l3.image(sidx, data, alloc)
    l3.add_chunk(mem, L, symbols=bs)
    n = len(l3.comp.post.states)
    ms = 60 * (n + 4) * L
    sx = {'queries': 0, 'solver_time': 0.0}
    key = f"{getattr(l3, 'label', '?')}@{sidx}/L{L}/{stepcmp._amask(alloc)}"
    machine.null_strs = tuple(n for n, v in (alloc or {}).items() if not v)
    try:
        apaths = symx.explore(abs_run(machine, l3, st, data, bs), solver, assumptions=inv, stats=sx, max_paths=4000)
    except absm.Unsupported as e:
        d['cov'].setdefault('unsupported', []).append(f'state {sidx}: {e}')
        return findings
    outs = drive(l3, mem, [], [], 0, L, solver, inv, sx, ms, n + 1)
    d['queries'] += sx['queries']; d['solver_time'] += sx['solver_time']
    d['cov']['states'] += 1
    d['cov']['transitions'] += len(apaths)

    def witness(model):
        return {'pre': stepcmp.model_pre(l3, model, data, sidx, alloc), 'bytes': [model.eval(b, model_completion=True).as_long() for b in bs]}

    def ask(conds, pcs, name):
        goal = z3.And(*[c for _, c in conds]) if conds else z3.BoolVal(True)
        d['obligations'] += 1
        solver.push(); solver.add(*inv, *pcs, z3.Not(goal))
        t = time.time(); r, mdl = symx.robust_check(solver); d['queries'] += 1; d['solver_time'] += time.time() - t
        solver.pop()
        if r == z3.unsat:
            d['discharged'] += 1
            return None
        if r == z3.unknown:
            d['inconclusive'].append(f'C10 {key} {name}')
            return None
        bad = [nm_ for nm_, c in conds if z3.is_false(mdl.eval(c, model_completion=True))]
        return bad, mdl

    # rule: OK only after consuming the whole chunk (indirect: *start == end)
    for o in outs:
        if o.kind != 'RET':
            continue
        name = l3.codes[o.code]
        if name == 'OK' and l3.indirect:
            r = ask([('OK => *start == end', z3.BoolVal(o.off == L))], o.pc, 'ok-consumes-all')
            if r:
                findings.append({'kind': 'c10-ok', 'what': 'OK returned before the chunk end', 'detail': f'*start at {o.off} of {L}', **witness(r[1])})
    # comparison with the abstract run: codes, pointer positions, event trace incl. yields
    pcB = {id(o): (z3.And(*o.pc) if o.pc else z3.BoolVal(True)) for o in outs}

    class A:
        pass
    As = []
    for pc, res in apaths:
        a = A(); a.pc = list(pc) + [z3.Not(z3.Or(*res[5])) if res[5] else z3.BoolVal(True)]; a.res = res
        As.append(a)

    def on_pair(a, o):
        events, code, off, cur, dat, ub = a.res
        conds = []
        if o.kind == 'ABORT' and 'chunk' not in (o.why or ''):
            d['cov']['paths_skipped_memory_fault_reported_by_C03'] = d['cov'].get('paths_skipped_memory_fault_reported_by_C03', 0) + 1
            return
        if o.kind == 'ABORT':
            r = ask([(f'feed reads outside the chunk it was given ({o.why})', z3.BoolVal(False))], list(a.pc) + [pcB[id(o)]], 'reads-past-end')
            if r:
                findings.append({'kind': 'c10-diff', 'what': 'feed reads input outside [start, end) (e.g. on re-invocation after a yield at the chunk end)', 'detail': str(o.why)[:160], 'abs_code': a.res[1], **witness(r[1])})
            return
        if o.kind in ('UNWIND', 'REINVOKE-UNWIND'):
            d['cov']['paths_skipped_unwinding_reported_by_C04'] = d['cov'].get('paths_skipped_unwinding_reported_by_C04', 0) + 1
            return
        if o.kind != 'RET':
            conds.append((f'C run ends in {o.kind}: {o.why}', z3.BoolVal(False)))
        else:
            cname = l3.codes[o.code]
            conds.append((f'result code (abstract {code}, C {cname})', z3.BoolVal(cname == code)))
            if l3.indirect and cname == code:
                conds.append((f'*start position after {code} (abstract {off}, C {o.off})', z3.BoolVal(o.off == off)))
            if len(events) != len(o.events):
                conds.append((f'number of hook calls/yields (abstract {len(events)}, C {len(o.events)})', z3.BoolVal(False)))
            else:
                for i, (ae, ce) in enumerate(zip(events, o.events)):
                    if ae[0] == 'yield' or ce[0] == 'yield':
                        conds.append((f'event #{i}: yield code/offset (abstract {ae[1:3]}, C {ce[1:3]})', z3.BoolVal(ae[0] == ce[0] and ae[1] == ce[1] and ae[2] == ce[2])))
                        continue
                    want = f'@{l3.name}_{ae[1]}_hook'
                    if ce[0] != want:
                        conds.append((f'event #{i} is hook {ae[1]}', z3.BoolVal(False)))
                        continue
                    if ce[1]:
                        iv = ce[1][0]
                        conds.append((f'hook #{i} inval', iv == (z3.ZeroExt(iv.size() - 8, ae[2]) if iv.size() > 8 else ae[2])))
                    if ce[2] is not None:
                        conds += [(f'hook #{i}: {x}', c) for x, c in stepcmp.snap_equal_conds(l3, ae[3], ce[2])]
            terminal = code == 'DONE' or code.startswith('FINISH_')
            if not terminal and cur in l3.comp.post.index:
                conds.append(('stored state index', l3.state_of(o.mem) == l3.comp.post.index[cur]))
            conds += stepcmp.snap_equal_conds(l3, dat.snapshot(), l3.snapshot(o.mem))
        d['cov']['pairs'] += 1
        r = ask(conds, list(a.pc) + [pcB[id(o)]], 'abs-vs-c')
        if r:
            findings.append({'kind': 'c10-diff', 'what': 'codes / pointer / trace differ from the abstract machine over the chunk', 'detail': '; '.join(r[0][:3]), 'abs_code': code, **witness(r[1])})
    overlap_pairs(solver, inv, As, outs, pcB, d, 'C10 ' + key, on_pair)
    # FAIL is absorbing: any outcome FAIL -> a further feed of any byte and end() return FAIL and leave the state as it is
    for o in outs:
        if o.kind != 'RET' or l3.codes[o.code] != 'FAIL':
            continue
        m2 = o.mem.copy()
        nb = z3.BitVec('next_0', 8)
        l3.add_chunk(m2, 1, name='chunk', symbols=[nb])
        ex = call_feed(l3, m2, 0, 1, solver, list(inv) + list(o.pc), sx, ms)
        for p in ex.paths:
            conds = []
            if p.kind != 'RET':
                conds.append((f'call after FAIL ends in {p.kind}', z3.BoolVal(False)))
            else:
                conds.append(('feed after FAIL returns FAIL', p.ret == l3.codes.index('FAIL')))
                conds.append(('no hook call after FAIL', z3.BoolVal(len(p.events) == 0)))
                conds += [(f'after FAIL: {x}', c) for x, c in mem_equal_conds(l3, o.mem, p.mem, tag='f')]
                if l3.indirect:
                    conds.append(('*start unchanged by a call after FAIL', l3.start_offset(p.mem) == 0))
            r = ask(conds, list(o.pc) + list(p.pc), 'fail-absorbing')
            if r:
                w = witness(r[1]); w['next_byte'] = r[1].eval(nb, model_completion=True).as_long()
                findings.append({'kind': 'c10-fail', 'what': 'FAIL is not absorbing', 'detail': '; '.join(r[0][:3]), **w})
        if l3.eof:
            ex = l3.call1('end', o.mem.copy(), solver, list(inv) + list(o.pc), sx, max_steps=ms)
            for p in ex.paths:
                conds = [('end after FAIL returns FAIL', (p.ret == l3.codes.index('FAIL')) if p.kind == 'RET' else z3.BoolVal(False))]
                r = ask(conds, list(o.pc) + list(p.pc), 'fail-absorbing-end')
                if r:
                    w = witness(r[1]); w['next_call'] = 'end'
                    findings.append({'kind': 'c10-fail', 'what': 'FAIL is not absorbing', 'detail': '; '.join(r[0][:3]), **w})
    # ... and so is a FAIL returned by end(): end() from this state, then a further feed of any byte / a further end()
    if l3.eof:
        FAILC = l3.codes.index('FAIL')
        ex0 = l3.call1('end', l3.image(sidx, data, alloc), solver, list(inv), sx, max_steps=ms)
        for o in ex0.paths:
            if o.kind != 'RET':
                continue
            isfail = o.ret == FAILC if not isinstance(o.ret, int) else z3.BoolVal(o.ret == FAILC)
            if z3.is_false(z3.simplify(isfail)):
                continue
            opc = list(o.pc) + [isfail]
            m2 = o.mem.copy()
            nb = z3.BitVec('next_0', 8)
            l3.add_chunk(m2, 1, name='chunk', symbols=[nb])
            ex = call_feed(l3, m2, 0, 1, solver, list(inv) + opc, sx, ms)
            for p in ex.paths:
                conds = []
                if p.kind != 'RET':
                    conds.append((f'feed after end() returned FAIL ends in {p.kind}', z3.BoolVal(False)))
                else:
                    conds.append(('feed after end() returned FAIL returns FAIL', p.ret == FAILC))
                    conds.append(('no hook call after FAIL', z3.BoolVal(len(p.events) == 0)))
                    conds += [(f'after FAIL: {x}', c) for x, c in mem_equal_conds(l3, o.mem, p.mem, tag='e')]
                r = ask(conds, opc + list(p.pc), 'end-fail-absorbing')
                if r:
                    w = {'pre': stepcmp.model_pre(l3, r[1], data, sidx, alloc), 'bytes': [], 'calls': 'end, feed'}
                    w['next_byte'] = r[1].eval(nb, model_completion=True).as_long()
                    findings.append({'kind': 'c10-fail', 'what': 'FAIL returned by end() is not absorbing', 'detail': '; '.join(r[0][:3]), **w})
            ex = l3.call1('end', o.mem.copy(), solver, list(inv) + opc, sx, max_steps=ms)
            for p in ex.paths:
                conds = [('end after end() returned FAIL returns FAIL', (p.ret == FAILC) if p.kind == 'RET' else z3.BoolVal(False))]
                r = ask(conds, opc + list(p.pc), 'end-fail-absorbing-end')
                if r:
                    findings.append({'kind': 'c10-fail', 'what': 'FAIL returned by end() is not absorbing', 'detail': '; '.join(r[0][:3]),
                                     'pre': stepcmp.model_pre(l3, r[1], data, sidx, alloc), 'bytes': [], 'calls': 'end, end', 'next_call': 'end'})
    d['nontrivial'].append('c10:' + key)
    if len(d['samples']) < 5:
        d['samples'].append({'program': getattr(l3, 'label', '?'), 'state': sidx, 'chunk_len': L, 'abstract_paths': len(apaths), 'c_outcomes': len(outs),
                             'first_abstract_outcome': [apaths[0][1][1], apaths[0][1][2]] if apaths else None})
    return findings


def c04_yield_state(l3, sidx, alloc, stats, timeout_ms=20000):
    """C04, yield clause: from one control state, a 1-byte chunk driven with re-invocation after every yield code must stop yielding
    (consume the byte or end) within N+1 re-invocations"""
    d = stats.d
    findings = []
    solver = z3.Solver(); solver.set('timeout', timeout_ms)
    data, inv0 = l3.layout.symbolic()
    inv = stepcmp.pre_inv(l3, data, inv0, alloc)
    b = z3.BitVec('chunk_0', 8)
    mem = l3.image(sidx, data, alloc)
    l3.add_chunk(mem, 1, symbols=[b])
    n = len(l3.comp.post.states)
    sx = {'queries': 0, 'solver_time': 0.0}
    outs = drive(l3, mem, [], [], 0, 1, solver, inv, sx, 60 * (n + 4), n + 1)
    d['queries'] += sx['queries']; d['solver_time'] += sx['solver_time']
    d['obligations'] += 1
    hit = False
    for o in outs:
        if o.kind != 'REINVOKE-UNWIND':
            continue
        solver.push(); solver.add(*inv, *o.pc)
        r, mdl = symx.robust_check(solver); d['queries'] += 1
        solver.pop()
        if r == z3.sat:
            hit = True
            findings.append({'kind': 'c04-unwind', 'what': 'yield codes are returned over and over without the byte being consumed', 'detail': f'{n + 1} re-invocations at offset {o.off}',
                             'pre': stepcmp.model_pre(l3, mdl, data, sidx, alloc), 'sym': 'yield', 'byte': mdl.eval(b, model_completion=True).as_long()})
        elif r == z3.unknown:
            d['inconclusive'].append(f"C04 yield {getattr(l3, 'label', '?')}@{sidx}")
    if not hit:
        d['discharged'] += 1
        d['nontrivial'].append(f"c04yield:{getattr(l3, 'label', '?')}@{sidx}/{stepcmp._amask(alloc)}")
    return findings
