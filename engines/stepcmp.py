"""One-step checks at L3: from a concrete control state with symbolic data within Inv, one symbol (symbolic byte or End)
through the emitted C (llsym) and through the abstract machine (absm under symx); solver queries compare every pair of
overlapping paths (C06/C17), collect memory-safety obligation failures and post-invariant failures (C03) and unwinding
hits (C04)."""
import time, itertools
import z3
from . import symx, absm, llsym, l3 as l3mod, cexpr as C
from .nm import N, End

OST = N.OutputStorageType


def pre_inv(l3, data, inv, alloc):
    """representation invariant on the symbolic pre-state (beyond the range constraints in `inv`)"""
    out = list(inv)
    for n, o in l3.comp.spec.items():
        if n not in data.strs:
            continue
        s = data.strs[n]
        isdyn = o.type == OST.STR and l3.dynamic
        allocated = (not isdyn) or alloc is None or alloc.get(n, True)
        if not allocated:
            out.append(s.len == 0)
            if o.type == OST.STR and o.str_null:
                out.append(s.byte(0) == 0)   # a NULL buffer stands for the empty string
            continue
        if o.type == OST.STR and o.str_null:
            out.append(s.byte(s.len) == 0)
    return out


def alloc_masks(l3):
    ds = l3.dynstrs
    if not ds or not l3.ondemand:
        return [None]
    ms = [{n: True for n in ds}, {n: False for n in ds}]
    if len(ds) > 1:
        for n in ds:
            ms.append({k: (k != n) for k in ds})
            ms.append({k: (k == n) for k in ds})
    # dedupe; drop masks the representation invariant excludes (see L3.never_null)
    out = []
    for m in ms:
        if any(not m[n] for n in getattr(l3, 'never_null', ())):
            continue
        if m not in out:
            out.append(m)
    return out


def model_pre(l3, model, data, sidx, alloc):
    """concrete pre-state dict from a z3 model"""
    def ev(x):
        return model.eval(x, model_completion=True).as_long()
    pre = {'state': sidx, 'vals': {}, 'strs': {}}
    for n, v in data.vals.items():
        pre['vals'][n] = None if v is None else ev(v.v)
    for n, s in data.strs.items():
        pre['strs'][n] = {'len': ev(s.len), 'bytes': [ev(s.byte(i)) for i in range(l3.layout.size[n])],
                          'alloc': True if alloc is None else bool(alloc.get(n, True))}
    return pre


def snap_equal_conds(l3, asnap, csnap):
    """conditions (z3) for abstract snapshot == C snapshot"""
    conds = []
    L = l3.layout
    avals, astrs = asnap
    cvals, cstrs = csnap
    for n, o in l3.comp.spec.items():
        if n in L.ct:
            a = avals[n]
            if a is None:
                continue
            conds.append((f'value of {n}', a.v == cvals[n]))
        else:
            alen, aarr = astrs[n]
            clen, carr = cstrs[n]
            conds.append((f'length of {n}', alen == clen))
            term = o.type == OST.STR and o.str_null
            if carr is None:
                conds.append((f'{n} NULL => empty', alen == 0))
                continue
            # one universally quantified index k (fresh constant; existential in the negated query)
            k = z3.BitVec(f'k_{n}', 64)
            a64 = absm.idx64(alen)
            within = z3.ULE(k, a64) if term else z3.ULT(k, a64)
            conds.append((f'bytes of {n}', z3.Implies(z3.And(within, z3.ULT(k, L.size[n])), z3.Select(aarr, k) == z3.Select(carr[0], carr[1] + k))))
    return conds


def expected_conds(l3, res, path, sym_is_end, nbytes=1):
    """list of (name, cond) that the C path must satisfy given the abstract result"""
    conds = []
    code = res.code
    m = res  # noqa
    idx = l3.comp.post.index if hasattr(l3.comp, 'post') else {}
    cst = l3.state_of(path.mem)
    ret = path.ret
    off = l3.start_offset(path.mem) if (l3.indirect and not sym_is_end) else None

    def code_is(name):
        return ret == l3.codes.index(name)
    if code == 'STUCK':
        conds.append(('result code OK (stuck state)', code_is('OK')))
        if off is not None:
            conds.append(('*start unchanged', off == 0))
    elif code in ('UNWIND', 'TERM'):
        conds.append((f'abstract machine result {code}', z3.BoolVal(False)))
    else:
        if code not in l3.codes:
            conds.append((f'code {code} exists', z3.BoolVal(False)))
        else:
            conds.append((f'result code {code}', code_is(code)))
        terminal = code == 'DONE' or code.startswith('FINISH_')
        if not terminal:
            if res.state is absm.DEAD:
                conds.append(('stored state index (one past the last state: dead)', cst == len(l3.comp.post.states)))
            elif res.state in idx:
                conds.append(('stored state index', cst == idx[res.state]))
            else:
                conds.append(('successor state is in the machine', z3.BoolVal(False)))
        if off is not None:
            if code == 'OK':
                conds.append(('*start at chunk end after OK', off == nbytes))
            elif code == 'FAIL':
                conds.append(('*start on offending byte after FAIL', off == 0))
            elif terminal:
                conds.append(('*start on last byte read after DONE', off == 0))
            elif code.startswith('YIELD_'):
                conds.append(('*start after yield = bytes consumed', off == (1 if res.consumed else 0)))
    # data
    conds += snap_equal_conds(l3, res.data.snapshot(), l3.snapshot(path.mem))
    # events
    if len(res.events) != len(path.events):
        conds.append((f'number of hook calls ({len(res.events)} expected, {len(path.events)} in C)', z3.BoolVal(False)))
    else:
        for k, (ae, ce) in enumerate(zip(res.events, path.events)):
            want = f'@{l3.name}_{ae[1]}_hook'
            if ce[0] != want:
                conds.append((f'hook call #{k} is {ae[1]}', z3.BoolVal(False)))
                continue
            if ce[1]:
                iv = ce[1][0]
                conds.append((f'hook call #{k} inval', iv == (z3.ZeroExt(iv.size() - 8, ae[2]) if iv.size() > 8 else ae[2])))
            if ce[2] is not None:
                for nm_, c in snap_equal_conds(l3, ae[3], ce[2]):
                    conds.append((f'hook call #{k}: {nm_}', c))
    return conds


class StepStats:
    def __init__(self):
        self.d = {'obligations': 0, 'discharged': 0, 'queries': 0, 'solver_time': 0.0, 'nontrivial': [], 'samples': [],
                  'inconclusive': [], 'harness_errors': [], 'unreached': [], 'cov': {'states': 0, 'transitions': 0, 'c_paths': 0, 'abs_paths': 0,
                                                                                        'pairs': 0, 'mem_obligations': 0, 'mem_obligations_solver': 0}}


def step_state(l3, machine, sidx, sym_is_end, alloc, stats, want=('c06', 'c03', 'c04'), max_steps=None, timeout_ms=20000):
    """returns list of findings: dict(kind, detail, pre, byte, names...)"""
    findings = []
    d = stats.d
    solver = z3.Solver()
    solver.set('timeout', timeout_ms)
    st = l3.comp.post.states[sidx]
    data, inv0 = l3.layout.symbolic()
    inv = pre_inv(l3, data, inv0, alloc)
    b = z3.BitVec('chunk_0', 8)
    sym = End if sym_is_end else b
    sx = {'queries': 0, 'solver_time': 0.0}
    # vacuity: invariant satisfiable
    solver.push(); solver.add(*inv); r = solver.check(); solver.pop()
    if r != z3.sat:
        d['harness_errors'].append(f'pre-state invariant unsatisfiable at state {sidx}')
        return findings
    machine.null_strs = tuple(n for n, v in (alloc or {}).items() if not v)
    try:
        apaths = symx.explore(lambda ctx: machine.dispatch(ctx, st, sym, data), solver, assumptions=inv, stats=sx, max_paths=3000)
    except absm.Unsupported as e:
        d['cov'].setdefault('unsupported', []).append(f'state {sidx}: {e}')
        return findings
    mem = l3.image(sidx, data, alloc)
    if not sym_is_end:
        l3.add_chunk(mem, 1, symbols=[b])
    ms = max_steps or (60 * (len(l3.comp.post.states) + 4))
    if sym_is_end:
        ex = l3.call1('end', mem, solver, inv, sx, max_steps=ms)
    else:
        ex = l3.call_feed(mem, 1, solver, inv, sx, max_steps=ms)
    d['queries'] += sx['queries']; d['solver_time'] += sx['solver_time']
    d['cov']['states'] += 1
    d['cov']['transitions'] += len(apaths)
    d['cov']['c_paths'] += len(ex.paths); d['cov']['abs_paths'] += len(apaths)
    d['cov']['mem_obligations'] += ex.n_obl; d['cov']['mem_obligations_solver'] += ex.n_obl_solver
    symname = 'end' if sym_is_end else 'byte'
    key = f"{getattr(l3, 'label', '?')}@{sidx}/{symname}/{_amask(alloc)}"

    def witness(model):
        w = {'pre': model_pre(l3, model, data, sidx, alloc), 'sym': symname}
        if not sym_is_end:
            w['byte'] = model.eval(b, model_completion=True).as_long()
        return w

    def getmodel(conds):
        solver.push(); solver.add(*inv, *conds)
        t = time.time(); r, mdl = symx.robust_check(solver); d['queries'] += 1; d['solver_time'] += time.time() - t
        solver.pop()
        return r, mdl

    # ---- C03: memory obligations
    if 'c03' in want:
        d['obligations'] += ex.n_obl
        nfail = 0
        # with -funsafe-string-indexing an index outside the string (incl. any index into an unallocated buffer) is the program's
        # own precondition violation ("in-range only"): such inputs are excluded, using the abstract machine's definedness condition
        excl = []
        if machine.unsafe:
            ubg = [z3.And(*pc, res.ub.any()) for pc, res in apaths]
            excl = [z3.Not(z3.Or(*ubg))] if ubg else []
        for f in ex.fails:
            r, mdl = getmodel(list(f.pc) + [f.cond] + excl)
            if r == z3.sat:
                nfail += 1
                findings.append({'kind': 'c03-mem', 'what': f.kind, 'detail': f.detail, 'ins': f.ins, '_cond': list(f.pc) + [f.cond], '_data': data, '_byte': b, **witness(mdl)})
            elif r == z3.unknown:
                d['inconclusive'].append(f'C03 mem {key} {f.kind}')
        d['discharged'] += ex.n_obl - len(ex.fails)
        if ex.n_obl_solver:
            d['nontrivial'].append('c03mem:' + key)
        # post invariant on every returning path
        for p in ex.paths:
            if p.kind != 'RET':
                continue
            for nm_, c in l3.inv_post(p.mem) + l3.leak_conds(p.mem):
                d['obligations'] += 1
                cs = z3.simplify(c)
                if z3.is_true(cs):
                    d['discharged'] += 1
                    continue
                r, mdl = getmodel(list(p.pc) + [z3.Not(c)])
                if r == z3.unsat:
                    d['discharged'] += 1
                    d['nontrivial'].append('c03inv:' + key + ':' + nm_)
                elif r == z3.sat:
                    findings.append({'kind': 'c03-inv', 'what': 'post-state invariant', 'detail': nm_, '_cond': list(p.pc) + [z3.Not(c)], '_data': data, '_byte': b, **witness(mdl)})
                else:
                    d['inconclusive'].append(f'C03 inv {key} {nm_}')
    # ---- C04: unwinding
    if 'c04' in want:
        d['obligations'] += 1
        hit = False
        for p in ex.paths:
            if p.kind == 'UNWIND':
                r, mdl = getmodel(list(p.pc))
                if r == z3.sat:
                    hit = True
                    findings.append({'kind': 'c04-unwind', 'what': 'emitted C exceeds the re-dispatch bound', 'detail': f'{ms} IR blocks', **witness(mdl)})
        for pc, res in apaths:
            if res.code == 'UNWIND':
                r, mdl = getmodel(list(pc))
                if r == z3.sat:
                    hit = True
                    findings.append({'kind': 'c04-unwind', 'what': 'abstract machine exceeds the non-consuming move bound', 'detail': f'{machine.max_moves} moves', **witness(mdl)})
        if not hit:
            d['discharged'] += 1
            d['nontrivial'].append('c04:' + key)
    # ---- C06 / C17: pairwise comparison
    if 'c06' in want:
        cpaths = [p for p in ex.paths if p.kind != 'UNWIND']
        cpc = {id(p): (z3.And(*p.pc) if p.pc else z3.BoolVal(True)) for p in cpaths}
        for pc, res in apaths:
            ubc = res.ub.any()
            solver.push()
            solver.add(*inv, *pc, z3.Not(ubc))
            remaining = list(cpaths)
            while True:
                t = time.time(); r0 = solver.check(); d['queries'] += 1; d['solver_time'] += time.time() - t
                if r0 == z3.unsat:
                    break
                if r0 == z3.unknown:
                    d['inconclusive'].append(f'C06 {key} overlap enumeration')
                    break
                mdl0 = solver.model()
                p = None
                for cand in remaining:
                    if z3.is_true(mdl0.eval(cpc[id(cand)], model_completion=True)):
                        p = cand
                        break
                if p is None:
                    # an input of the abstract path that no returning/aborting C path covers (only unwinding paths can be missing)
                    if any(q.kind == 'UNWIND' for q in ex.paths):
                        break
                    d['harness_errors'].append(f'C paths do not cover the input space at {key}')
                    break
                remaining.remove(p)
                d['cov']['pairs'] += 1
                if p.kind != 'RET':
                    conds = [(f'C path ends in {p.kind}: {p.why}', z3.BoolVal(False))]
                else:
                    conds = expected_conds(l3, res, p, sym_is_end)
                goal = z3.And(*[c for _, c in conds]) if conds else z3.BoolVal(True)
                d['obligations'] += 1
                solver.push()
                solver.add(cpc[id(p)], z3.Not(goal))
                t = time.time(); r, mdl = symx.robust_check(solver); d['queries'] += 1; d['solver_time'] += time.time() - t
                solver.pop()
                if r == z3.unsat:
                    d['discharged'] += 1
                elif r == z3.unknown:
                    d['inconclusive'].append(f'C06 {key}')
                else:
                    bad = [nm_ for nm_, c in conds if z3.is_false(mdl.eval(c, model_completion=True))]
                    findings.append({'kind': 'c06-diff', 'what': 'emitted C differs from the abstract machine', 'detail': '; '.join(bad[:4]) or 'path overlap',
                                     'abs_code': res.code, **witness(mdl)})
                solver.add(z3.Not(cpc[id(p)]))
            solver.pop()
        d['nontrivial'].append('c06:' + key)
    if len(d['samples']) < 6 and apaths:
        d['samples'].append({'program': getattr(l3, 'label', '?'), 'state': sidx, 'symbol': symname, 'alloc': _amask(alloc), 'abstract_paths': len(apaths),
                             'c_paths': len(ex.paths), 'first_abstract_pc': str(z3.simplify(z3.And(*apaths[0][0])))[:200] if apaths[0][0] else 'true',
                             'first_abstract_result': apaths[0][1].code})
    return findings


def _amask(alloc):
    if alloc is None:
        return '-'
    return ''.join('A' if v else 'N' for _, v in sorted(alloc.items()))


def start_check(l3, stats, timeout_ms=20000):
    """<p>_start on completely arbitrary memory: safety obligations + establishes Inv"""
    d = stats.d
    findings = []
    solver = z3.Solver(); solver.set('timeout', timeout_ms)
    mem = l3.raw_image()
    sx = {'queries': 0, 'solver_time': 0.0}
    ex = l3.call1('start', mem, solver, [], sx, max_steps=4000)
    d['queries'] += sx['queries']; d['solver_time'] += sx['solver_time']
    d['obligations'] += ex.n_obl
    d['discharged'] += ex.n_obl - len(ex.fails)
    d['cov']['mem_obligations'] += ex.n_obl
    label = getattr(l3, 'label', '?')
    for f in ex.fails:
        findings.append({'kind': 'c03-mem', 'what': f.kind, 'detail': f.detail, 'ins': f.ins, 'sym': 'start', 'pre': {'state': -1, 'vals': {}, 'strs': {}}})
    for p in ex.paths:
        if p.kind != 'RET':
            continue
        for nm_, c in l3.inv_post(p.mem) + l3.leak_conds(p.mem):
            n0 = nm_.split(' ')[1] if nm_.startswith(('bool ', 'enum ')) else None
            if n0 is not None and l3.comp.spec[n0].default_value is None:
                continue   # outputs without a default are indeterminate after start() by design (documented: no defaults for enums)
            d['obligations'] += 1
            solver.push(); solver.add(*p.pc, z3.Not(c))
            r, mdl = symx.robust_check(solver); d['queries'] += 1
            solver.pop()
            if r == z3.unsat:
                d['discharged'] += 1
                d['nontrivial'].append(f'c03start:{label}:{nm_}')
            elif r == z3.sat:
                findings.append({'kind': 'c03-inv', 'what': 'start() does not establish the invariant', 'detail': nm_, 'sym': 'start', 'pre': {'state': -1, 'vals': {}, 'strs': {}}})
            else:
                d['inconclusive'].append(f'C03 start {label} {nm_}')
    return findings


def free_check(l3, stats, timeout_ms=20000):
    """<p>_free from any Inv state: every live buffer freed exactly once, pointers NULL, a second call is harmless"""
    d = stats.d
    findings = []
    if not l3.dynamic:
        return findings
    label = getattr(l3, 'label', '?')
    for alloc in alloc_masks(l3):
        solver = z3.Solver(); solver.set('timeout', timeout_ms)
        data, inv0 = l3.layout.symbolic()
        inv = pre_inv(l3, data, inv0, alloc)
        mem = l3.image(0, data, alloc)
        sx = {'queries': 0, 'solver_time': 0.0}
        ex = l3.call1('free', mem, solver, inv, sx)
        d['obligations'] += ex.n_obl; d['discharged'] += ex.n_obl - len(ex.fails)
        pre = {'state': 0, 'vals': {}, 'strs': {}}
        for f in ex.fails:
            findings.append({'kind': 'c03-mem', 'what': f.kind, 'detail': f.detail, 'ins': f.ins, 'sym': 'free', 'pre': pre, 'alloc': _amask(alloc)})
        for p in ex.paths:
            if p.kind != 'RET':
                continue
            conds = [(f'{n}: pointer NULL after free()', z3.BoolVal(isinstance(l3.str_ptr(p.mem, n), llsym.Ptr) and l3.str_ptr(p.mem, n).obj is None)) for n in l3.dynstrs]
            conds.append(('no heap object left live after free()', z3.BoolVal(not l3.live_heap(p.mem))))
            for nm_, c in conds:
                d['obligations'] += 1
                if z3.is_true(z3.simplify(c)):
                    d['discharged'] += 1
                else:
                    findings.append({'kind': 'c03-inv', 'what': 'free() leaves memory behind', 'detail': nm_, 'sym': 'free', 'pre': pre, 'alloc': _amask(alloc)})
            ex2 = l3.call1('free', p.mem.copy(), solver, list(inv) + list(p.pc), sx)
            d['obligations'] += ex2.n_obl; d['discharged'] += ex2.n_obl - len(ex2.fails)
            for f in ex2.fails:
                findings.append({'kind': 'c03-mem', 'what': 'second free(): ' + f.kind, 'detail': f.detail, 'ins': f.ins, 'sym': 'free', 'pre': pre, 'alloc': _amask(alloc)})
        d['queries'] += sx['queries']; d['solver_time'] += sx['solver_time']
        d['nontrivial'].append(f'c03free:{label}:{_amask(alloc)}')
    return findings
