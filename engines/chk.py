"""Common check infrastructure: evidence, known findings, violation reporting, exit codes.

Exit codes: 0 held on everything explored (known findings printed); 1 + VIOLATION line for a replayed,
unlisted violation; 2 harness error / inconclusive (never expected on the unchanged tree).
"""
import json, os, sys, time, hashlib, re, traceback, fnmatch

VERIF = os.path.dirname(os.path.dirname(os.path.abspath(__file__)))
REPO = os.environ.get('VERIF_REPO', '/repo')
# runs against seeded changes (tools/seedtest.py) redirect evidence and replays so that the committed evidence only ever comes from /repo itself
# VERIF_ONLY=<substring> (debugging aid): run only the programs whose label contains it; such partial runs never touch the committed evidence
ONLY = os.environ.get('VERIF_ONLY') or None
_scratch = os.path.join(os.environ.get('TMPDIR', '/tmp'), 'verif-partial') if ONLY else None
EVID = os.environ.get('VERIF_EVIDENCE_DIR') or (os.path.join(_scratch, 'evidence') if ONLY else os.path.join(VERIF, 'evidence'))
REPLAYS = os.environ.get('VERIF_REPLAYS_DIR') or (os.path.join(_scratch, 'replays') if ONLY else os.path.join(VERIF, 'replays'))
KNOWN = os.path.join(VERIF, 'known_findings.json')

EXIT_OK, EXIT_VIOLATION, EXIT_HARNESS = 0, 1, 2


def seed():
    try:
        return int(os.environ.get('VERIF_SEED', '0'))
    except ValueError:
        return 0


def tier_from_env(default='quick'):
    t = os.environ.get('VERIF_TIER', default)
    return t if t in ('quick', 'thorough') else default


def ncpu():
    try:
        return int(os.environ.get('VERIF_JOBS', '') or (os.cpu_count() or 4))
    except ValueError:
        return 4


def load_known():
    if not os.path.exists(KNOWN):
        return []
    with open(KNOWN) as f:
        return json.load(f).get('findings', [])


def _region_holds(expr, witness):
    """`region` is a python expression over the witness' fields (restricted eval)."""
    if not expr:
        return True
    env = {'__builtins__': {}, 'len': len, 'any': any, 'all': all, 'max': max, 'min': min, 're': re, 'str': str,
           'int': int, 'sorted': sorted, 'set': set, 'isinstance': isinstance, 'list': list, 'dict': dict, 'bytes': bytes}
    loc = dict(witness)
    loc['w'] = witness
    try:
        return bool(eval(expr, env, loc))
    except Exception:
        return False


class Run:
    """One run of one property check."""

    def __init__(self, pid, tier, level, engine_desc):
        self.pid, self.tier, self.level = pid, tier, level
        self.t0 = time.time()
        self.engine_desc = engine_desc
        self.obligations = 0          # solver obligations generated
        self.discharged = 0           # ... decided (unsat / confirmed)
        self.inconclusive = []        # names of undecided obligations
        self.nontrivial = set()       # distinct non-trivial obligation keys
        self.samples = []
        self.violations = []          # unlisted, replayed
        self.known_seen = []          # (finding id, text)
        self.unreached = []           # candidates from unreachable pre-states etc.
        self.harness_errors = []
        self.solver_time = 0.0
        self.queries = 0
        self.cov = {}                 # extra coverage keys
        self.assumptions = []
        self.functions = []
        self.bounds = {}
        self.known = [k for k in load_known() if k.get('property') == pid]
        self.fixed_checked = []

    # ---- bookkeeping -------------------------------------------------
    def sample(self, s, limit=12):
        if len(self.samples) < limit:
            self.samples.append(s)

    def ob(self, key=None, discharged=True, n=1, nontrivial=True):
        self.obligations += n
        if discharged:
            self.discharged += n
        if key is not None and nontrivial:
            self.nontrivial.add(key)

    def inconc(self, name):
        self.obligations += 1
        self.inconclusive.append(str(name))

    def merge_stats(self, d):
        """merge a worker's dict of counters"""
        self.obligations += d.get('obligations', 0)
        self.discharged += d.get('discharged', 0)
        self.queries += d.get('queries', 0)
        self.solver_time += d.get('solver_time', 0.0)
        for k in d.get('nontrivial', ()):
            self.nontrivial.add(k)
        for s in d.get('samples', ()):
            self.sample(s)
        for i in d.get('inconclusive', ()):
            self.inconclusive.append(i)
        for h in d.get('harness_errors', ()):
            self.harness_errors.append(h)
        for u in d.get('unreached', ()):
            self.unreached.append(u)
        for k, v in d.get('cov', {}).items():
            if isinstance(v, (int, float)):
                self.cov[k] = self.cov.get(k, 0) + v
            elif isinstance(v, list):
                self.cov.setdefault(k, []).extend(v)
            else:
                self.cov[k] = v

    # ---- findings ----------------------------------------------------
    def match_known(self, obligation, witness):
        for k in self.known:
            if k.get('status', 'open') != 'open':
                continue
            if not fnmatch.fnmatchcase(obligation, k.get('obligation', '*')):
                continue
            if _region_holds(k.get('region'), witness):
                return k
        return None

    def violation(self, obligation, witness, what):
        """A replayed (reproduced on the real code) violation. witness: json-able dict."""
        k = self.match_known(obligation, witness)
        if k is not None:
            if k['id'] not in [x[0] for x in self.known_seen]:
                self.known_seen.append((k['id'], k.get('what', what)))
                print(f"KNOWN-FINDING: property={self.pid} {k['id']}: {k.get('what', what)}", flush=True)
            return 'known'
        os.makedirs(os.path.join(REPLAYS, self.pid), exist_ok=True)
        h = hashlib.sha1(json.dumps([obligation, witness], sort_keys=True, default=str).encode()).hexdigest()[:10]
        path = os.path.join(REPLAYS, self.pid, re.sub(r'[^A-Za-z0-9_.-]+', '_', obligation)[:60] + '-' + h + '.json')
        with open(path, 'w') as f:
            json.dump({'property': self.pid, 'obligation': obligation, 'what': what, 'witness': witness}, f, indent=1, default=str)
        if len(self.violations) < 50:
            self.violations.append({'obligation': obligation, 'what': what, 'replay': path})
        print(f"VIOLATION property={self.pid} replay={path}", flush=True)
        print(f"  {obligation}: {what}", flush=True)
        return 'new'

    def harness_error(self, msg):
        self.harness_errors.append(str(msg)[:2000])
        print(f"HARNESS-ERROR property={self.pid} {str(msg)[:600]}", file=sys.stderr, flush=True)

    def stale_known(self):
        """open findings that were not seen in this run (reported, not an error: a check tier may not reach all)"""
        seen = {x[0] for x in self.known_seen}
        return [k['id'] for k in self.known if k.get('status', 'open') == 'open' and k['id'] not in seen]

    # ---- finish ------------------------------------------------------
    def finish(self, explanation):
        wall = time.time() - self.t0
        cov = dict(self.cov)
        nt = len(self.nontrivial)
        cov.setdefault('evaluations', max(self.obligations, 1))
        cov.setdefault('distinct_nontrivial', nt)
        cov.setdefault('rule', 'an obligation is one solver query (or one CrossHair condition) over the symbolic variables named in '
                       'DESIGN.md; it is non-trivial when its path condition and goal mention at least one symbolic variable and '
                       'the query was actually sent to the solver (not constant-folded); distinct = distinct obligation keys')
        cov['obligations'] = self.obligations
        cov['discharged'] = self.discharged
        cov['inconclusive'] = self.inconclusive[:40]
        cov['n_inconclusive'] = len(self.inconclusive)
        cov['solver_queries'] = self.queries
        cov['solver_time_s'] = round(self.solver_time, 2)
        cov['samples'] = self.samples if self.samples else ['(none)']
        cov['explanation'] = explanation
        cov['functions_encoded'] = self.functions
        cov['bounds'] = self.bounds
        cov['known_findings_seen'] = [list(x) for x in self.known_seen]
        cov['known_findings_not_reached_this_run'] = self.stale_known()
        cov['fixed_regressions_checked'] = self.fixed_checked
        cov['unreached_candidates'] = self.unreached[:20]
        cov['violations_detail'] = self.violations[:20]
        cov['harness_errors'] = self.harness_errors[:10]
        cov['engine'] = self.engine_desc
        cov.setdefault('checker_cmd', 'z3 %s (python3-vt); see engine' % _z3ver())
        cov.setdefault('trusted_base', ['z3', 'CPython', 'lark', 'clang/opt 14 (lowering of emitted C)', 'the oracle models named in DESIGN.md'])
        ev = {'property_id': self.pid, 'tier': self.tier, 'seed': seed(), 'level': self.level, 'coverage': cov,
              'assumptions': self.assumptions, 'wall_s': round(wall, 2), 'violations': len(self.violations)}
        os.makedirs(EVID, exist_ok=True)
        with open(os.path.join(EVID, self.pid + '.json'), 'w') as f:
            json.dump(ev, f, indent=1, default=str)
        if self.violations:
            code = EXIT_VIOLATION
        elif self.harness_errors or self.inconclusive:
            code = EXIT_HARNESS
            if self.inconclusive and not self.harness_errors:
                print(f"INCONCLUSIVE property={self.pid} undischarged={len(self.inconclusive)} e.g. {self.inconclusive[:3]}", file=sys.stderr)
        else:
            code = EXIT_OK
        print(f"[{self.pid}] tier={self.tier} obligations={self.obligations} discharged={self.discharged} "
              f"nontrivial={nt} known={len(self.known_seen)} violations={len(self.violations)} "
              f"inconclusive={len(self.inconclusive)} harness_errors={len(self.harness_errors)} wall={wall:.1f}s exit={code}", flush=True)
        return code


def _z3ver():
    try:
        import z3
        return z3.get_version_string()
    except Exception:
        return '?'


def main_wrapper(fn):
    """run a check main(tier) -> exit code, mapping unexpected exceptions to the harness-error code"""
    import argparse
    ap = argparse.ArgumentParser()
    ap.add_argument('--tier', default=tier_from_env())
    ap.add_argument('--replay', default=None)
    a = ap.parse_args()
    try:
        code = fn(a.tier, a.replay)
    except SystemExit:
        raise
    except Exception:
        traceback.print_exc()
        print("HARNESS-ERROR unexpected exception in check", file=sys.stderr)
        code = EXIT_HARNESS
    sys.exit(code)
