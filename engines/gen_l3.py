"""Seeded, feature-directed generator of small nmfu programs for the L3 checks (C02, C03, C04, C06, C10, C12, C17): the statement
language of gen_c01 plus what only the emitted C can get wrong -- yields, end patterns, strings with defaults and unterminated
strings, raw outputs, enum outputs, index expressions, constant assignments of every length up to the capacity, computed-character
appends, conditional breaks inside action-only ifs, outofspace handlers that continue, statements before the first match.
Programs carry the flags they need in their `// args:` line (the check's configuration flags are added to those).
The programs are an ENUMERATED dimension: what the solver decides is, per program, every state x byte x data value."""
import random

PATS = ['"a"', '"ab"', '"ba"', '"c"', '/a+/', '/[ab]/', '/b*c/', '/[^c]/', '/a?b/', '"A"i', '/(ab|c)/', '/\\d+/', '/./', '"\\x80"', '"\\x00a"',
        'b/[80-83 ff]/', '"aB"i', 'b/00|ff/', '/[a-f]x/', '/[^ab]b/', '"abc"']
WAITS = ['"ab"', '"c"', '/a[bc]/', '"aB"i', '"aab"']
HDR = ('out str[3] s; out str[4] t = "x"; out unterminated str[2] w; out int n = 0; out int{unsigned, size 1} u = 0; out int{size 2} v = 7; out bool f = false;\n'
       'out enum{P,Q,R} e; hook h; hook g; finishcode X, Y, Z;\n')
CONDS = ['n > 1', 's.len == 2', 'f && u > 2', 'e == Q', 't[0] == 120', 'u % 3 == 1', '!f', 'w.len >= 2', 'n + u > 3', 's[1] > 127', 'v < 0']
EXPRS = ['n + 1', 'u * 2 + 1', '$last', 's[0]', 't[1] + 1', 'n - u', 'u >> 1', 'n & 15', 's.len', '(n + 65) % 128', 'w[1]', 'v * 3', '0 - n', 't[3]', 's[2] | 32']


def programs(seed, count, yields=True, eof=True):
    rnd = random.Random(seed * 1000003 + 4099)

    def pat():
        return rnd.choice(PATS)

    def stmts(d, inloop, feat):
        out = []
        for _ in range(rnd.randint(1, 3)):
            out.append(stmt(d, inloop, feat))
            if out[-1].startswith(('finish ', 'break;')):
                break
        return ' '.join(out)

    def action(inloop, feat):
        k = rnd.random()
        if k < 0.14:
            return 'n = [' + rnd.choice(EXPRS) + '];'
        if k < 0.22:
            return 'u = [' + rnd.choice(EXPRS) + '];'
        if k < 0.27:
            return 'v = [' + rnd.choice(EXPRS) + '];'
        if k < 0.37:
            return rnd.choice(['h();', 'g();'])
        if k < 0.42:
            return rnd.choice(['f = true;', 'f = false;', 'f = [n > u];'])
        if k < 0.48:
            return 'e = ' + rnd.choice('PQR') + ';'
        if k < 0.58:
            return rnd.choice(['s', 't', 'w']) + ' += [' + rnd.choice(EXPRS) + '];'
        if k < 0.68:
            return rnd.choice(['s = "";', 's = "a";', 's = "ab";', 's = "abc";', 't = "abcd";', 't = "\\xff";', 'w = "ab";', 'w = "a";', 't = "";'])
        if k < 0.76:
            return 'delete ' + rnd.choice(['s', 't', 'w']) + ';'
        if k < 0.84 and inloop:
            return 'if ' + rnd.choice(CONDS) + ' { break; }'
        if k < 0.90:
            return 'if ' + rnd.choice(CONDS) + ' { ' + action(False, feat) + ' } else { ' + action(False, feat) + ' }'
        if k < 0.95 and feat['yield']:
            feat['used_yield'] = True
            return 'yield ' + rnd.choice('ABC') + ';'
        if k < 0.97:
            return 'finish ' + rnd.choice('XYZ') + ';'
        if inloop:
            return 'break;'
        return 'n = [n + 1];'

    def stmt(d, inloop, feat):
        k = rnd.random()
        if d <= 0 or k < 0.22:
            return pat() + ';'
        if k < 0.32:
            return rnd.choice(['s', 't', 'w']) + ' += ' + pat() + ';'
        if k < 0.52:
            return action(inloop, feat)
        if k < 0.59:
            return 'optional { ' + pat() + '; ' + stmts(d - 1, inloop, feat) + ' }'
        if k < 0.68:
            return 'loop { ' + pat() + '; ' + stmts(d - 1, True, feat) + ' }'
        if k < 0.78:
            cls = []
            greedy = rnd.random() < 0.2
            for i in range(rnd.randint(1, 3)):
                labels = pat() if rnd.random() < 0.7 else pat() + ', ' + pat()
                prio = ('prio %d ' % rnd.randint(1, 3)) if greedy and rnd.random() < 0.6 else ''
                cls.append(prio + labels + ' -> { ' + (stmts(d - 1, inloop, feat) if rnd.random() < 0.7 else '') + ' }')
            if feat['eof'] and rnd.random() < 0.3:
                feat['used_eof'] = True
                cls.append('end -> { ' + (action(inloop, feat) if rnd.random() < 0.7 else '') + ' }')
            if rnd.random() < 0.5:
                cls.append('else -> { ' + (stmts(d - 1, inloop, feat) if rnd.random() < 0.6 else '') + ' }')
            return ('greedy ' if greedy else '') + 'case { ' + ' '.join(cls) + ' }'
        if k < 0.87:
            return 'try { ' + pat() + '; ' + stmts(d - 1, inloop, feat) + ' } catch' + rnd.choice(['', ' (nomatch)', ' (outofspace)', ' (outofspace)']) + ' { ' + (stmts(d - 1, inloop, feat) if rnd.random() < 0.7 else '') + ' }'
        if k < 0.92:
            return 'if ' + rnd.choice(CONDS) + ' { ' + stmts(d - 1, inloop, feat) + ' } else { ' + stmts(d - 1, inloop, feat) + ' }'
        if k < 0.95:
            return 'foreach { ' + pat() + '; } do { ' + rnd.choice(['n = [n + $last];', 'u = [u + 1];', 's += [$last + 1];', 'w += [$last];']) + ' }'
        if k < 0.97 and feat['eof']:
            feat['used_eof'] = True
            return 'end;'
        return 'wait ' + rnd.choice(WAITS) + ';'
    out = []
    for i in range(count):
        feat = {'yield': yields and rnd.random() < 0.35, 'eof': eof and rnd.random() < 0.35}
        lead = ''
        if rnd.random() < 0.25:
            lead = ' '.join(action(False, dict(feat, **{'yield': False})) for _ in range(rnd.randint(1, 2))) + ' '
            # statements before the first match run in start(): there no byte has been read and outputs without a default hold whatever the
            # memory held, so a lead that reads $last, the enum output or string bytes (beyond the current length) makes the program depend on
            # unspecified data - its own precondition violation, not a property of nmfu. (The random stream is consumed as before.)
            if 'finish' in lead or any(tok in lead for tok in ('$last', 'e ==', 's[', 't[', 'w[')):
                lead = ''
        body = lead + pat() + '; ' + stmts(rnd.choice([2, 2, 3]), False, feat)
        args = []
        hdr = HDR
        if feat.get('used_yield'):
            args.append('-fyield-support')
            hdr += 'yieldcode A, B, C;\n'
        if feat.get('used_eof'):
            args.append('-feof-support')
        out.append(('// args: ' + ' '.join(args) + '\n' if args else '') + hdr + 'parser { ' + body + ' }\n')
    return out
