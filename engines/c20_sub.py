"""subprocess body for C20: compiles one program under several in-process histories with the real compiler and pickles the
machines. argv: out.pk program.nmfu other1.nmfu other2.nmfu ... ; flags come from the program's own // args line."""
import sys, pickle, gc, os
sys.setrecursionlimit(200000)
sys.path.insert(0, os.path.dirname(os.path.dirname(os.path.abspath(__file__))))
from engines import nm


def pack(c):
    d = {'verdict': c.verdict, 'error': c.error[0] if c.error else None}
    if c.verdict == 'ok':
        d.update(post=c.post, spec=c.spec, cfg=c.cfg, source=c.source)
    return d


def main():
    out, prog, others = sys.argv[1], sys.argv[2], sys.argv[3:]
    src = nm.read(prog)
    extra = tuple(x for x in os.environ.get('C20_FLAGS', '').split() if x)
    res = {}
    res['fresh'] = pack(nm.compile_src(src, extra))
    junk = []
    for o in others:
        try:
            nm.compile_src(nm.read(o))
        except Exception:
            pass
        junk.append([object() for _ in range(1000)])
    res['after-others'] = pack(nm.compile_src(src, extra))
    del junk
    gc.collect()
    pad = [bytearray(64) for _ in range(5000)]
    del pad[::2]
    res['twice-1'] = pack(nm.compile_src(src, extra))
    res['twice-2'] = pack(nm.compile_src(src, extra))
    gc.collect()
    with open(out, 'wb') as f:
        pickle.dump(res, f)


if __name__ == '__main__':
    main()
