"""subprocess body for C20: compiles one program under several in-process histories with the real compiler and pickles the
machines. argv: out.pk program.nmfu other1.nmfu other2.nmfu ... ; flags come from the program's own // args line (+ C20_FLAGS).

Histories (C20_HISTORIES selects them, default all; `fresh` is always there):
  fresh                 first compilation of the process
  base: after-others          after k other programs (accepted or rejected) with allocation noise
        twice-1 / twice-2     twice in a row after GC / allocation perturbation
  after-rejected-expr   after a program rejected in the body of one macro whose `expr` arguments are called like the outputs of the
                        program under test
  after-rejected-macro  (in addition) after programs that the compiler REJECTS while it is expanding (nested) macros whose argument names are
                        exactly the global names of the program under test (one argument kind per nesting level: expr, match,
                        out, hook, macro, loop, finishcode, yieldcode), i.e. the worst-case leftover of an aborted expansion;
                        also after programs rejected in the middle of named loops / try / case / foreach / if blocks
  after-options         after compilations of another program (thorough tier: and of the program itself) under other option sets: higher and
                        lower -O levels, other -f/-fno- flags; then the program with its own options
"""
import sys, pickle, gc, os
sys.setrecursionlimit(200000)
sys.path.insert(0, os.path.dirname(os.path.dirname(os.path.abspath(__file__))))
from engines import nm

N = nm.N

# option sets used by the 'after-options' history, in this order: a lower level than any program's own with flags switched on, the
# highest level, and an intermediate level with one flag of a higher level switched on and one of a lower level switched off
OPTION_SETS = [
    ('-O0', '-feof-support', '-fyield-support', '-fzero-len-input-support'),
    ('-O3',),
    ('-O2', '-fstrict-done-token-generation', '-findirect-start-ptr', '-fshortcircuit-fallthroughs', '-fno-remove-inaccesible-states'),
]


OPTION_HISTORY_PROGRAM = """out int n = 0;
out str[8] word;
parser {
    optional { "x"; }
    case {
        "GET" -> { n = 1; }
        "PUT", "POST" -> { n = 2; }
        else -> { n = 3; }
    }
    " ";
    word += /[a-z]+/;
    "\\r\\n";
}
"""


def config_now():
    try:
        return {f.name: bool(N.ProgramData.do(f)) for f in N.ProgramFlag}, {o.name: N.ProgramData.option(o) for o in N.ProgramOption}
    except Exception as e:  # configuration not loaded
        return {'<unreadable>': type(e).__name__}, {}


def _plain(x, depth=0):
    """address-free rendering of a declaration attribute"""
    if isinstance(x, (str, bytes, int, float, bool, type(None))):
        return repr(x)
    if isinstance(x, (list, tuple)):
        return [_plain(y, depth + 1) for y in x]
    if isinstance(x, N.enum.Enum):
        return str(x)
    if depth > 3 or not hasattr(x, '__dict__'):
        return type(x).__name__
    return (type(x).__name__, sorted((k, _plain(v, depth + 1)) for k, v in vars(x).items() if not k.startswith('__')))


def spec_summary(spec):
    """the declared outputs: name, type, sizes, signedness, enum constants, default value"""
    return [(name, _plain(o)) for name, o in spec.items()]


def pack(c):
    d = {'verdict': c.verdict, 'error': c.error[0] if c.error else None, 'flags': list(c.flags)}
    if c.stage != 'flags':
        # the effective configuration is part of what must be a function of (source, options) alone, also for rejected programs
        d['cfg_now'], d['opts_now'] = config_now()
    if c.verdict == 'ok':
        d.update(post=c.post, spec=c.spec, cfg=c.cfg, source=c.source, opts=c.opts, spec_summary=spec_summary(c.spec))
    return d


# ---------------------------------------------------------------------------------------------------------------------------
def global_names(src):
    """names the program declares, by role (read off the parse tree: independent of whether the program is accepted later)"""
    g = {'out': [], 'hook': [], 'macro': [], 'loop': [], 'finishcode': [], 'yieldcode': []}
    try:
        tree = N.parser.parse(src, start='start')
    except Exception:
        return g
    for t in tree.find_data('out_decl'):
        g['out'].append((t.children[1].value, t.children[0].data))
    for t in tree.find_data('hook_decl'):
        g['hook'].append(t.children[0].value)
    for t in tree.find_data('macro_decl'):
        g['macro'].append(t.children[0].value)
    for t in tree.find_data('code_decl'):
        g[t.children[0].value] += [x.value for x in t.children[1:]]
    for t in tree.find_data('loop_stmt'):
        if t.children and isinstance(t.children[0], N.lark.Token) and t.children[0].type == 'IDENTIFIER':
            g['loop'].append(t.children[0].value)
    for k in g:
        seen = set()
        g[k] = [x for x in g[k] if not (x in seen or seen.add(x))]
    return g


def _expr_for(tyname, variant):
    if tyname in ('str_type', 'unterm_str_type'):
        return ('"zq"', '"qz1"')[variant]
    if tyname == 'bool_type':
        return ('true', 'false')[variant]
    return ('[41]', '[zq_i + 3]')[variant]


POISON_DECL = ['out int zq_i = 7;', 'out int zq_j = 9;', 'out str[6] zq_s;', 'hook zq_h;', 'finishcode ZQ_FIN;', 'macro zq_m() { "q"; }']


def poison_expr_only(src):
    """one program, rejected (undefined hook) in the body of a macro whose `expr` arguments are called like the outputs of `src`"""
    outs = global_names(src)['out'] or [('zq_none', 'int_type')]
    return ['\n'.join(POISON_DECL + [
        f'macro zq_e({", ".join(f"expr {n}" for n, _ in outs)}) {{ zq_i = [zq_i + 1]; zq_undefined_hook(); }}',
        f'parser {{ "a"; zq_e({", ".join(_expr_for(t, 0) for _, t in outs)}); }}']) + '\n']


def poison_programs(src):
    """programs that nmfu rejects while macros are being expanded; the arguments of those macros are called like the globals of `src`"""
    g = global_names(src)
    outs = g['out'] or [('zq_none', 'int_type')]
    decl = ['out int zq_i = 7;', 'out int zq_j = 9;', 'out str[6] zq_s;', 'hook zq_h;', 'finishcode ZQ_FIN;', 'macro zq_m() { "q"; }']
    has_yield = bool(g['yieldcode'])
    if has_yield:
        decl.append('yieldcode ZQ_YLD;')
    progs = []
    # (1) nested expansion: the outer macro has the `expr` arguments, the inner one an argument of every other kind (a name that the program
    #     uses in two roles gets the first of them: one macro cannot have two arguments of one name); the inner body calls something that
    #     does not exist. Whether a later lookup would walk the whole leftover stack or only its top, every kind is met.
    levels = []   # (formal list, actual list)
    levels.append(([f'expr {n}' for n, _ in outs], [_expr_for(t, 0) for _, t in outs]))
    formals, actuals, used = [], [], set()
    for kind, names, actual in (('out', [n for n, _ in outs], None), ('hook', g['hook'], 'zq_h'), ('macro', g['macro'], 'zq_m'), ('loop', g['loop'], 'zq_l'),
                                ('finishcode', g['finishcode'], 'ZQ_FIN'), ('yieldcode', g['yieldcode'] if has_yield else [], 'ZQ_YLD')):
        for n in names:
            if n in used:
                continue
            used.add(n)
            formals.append(f'{kind} {n}')
            actuals.append(actual or ('zq_s' if dict(outs)[n] in ('str_type', 'unterm_str_type') else 'zq_i'))
    levels.append((formals, actuals))
    macros = []
    for i, (formals, actuals) in enumerate(levels):
        inner = 'zq_undefined_hook();' if i == len(levels) - 1 else f'zq_k{i + 1}({", ".join(levels[i + 1][1])});'
        macros.append(f'macro zq_k{i}({", ".join(formals)}) {{ "k"; {inner} }}')
    body = f'parser {{ "a"; loop zq_l {{ "b"; zq_k0({", ".join(levels[0][1])}); }} }}'
    progs.append(('// args: -fyield-support\n' if has_yield else '') + '\n'.join(decl + macros + [body]) + '\n')
    # (2) match arguments called like the outputs (+ the expr arguments again with other values); rejected by a type error in an
    #     assignment in the body of a macro called from a macro
    m_formals = [f'match {n}' for n, _ in outs]
    progs.append('\n'.join(decl + [
        f'macro zq_t({", ".join(m_formals)}) {{ zq_i = "not a number"; }}',
        f'macro zq_u({", ".join(f"expr {n}" for n, _ in outs)}) {{ "u"; zq_t({", ".join(["/x+y/"] * len(outs))}); }}',
        f'parser {{ "a"; zq_u({", ".join(_expr_for(t, 1) for _, t in outs)}); "b"; }}']) + '\n')
    # (3) rejected in the middle of nested blocks (named loops called like the program's loops, try, case, foreach, if, optional)
    ln = (g['loop'] or ['zq_l'])[0]
    progs.append('\n'.join(decl + [
        'parser {', f'  loop {ln} {{', '    try {', '      case {', '        "a" -> { foreach { /x+/; } do { zq_i = [zq_i + 1]; } }',
        '        "b", /c+d/ -> { if zq_i == 3 { "e"; optional { "f"; zq_nothing_here = 1; } } else { "g"; } }',
        f'        else -> {{ break {ln}; }}', '      }', '    } catch (nomatch) { zq_s += "h"; }', '  }', '  "z";', '}']) + '\n')
    # the chain of (1) is compiled last: what it leaves behind is what a later lookup would meet first
    return progs[::-1]


def compile_history(srcs, junk=None):
    """compile programs for their side effects only; reports (verdict, error class, was a macro expansion active when it was rejected)"""
    rep = []
    for s in srcs:
        flags = None
        if isinstance(s, tuple):
            s, flags = s
        try:
            c = nm.compile_src(s, flags or (), use_src_args=flags is None)
            # the undefined name is only mentioned in the innermost macro body: being rejected because of it means being rejected there
            in_macro = c.verdict == 'error' and 'zq_undefined_hook' in (c.error[1] or '')
            rep.append((c.verdict, c.error[0] if c.error else None, bool(in_macro)))
        except Exception as e:
            rep.append(('crash', type(e).__name__, False))
        if junk is not None:
            junk.append([object() for _ in range(1000)])
    return rep


def main():
    out, prog, others = sys.argv[1], sys.argv[2], sys.argv[3:]
    src = nm.read(prog)
    extra = tuple(x for x in os.environ.get('C20_FLAGS', '').split() if x)
    hist = set((os.environ.get('C20_HISTORIES') or 'base after-rejected-expr after-rejected-macro after-options').split())
    res = {}
    res['fresh'] = pack(nm.compile_src(src, extra))
    if 'base' in hist:
        junk = []
        compile_history([nm.read(o) for o in others], junk)
        res['after-others'] = pack(nm.compile_src(src, extra))
        del junk
        gc.collect()
        pad = [bytearray(64) for _ in range(5000)]
        del pad[::2]
        res['twice-1'] = pack(nm.compile_src(src, extra))
        res['twice-2'] = pack(nm.compile_src(src, extra))
        gc.collect()
    meta = {}
    if 'after-rejected-expr' in hist:
        meta['rejected-history'] = compile_history(poison_expr_only(src))
        res['after-rejected-expr'] = pack(nm.compile_src(src, extra))
    if 'after-rejected-macro' in hist:
        meta['rejected-history'] = meta.get('rejected-history', []) + compile_history(poison_programs(src))
        res['after-rejected-macro'] = pack(nm.compile_src(src, extra))
    if 'after-options' in hist:
        # another (small) program under the other option sets; C20_OPT_SELF=1 (thorough tier): the program itself as well
        srcs = [OPTION_HISTORY_PROGRAM] + ([src] if os.environ.get('C20_OPT_SELF') == '1' else [])
        meta['options-history'] = compile_history([(x, fl) for fl in OPTION_SETS for x in srcs])
        res['after-options'] = pack(nm.compile_src(src, extra))
    res['__meta__'] = meta
    with open(out, 'wb') as f:
        pickle.dump(res, f)


if __name__ == '__main__':
    main()
