"""refre - reference regex automata and a small reference semantics for data-free nmfu programs.

Everything here is written from the language reference in /repo/docs/user-ref/parser.md (sections "NMFU Regexes",
"Binary Matches", "Expressions", "Basic Statements" (wait), "Block Statements" (case, greedy case, try)), never from
nmfu's regex pipeline.  The only thing taken from nmfu is lark's *syntax tree* (nmfu.parser) of the source text.

Contents
  * hash-consed regex terms, Brzozowski derivatives over the 256-byte alphabet, byte-class partitions
  * DA: explicit derivative automaton of a term, dead states removed by emptiness (backward reachability)
  * conv()/pattern(): regex dialect (text and binary form), literal / case-insensitive / binary literal, concatenation
  * RefProg: reference automaton of a data-free statement list: match, case / greedy case (parallel product, one byte of
    look-ahead, maximal munch + priority), wait (restart automaton), try/catch, finish CODE markers
  * lang()/first(): language of a statement as a term (for the ambiguity queries of C09)
  * selftest()
"""
import string as _string

ALL = frozenset(range(256))


class Unsupported(Exception):
    """construct outside the subset this oracle defines (the program is skipped and counted, never judged)"""


# ---------------------------------------------------------------------------------------------------------------
# terms
# ---------------------------------------------------------------------------------------------------------------
class T:
    __slots__ = ('tag', 'a', 'b', 'id', 'null', '_cls', '_d')

    def __repr__(self):
        return show(self)


_tab = {}
_cnt = [0]


def reset():
    """forget all interned terms (call between unrelated batches to bound memory)"""
    _tab.clear()
    _cnt[0] = 0
    global EMPTY, EPS
    EMPTY = _mk('E', None, None, False)
    EPS = _mk('e', None, None, True)


def _mk(tag, a, b, null):
    if tag == 's':
        key = (tag, a)
    elif tag == 'a':
        key = (tag, tuple(x.id for x in a))
    elif tag == 'c':
        key = (tag, a.id, b.id)
    elif tag == 'k':
        key = (tag, a.id)
    else:
        key = (tag,)
    t = _tab.get(key)
    if t is None:
        t = T()
        t.tag, t.a, t.b, t.null = tag, a, b, null
        t.id = _cnt[0]
        _cnt[0] += 1
        t._cls = None
        t._d = {}
        _tab[key] = t
    return t


EMPTY = EPS = None
reset()


def mkset(s):
    s = frozenset(s)
    if not s:
        return EMPTY
    return _mk('s', s, None, False)


def cat(a, b):
    if a is EMPTY or b is EMPTY:
        return EMPTY
    if a is EPS:
        return b
    if b is EPS:
        return a
    if a.tag == 'c':  # right-associate
        return cat(a.a, cat(a.b, b))
    return _mk('c', a, b, a.null and b.null)


def alt(*xs):
    flat = {}
    for x in xs:
        if x is EMPTY:
            continue
        if x.tag == 'a':
            for y in x.a:
                flat[y.id] = y
        else:
            flat[x.id] = x
    if not flat:
        return EMPTY
    # merge plain sets (sound: union of one-byte languages)
    sets = [y for y in flat.values() if y.tag == 's']
    if len(sets) > 1:
        u = frozenset().union(*(y.a for y in sets))
        for y in sets:
            del flat[y.id]
        m = mkset(u)
        flat[m.id] = m
    if len(flat) == 1:
        return next(iter(flat.values()))
    items = tuple(flat[i] for i in sorted(flat))
    return _mk('a', items, None, any(y.null for y in items))


def star(a):
    if a is EMPTY or a is EPS:
        return EPS
    if a.tag == 'k':
        return a
    return _mk('k', a, None, True)


def opt(a):
    return alt(a, EPS)


def catl(xs):
    r = EPS
    for x in reversed(list(xs)):
        r = cat(x, r)
    return r


def lit(bs):
    return catl(mkset((b,)) for b in bs)


def show(t):
    if t.tag == 'E':
        return '<empty>'
    if t.tag == 'e':
        return '<eps>'
    if t.tag == 's':
        s = sorted(t.a)
        if len(s) > 128:
            return '[^' + ''.join('%02x' % b for b in sorted(ALL - t.a)) + ']'
        return '[' + ''.join('%02x' % b for b in s) + ']'
    if t.tag == 'c':
        return show(t.a) + show(t.b)
    if t.tag == 'a':
        return '(' + '|'.join(show(x) for x in t.a) + ')'
    return '(' + show(t.a) + ')*'


def deriv(t, c):
    """Brzozowski derivative of t by byte c"""
    d = t._d.get(c)
    if d is not None:
        return d
    tag = t.tag
    if tag == 'E' or tag == 'e':
        d = EMPTY
    elif tag == 's':
        d = EPS if c in t.a else EMPTY
    elif tag == 'c':
        d = cat(deriv(t.a, c), t.b)
        if t.a.null:
            d = alt(d, deriv(t.b, c))
    elif tag == 'a':
        d = alt(*[deriv(x, c) for x in t.a])
    else:
        d = cat(deriv(t.a, c), t)
    t._d[c] = d
    return d


def _meet(p, q):
    """coarsest common refinement of two partitions of the byte alphabet (lists of frozensets)"""
    if len(p) == 1:
        return q
    if len(q) == 1:
        return p
    out = []
    for x in p:
        for y in q:
            z = x & y
            if z:
                out.append(z)
    return out


def classes(t):
    """a partition of 0..255 such that deriv(t, .) is constant on every block"""
    if t._cls is not None:
        return t._cls
    tag = t.tag
    if tag == 'E' or tag == 'e':
        p = [ALL]
    elif tag == 's':
        p = [t.a] if len(t.a) == 256 else [t.a, ALL - t.a]
    elif tag == 'c':
        p = classes(t.a)
        if t.a.null:
            p = _meet(p, classes(t.b))
    elif tag == 'a':
        p = [ALL]
        for x in t.a:
            p = _meet(p, classes(x))
    else:
        p = classes(t.a)
    t._cls = p
    return p


def matches(t, bs):
    for b in bs:
        t = deriv(t, b)
        if t is EMPTY:
            return False
    return t.null


# ---------------------------------------------------------------------------------------------------------------
# explicit automaton
# ---------------------------------------------------------------------------------------------------------------
class DA:
    """Derivative automaton of a term.  States 0..n-1 are the *live* derivatives (a member of the language is still
    reachable); every other derivative is the single dead state -1.  delta[q] is a 256-entry table."""

    def __init__(self, term, limit=4000, src=None):
        self.term = term
        self.src = src
        terms = [term]
        idx = {term.id: 0}
        raw = []  # raw[i] = list of (class, j)
        i = 0
        while i < len(terms):
            t = terms[i]
            row = []
            for cl in classes(t):
                d = deriv(t, next(iter(cl)))
                j = idx.get(d.id)
                if j is None:
                    j = len(terms)
                    if j >= limit:
                        raise Unsupported('derivative automaton exceeds %d states' % limit)
                    idx[d.id] = j
                    terms.append(d)
                row.append((cl, j))
            raw.append(row)
            i += 1
        n = len(terms)
        # emptiness: live = a nullable state is reachable
        live = [t.null for t in terms]
        changed = True
        while changed:
            changed = False
            for i in range(n):
                if not live[i] and any(live[j] for _, j in raw[i]):
                    live[i] = True
                    changed = True
        ren = {}
        for i in range(n):
            if live[i]:
                ren[i] = len(ren)
        self.n = len(ren)
        self.start = ren.get(0, -1)
        self.terms = [terms[i] for i in range(n) if live[i]]
        self.null = [t.null for t in self.terms]
        self.delta = []
        self.parts = []  # parts[q] = list of (frozenset, q') merged by successor, dead included as -1
        for i in range(n):
            if not live[i]:
                continue
            row = [-1] * 256
            by = {}
            for cl, j in raw[i]:
                jj = ren.get(j, -1)
                by[jj] = by.get(jj, frozenset()) | cl
                if jj >= 0:
                    for b in cl:
                        row[b] = jj
            self.delta.append(row)
            self.parts.append(sorted(((cl, j) for j, cl in by.items()), key=lambda x: min(x[0])))
        self.cont = [any(j >= 0 for _, j in p) for p in self.parts]      # some byte continues
        self.final = [self.null[q] and not self.cont[q] for q in range(self.n)]  # complete, nothing can follow
        self.closed = all((not self.null[q]) or self.final[q] for q in range(self.n))  # accepting => nothing follows

    def first(self):
        if self.start < 0:
            return frozenset()
        return frozenset(b for b in range(256) if self.delta[self.start][b] >= 0)

    def run(self, bs):
        """-> ('acc'|'live', None) or ('dead', index of the first byte after which nothing is reachable)"""
        q = self.start
        if q < 0:
            return ('dead', 0)
        for i, b in enumerate(bs):
            q = self.delta[q][b]
            if q < 0:
                return ('dead', i)
        return ('acc' if self.null[q] else 'live', None)

    def shortest(self, q=None):
        """a shortest byte string leading from q to a nullable state (q live)"""
        q = self.start if q is None else q
        if q < 0:
            return None
        seen = {q: b''}
        fr = [q]
        while fr:
            nx = []
            for s in fr:
                if self.null[s]:
                    return seen[s]
                for cl, j in self.parts[s]:
                    if j >= 0 and j not in seen:
                        seen[j] = seen[s] + bytes([min(cl)])
                        nx.append(j)
            fr = nx
        return None

    def __repr__(self):
        return '<DA %s n=%d>' % (self.src if self.src is not None else show(self.term)[:40], self.n)


# ---------------------------------------------------------------------------------------------------------------
# the dialect (own reading of docs/user-ref/parser.md) on lark's syntax tree
# ---------------------------------------------------------------------------------------------------------------
_W = frozenset(map(ord, _string.ascii_letters + _string.digits + '_'))
_D = frozenset(map(ord, _string.digits))
_S = frozenset(map(ord, ' \t\n\r\x0b\x0c'))
_CLS = {'w': _W, 'W': ALL - _W, 'd': _D, 'D': ALL - _D, 's': _S, 'S': ALL - _S,
        'n': frozenset((10,)), 't': frozenset((9,)), 'r': frozenset((13,)), ' ': frozenset((32,))}


def _is_tok(t):
    return not hasattr(t, 'data')


def _rawbyte(tok, binary):
    v = str(tok)
    if binary:
        if len(v) != 2:
            raise Unsupported('binary regex byte %r' % v)
        return int(v, 16)
    ch = v[1] if v[0] == '\\' and len(v) > 1 else v[0]
    o = ord(ch)
    if o > 255:
        raise Unsupported('character above 0xff in regex')
    return o


def _clsof(tree):
    return _CLS[str(tree.children[0])[0]]


def conv(t, binary=False):
    """lark tree of `regex` / `binary_regex` (or any sub-rule) -> term"""
    if _is_tok(t):
        return mkset((_rawbyte(t, binary),))
    d = str(t.data)
    if d.startswith('binary_'):
        d = d[len('binary_'):]
        binary = True
    ch = t.children
    if d in ('regex', 'regex_group'):
        return catl(conv(c, binary) for c in ch)
    if d == 'regex_alternation':
        return alt(*[conv(c, binary) for c in ch])
    if d == 'regex_raw_match':
        return mkset((_rawbyte(ch[0], binary),))
    if d == 'regex_char_class':
        return mkset(_clsof(t))
    if d == 'regex_any':
        return mkset(ALL)
    if d in ('regex_set', 'regex_inverted_set'):
        s = set()
        for c in ch:
            if _is_tok(c):
                s.add(_rawbyte(c, binary))
            elif str(c.data).endswith('regex_set_range'):
                lo, hi = _rawbyte(c.children[0], binary), _rawbyte(c.children[1], binary)
                s |= set(range(lo, hi + 1))
            elif str(c.data) == 'regex_char_class':
                s |= _clsof(c)
            else:
                raise Unsupported('set element ' + str(c.data))
        return mkset(s if d == 'regex_set' else ALL - frozenset(s))
    if d == 'regex_operation':
        a = conv(ch[0], binary)
        op = str(ch[1])
        if op == '*':
            return star(a)
        if op == '+':
            return cat(a, star(a))
        if op == '?':
            return opt(a)
        raise Unsupported('operator ' + op)
    if d == 'regex_exact_repeat':
        a = conv(ch[0], binary)
        n = int(str(ch[1]))
        if n < 0:
            raise Unsupported('negative repeat')
        return catl([a] * n)
    if d == 'regex_at_least_repeat':
        a = conv(ch[0], binary)
        n = int(str(ch[1]))
        if n < 0:
            raise Unsupported('negative repeat')
        return catl([a] * n + [star(a)])
    if d == 'regex_range_repeat':
        a = conv(ch[0], binary)
        n, m = int(str(ch[1])), int(str(ch[2]))
        if n < 0 or m < n:
            raise Unsupported('repeat {n,m} with m<n or n<0 (not defined by the reference)')
        r = EPS
        for _ in range(m - n):
            r = opt(cat(a, r))
        return cat(catl([a] * n), r)
    raise Unsupported('regex node ' + d)


_ESC = {'n': 10, 'r': 13, 't': 9, '\\': 92, '"': 34, "'": 39, 'a': 7, 'b': 8, 'f': 12, 'v': 11}


def decode_string(tok):
    """STRING token text (with quotes) -> bytes; own reading: C-style escapes"""
    s = str(tok)
    if len(s) < 2 or s[0] != '"' or s[-1] != '"':
        raise Unsupported('string token %r' % s)
    s = s[1:-1]
    out = []
    i = 0
    while i < len(s):
        c = s[i]
        if c != '\\':
            if ord(c) > 255:
                raise Unsupported('character above 0xff in string')
            out.append(ord(c))
            i += 1
            continue
        e = s[i + 1]
        if e == 'x':
            hx = s[i + 2:i + 4]
            if len(hx) != 2:
                raise Unsupported('bad \\x escape')
            out.append(int(hx, 16))
            i += 4
        elif e in _ESC:
            out.append(_ESC[e])
            i += 2
        else:
            raise Unsupported('escape \\%s (not used by the generators)' % e)
    return bytes(out)


def decode_binary_string(tok):
    s = str(tok)[1:-1].replace(' ', '')
    if len(s) % 2:
        raise Unsupported('odd binary string')
    return bytes(int(s[i:i + 2], 16) for i in range(0, len(s), 2))


def casei(bs):
    out = []
    for b in bs:
        ch = chr(b)
        if ch in _string.ascii_letters:
            out.append(mkset((ord(ch.lower()), ord(ch.upper()))))
        else:
            out.append(mkset((b,)))
    return catl(out)


def pattern(t):
    """lark tree of a match-expression -> term"""
    if _is_tok(t):
        raise Unsupported('bare token in match position: %r' % str(t))
    d = str(t.data)
    if d == 'string_const':
        return lit(decode_string(t.children[0]))
    if d == 'string_case_const':
        return casei(decode_string(t.children[0]))
    if d == 'binary_string_const':
        return lit(decode_binary_string(t.children[0]))
    if d == 'regex':
        return conv(t)
    if d == 'binary_regex':
        return conv(t, True)
    if d == 'concat_expr':
        return catl(pattern(c) for c in t.children)
    raise Unsupported('match expression ' + d)


# ---------------------------------------------------------------------------------------------------------------
# statements
# ---------------------------------------------------------------------------------------------------------------
def find(tree, name):
    for t in tree.iter_subtrees_topdown():
        if str(t.data) == name:
            return t
    return None


class Builder:
    """lark tree of a program -> reference statement tuples.  Statement forms:
        ('match', DA) ('wait', DA) ('finish', code|None) ('try', body, handler)
        ('case', greedy, pats, bodies, else_body)   pats: tuple of (DA, clause index, priority)
    """

    def __init__(self, source=None):
        self.das = {}
        self.source = source

    def text(self, t):
        try:
            return self.source[t.meta.start_pos:t.meta.end_pos]
        except Exception:
            return None

    def da(self, term, src=None):
        d = self.das.get(term.id)
        if d is None:
            d = DA(term, src=src)
            self.das[term.id] = d
        return d

    def program(self, tree):
        p = find(tree, 'parser_decl')
        if p is None:
            raise Unsupported('no parser')
        return self.stmts(p.children)

    def stmts(self, ch):
        return tuple(self.stmt(c) for c in ch)

    def stmt(self, t):
        if _is_tok(t):
            raise Unsupported('token statement')
        d = str(t.data)
        ch = t.children
        if d == 'match_stmt':
            return ('match', self.da(pattern(ch[0]), self.text(ch[0])))
        if d == 'wait_stmt':
            return ('wait', self.da(pattern(ch[0]), self.text(ch[0])))
        if d == 'custom_finish_stmt':
            return ('finish', str(ch[0]))
        if d == 'finish_stmt':
            return ('finish', None)
        if d == 'try_stmt':
            cb = ch[-1]
            hs = [c for c in cb.children if not (hasattr(c, 'data') and str(c.data) == 'catch_options')]
            opts = [c for c in cb.children if hasattr(c, 'data') and str(c.data) == 'catch_options']
            if opts and 'nomatch' not in [str(x) for x in opts[0].children]:
                raise Unsupported('catch without nomatch')
            return ('try', self.stmts(ch[:-1]), self.stmts(hs))
        if d in ('case_stmt', 'greedy_case_stmt'):
            greedy = d == 'greedy_case_stmt'
            clauses = []
            for c in ch:
                if str(c.data) == 'greedy_prio_block':
                    pr = int(str(c.children[0]))
                    for cc in c.children[1:]:
                        clauses.append((cc, pr))
                else:
                    clauses.append((c, 0))
            pats, bodies, else_body = [], [], None
            for ci, (c, pr) in enumerate(clauses):
                preds = [x for x in c.children if hasattr(x, 'data') and str(x.data) in ('else_predicate', 'expr_predicate')]
                body = self.stmts([x for x in c.children if not (hasattr(x, 'data') and str(x.data) in ('else_predicate', 'expr_predicate'))])
                bodies.append(body)
                for p in preds:
                    if str(p.data) == 'else_predicate':
                        if else_body is not None:
                            raise Unsupported('two else clauses')
                        else_body = body
                    else:
                        pats.append((self.da(pattern(p.children[0]), self.text(p.children[0])), ci, pr))
            return ('case', greedy, tuple(pats), tuple(bodies), else_body)
        raise Unsupported('statement ' + d)

    # ---- language of a statement as a term (C09) ---------------------------------------------------------------
    def lang_seq(self, ch):
        return catl(self.lang(c) for c in ch)

    def lang(self, t):
        d = str(t.data)
        ch = t.children
        if d == 'match_stmt':
            return pattern(ch[0])
        if d in ('call_stmt',):
            return EPS
        if d == 'optional_stmt':
            return opt(self.lang_seq(ch))
        if d == 'try_stmt':
            return self.lang_seq(ch[:-1])
        if d == 'foreach_stmt':
            return self.lang_seq(ch[:-1])
        if d == 'if_stmt':
            alts = []
            has_else = False
            for c in ch:
                if str(c.data) == 'else_condition':
                    has_else = True
                    alts.append(self.lang_seq(c.children))
                else:
                    alts.append(self.lang_seq([x for x in c.children if hasattr(x, 'data') and str(x.data) in _STMTS]))
            if not has_else:
                alts.append(EPS)
            return alt(*alts)
        if d in ('case_stmt', 'greedy_case_stmt'):
            alts = []
            for c in ch:
                cl = [c] if str(c.data) == 'case_clause' else c.children[1:]
                for cc in cl:
                    preds = [x for x in cc.children if hasattr(x, 'data') and str(x.data) in ('else_predicate', 'expr_predicate')]
                    body = [x for x in cc.children if x not in preds]
                    ps = []
                    for p in preds:
                        if str(p.data) == 'else_predicate':
                            raise Unsupported('else in language position')
                        ps.append(pattern(p.children[0]))
                    alts.append(cat(alt(*ps), self.lang_seq(body)))
            return alt(*alts)
        if d == 'loop_stmt':
            body = [c for c in ch if hasattr(c, 'data')]
            if len(body) == 1 and str(body[0].data) == 'case_stmt':
                cont, brk = [], []
                for cc in body[0].children:
                    preds = [x for x in cc.children if hasattr(x, 'data') and str(x.data) in ('else_predicate', 'expr_predicate')]
                    b = [x for x in cc.children if x not in preds]
                    ps = alt(*[pattern(p.children[0]) for p in preds])
                    if b and str(b[-1].data) == 'break_stmt':
                        brk.append(cat(ps, self.lang_seq(b[:-1])))
                    else:
                        cont.append(cat(ps, self.lang_seq(b)))
                return cat(star(alt(*cont)), alt(*brk))
            raise Unsupported('loop shape')
        raise Unsupported('language of ' + d)


_STMTS = ('match_stmt', 'call_stmt', 'optional_stmt', 'try_stmt', 'foreach_stmt', 'if_stmt', 'case_stmt', 'greedy_case_stmt', 'loop_stmt',
          'wait_stmt', 'custom_finish_stmt', 'finish_stmt', 'break_stmt', 'assign_stmt', 'append_stmt', 'delete_stmt', 'custom_yield_stmt')


# ---------------------------------------------------------------------------------------------------------------
# reference automaton of a data-free statement list
# ---------------------------------------------------------------------------------------------------------------
# outcomes (same vocabulary as dfz.Machine):  (kind, arg, consumed, events)
#   ('OK', config, True, ())   ('FIN', code, consumed, ())   ('DONE', None, consumed, ())   ('FAIL', None, False, ())
#   ('ANY', None, None, ())    the reference declines to judge (program ambiguous at this point; C09's business)
def FAIL():
    return ('FAIL', None, False, ())


ANY = ('ANY', None, None, ())


class RefProg:
    """Reference semantics (DESIGN section 4 C01 rules, restricted to the data-free subset):

    * a match consumes a member of its language; it completes without look-ahead as soon as nothing can follow, and
      otherwise decides with one byte of look-ahead (continue while the derivative by the next byte is non-empty);
    * a byte for which no continuation exists is a no-match *at that byte, which is not consumed*: the innermost
      handler is entered at that byte, FAIL if there is none;
    * case: all clause patterns run in parallel; the unique clause whose pattern equals the consumed bytes is run;
      all patterns dead -> else body (at the offending byte) or no-match.  greedy: consume while any pattern can
      continue, then the highest priority among the patterns matching what was consumed;
    * wait P: restart automaton - on a dead derivative go back to P's start and re-read the offending byte,
      skipping it if it cannot start P; never fails;
    * finish CODE is instantaneous at its program position.
    slack=True adds slack (c) of DESIGN C01: when a construct that could have continued stops at byte c and what
    follows does not accept c either, the no-match may be attributed to either context; at the very end of the
    program DONE with c unconsumed is accepted as well.
    """

    def __init__(self, stmts, slack=True):
        self.slack = slack
        self.K0 = self.seq(stmts, None, None)
        self._settle = {}
        self._step = {}

    # continuation nodes: None | (stmt, next, handler)
    def seq(self, stmts, K, H):
        for s in reversed(stmts):
            K = (s, K, H)
        return K

    def settle(self, K):
        """run input-independent statements; -> ('T', kind, arg) terminal or ('R', config)"""
        k0 = K
        r = self._settle.get(k0)
        if r is not None:
            return r
        while True:
            if K is None:
                r = ('T', 'DONE', None)
                break
            stmt, nxt, H = K
            tag = stmt[0]
            if tag == 'finish':
                r = ('T', 'FIN', stmt[1]) if stmt[1] is not None else ('T', 'DONE', None)
                break
            if tag == 'try':
                K = self.seq(stmt[1], nxt, self.seq(stmt[2], nxt, H))
                continue
            if tag in ('match', 'wait'):
                da = stmt[1]
                if da.start >= 0 and (da.final[da.start] or (tag == 'wait' and da.null[da.start])):
                    K = nxt
                    continue
                r = ('R', ('m' if tag == 'match' else 'w', da.start, K))
                break
            if tag == 'case':
                q = tuple(p[0].start for p in stmt[2])
                r = ('R', ('c', q, K))
                break
            raise Unsupported('statement ' + tag)
        self._settle[k0] = r
        return r

    def start(self):
        """outcome of starting the program before any input"""
        return self.after_consume(self.K0)

    def after_consume(self, K):
        r = self.settle(K)
        if r[0] == 'T':
            return (r[1], r[2], True, ())
        return ('OK', r[1], True, ())

    def dispatch(self, K, c):
        """hand byte c (not yet consumed) to continuation K -> (outcomes, took)"""
        r = self.settle(K)
        if r[0] == 'T':
            return [(r[1], r[2], False, ())], True
        return self._do(r[1], c)

    def nomatch(self, H, c):
        if H is None:
            return [FAIL()]
        return self.dispatch(H, c)[0]

    def _uniq(self, xs):
        out = []
        for x in xs:
            if x not in out:
                out.append(x)
        return out

    def complete_by_lookahead(self, nxt, H, c, alt_path):
        """the current construct is complete and c cannot continue it: c goes to what follows"""
        r = self.settle(nxt)
        if r[0] == 'T' and r[1] == 'DONE' and nxt is None:
            # very end of the program: c is a mismatch (nothing follows); slack also accepts DONE with c unconsumed
            outs = list(alt_path())
            if self.slack:
                outs.append(('DONE', None, False, ()))
            return self._uniq(outs), False
        outs, took = self.dispatch(nxt, c)
        if not took and self.slack:
            outs = self._uniq(list(outs) + list(alt_path()))
        return outs, took

    def step(self, cfg, c):
        """allowed outcomes of dispatching byte c in resting configuration cfg"""
        key = (cfg, c)
        r = self._step.get(key)
        if r is None:
            r = self._do(cfg, c)[0]
            self._step[key] = r
        return r

    # -- case helpers
    def case_info(self, stmt, q):
        """-> (ambiguous, selected clause or None, any_cont)"""
        greedy, pats = stmt[1], stmt[2]
        M = [i for i, (da, cl, pr) in enumerate(pats) if q[i] >= 0 and da.null[q[i]]]
        anycont = any(q[i] >= 0 and pats[i][0].cont[q[i]] for i in range(len(pats)))
        if not M:
            return False, None, anycont
        if greedy:
            top = max(pats[i][2] for i in M)
            cls = {pats[i][1] for i in M if pats[i][2] == top}
            if len(cls) > 1:
                return True, None, anycont
            return False, next(iter(cls)), anycont
        cls = {pats[i][1] for i in M}
        if len(cls) > 1:
            return True, None, anycont
        sel = next(iter(cls))
        # one clause matches while another clause could still continue
        for i, (da, cl, pr) in enumerate(pats):
            if cl != sel and q[i] >= 0 and da.cont[q[i]]:
                return True, None, anycont
        return False, sel, anycont

    def _do(self, cfg, c):
        kind, q, K = cfg
        stmt, nxt, H = K
        if kind == 'm' or kind == 'w':
            da = stmt[1]
            d = da.delta[q][c] if q >= 0 else -1
            if d < 0:
                if q >= 0 and da.null[q]:
                    if kind == 'w':
                        # an open-ended wait pattern that already matched: complete (first match position)
                        return self.dispatch(nxt, c)
                    return self.complete_by_lookahead(nxt, H, c, lambda: self.nomatch(H, c))
                if kind == 'm':
                    return self.nomatch(H, c), False
                d = da.delta[da.start][c] if da.start >= 0 else -1   # restart, re-read c
                if d < 0:
                    return [('OK', ('w', da.start, K), True, ())], True  # c cannot start P: skipped
            if da.final[d] or (kind == 'w' and da.null[d]):
                return [self.after_consume(nxt)], True
            return [('OK', (kind, d, K), True, ())], True
        # case
        greedy, pats, bodies, else_body = stmt[1], stmt[2], stmt[3], stmt[4]
        amb, sel, anycont = self.case_info(stmt, q)
        if amb:
            return [ANY], True
        dq = tuple(p[0].delta[q[i]][c] if q[i] >= 0 else -1 for i, p in enumerate(pats))

        def else_path():
            if else_body is not None:
                return self.dispatch(self.seq(else_body, nxt, H), c)[0]
            return self.nomatch(H, c)
        if any(x >= 0 for x in dq):
            amb2, sel2, cont2 = self.case_info(stmt, dq)
            if amb2:
                return [('OK', ('c', dq, K), True, ())], True   # judged (as ANY) on the next step
            if sel2 is not None and not cont2:
                return [self.after_consume(self.seq(bodies[sel2], nxt, H))], True
            outs = [('OK', ('c', dq, K), True, ())]
            if greedy and sel2 is not None and self.slack:
                # greedy rule 1 of the reference manual: "In a conflict where one match could end but another could
                # continue, the finishing match wins".  When the selected clause's body starts with an instantaneous
                # statement there is no look-ahead byte to decide on, so finishing now is documented behaviour; the
                # property's reading (keep consuming) is accepted as well.
                body = self.seq(bodies[sel2], nxt, H)
                if self.settle(body)[0] == 'T':
                    outs.append(self.after_consume(body))
            return outs, True
        if sel is not None:
            body = self.seq(bodies[sel], nxt, H)
            r = self.settle(body)
            if r[0] == 'T' and r[1] == 'DONE' and body is None:
                outs = list(else_path())
                if self.slack:
                    outs.append(('DONE', None, False, ()))
                return self._uniq(outs), False
            outs, took = self.dispatch(body, c)
            if not took and self.slack:
                outs = self._uniq(list(outs) + list(else_path()))
            return outs, took
        return else_path(), False

    # -- labels
    def accepting(self, cfg):
        """may the program be complete in this resting configuration (end of input here would be a full parse)"""
        kind, q, K = cfg
        stmt, nxt, H = K
        if kind in ('m', 'w'):
            if q < 0 or not stmt[1].null[q]:
                return False
            r = self.settle(nxt)
            return r[0] == 'T' and r[1] == 'DONE'
        amb, sel, _ = self.case_info(stmt, q)
        if sel is None:
            return False
        r = self.settle(self.seq(stmt[3][sel], nxt, H))
        return r[0] == 'T' and r[1] == 'DONE'

    def end_expect(self, cfg):
        """what end-of-input may do in this configuration: 'wait' = nothing can stop a wait (no handler, no FAIL, parse incomplete)"""
        return 'wait' if cfg[0] == 'w' else 'plain'

    def classes(self, cfg):
        """group the 256 bytes by allowed-outcome list -> list of (frozenset, outcomes)"""
        by = {}
        order = []
        for b in range(256):
            o = tuple(self.step(cfg, b))
            if o not in by:
                by[o] = set()
                order.append(o)
            by[o].add(b)
        return [(frozenset(by[o]), list(o)) for o in order]

    def describe(self, cfg):
        kind, q, K = cfg
        return '%s@%s' % (kind, q)


def prog_from_tree(tree, slack=True, source=None):
    b = Builder(source)
    return RefProg(b.program(tree), slack=slack), b


# ---------------------------------------------------------------------------------------------------------------
# self test
# ---------------------------------------------------------------------------------------------------------------
def _parse_regex(src):
    import sys
    from . import chk
    if chk.REPO not in sys.path:
        sys.path.insert(0, chk.REPO)
    import nmfu
    tree = nmfu.parser.parse('parser { %s; }' % src, start='start')
    t = find(tree, 'binary_regex') or find(tree, 'regex')
    return t


def selftest(verbose=False):
    import re as _re
    import itertools
    ok = True

    def expect(cond, what):
        nonlocal ok
        if not cond:
            ok = False
            print('refre selftest FAILED:', what)
    # 1. dialect vs python's re (bytes, DOTALL) on all strings up to length 3 over a small alphabet + a few longer
    cases = [(r'/a(b|c)*d?/', rb'a(b|c)*d?'), (r'/[^ab]+\w/', rb'[^ab]+\w'), (r'/(ab|a)(c|bc)/', rb'(ab|a)(c|bc)'),
             (r'/a{2}b{1,2}c{2,}/', rb'a{2}b{1,2}c{2,}'), (r'/\d+\.\d*|\s\S/', rb'\d+\.\d*|\s\S'),
             (r'/[a-c\d]x|.y/', rb'[a-c\d]x|.y'), (r'/\W\D?/', rb'\W\D?'), (r'/(a|[^a])b/', rb'(a|[^a])b'),
             (r'/x\ y|\n\t\r/', rb'x y|\n\t\r'), (r'/[a\-\]]+\//', rb'[a\-\]]+/'), (r'/(a?){2}b/', rb'(a?){2}b')]
    alpha = [ord('a'), ord('b'), ord('c'), ord('d'), ord('x'), ord('y'), ord('1'), ord('.'), 32, 10, 0xff, ord('-'), ord('/'), ord(']'), 9, 13]
    for src, py in cases:
        t = conv(_parse_regex(src))
        da = DA(t)
        pr = _re.compile(py, _re.DOTALL)
        for n in range(0, 4):
            for w in itertools.product(alpha[:9] if n == 3 else alpha, repeat=n):
                bs = bytes(w)
                want = pr.fullmatch(bs) is not None
                got = da.run(bs)[0] == 'acc'
                if want != got or matches(t, bs) != want:
                    expect(False, 'regex %s on %r: python re %s, refre %s' % (src, bs, want, got))
                    break
    # 2. binary form
    t = conv(_parse_regex('b/00 [10-15]+|(44 56? 12)/'), True)
    da = DA(t)
    expect(da.run(bytes([0, 0x10, 0x15]))[0] == 'acc', 'binary regex 00 10 15')
    expect(da.run(bytes([0x44, 0x12]))[0] == 'acc', 'binary regex 44 12')
    expect(da.run(bytes([0x44, 0x56, 0x56]))[0] == 'dead', 'binary regex 44 56 56')
    expect(da.run(bytes([0, 0x16])) == ('dead', 1), 'binary regex dead index')
    # 3. partition soundness: derivative constant on each class, classes cover the alphabet
    for src, _ in cases:
        t = conv(_parse_regex(src))
        cl = classes(t)
        expect(sum(len(x) for x in cl) == 256 and frozenset().union(*cl) == ALL, 'partition covers: ' + src)
        for x in cl:
            expect(len({deriv(t, b).id for b in x}) == 1, 'partition constant: ' + src)
    # 4. dead-state marking and first-dead-byte
    da = DA(conv(_parse_regex(r'/ab(c|d)/')))
    expect(da.run(b'abx') == ('dead', 2) and da.run(b'ab') == ('live', None) and da.closed, 'dead index / closed')
    expect(not DA(conv(_parse_regex(r'/ab*/'))).closed, 'open-ended pattern recognised')
    # 5. case-insensitive literal, literal escapes
    t = casei(b'a1B')
    expect(matches(t, b'A1b') and matches(t, b'a1B') and not matches(t, b'a2b'), 'casei')
    expect(decode_string('"\\r\\n\\x7f\\"\\\\"') == b'\r\n\x7f"\\', 'string escapes')
    expect(decode_binary_string('"11 22 05"') == bytes([0x11, 0x22, 0x05]), 'binary string')

    # 6. restart automaton: the reference manual's example - wait "abcdabce" does not match inside abcdabcdabce
    def runprog(stmts, bs, slack=True):
        p = RefProg(stmts, slack)
        o = p.start()
        n = 0
        for b in bs:
            if o[0] != 'OK':
                break
            o = p.step(o[1], b)[0]
            n += 1
        return o, n
    w = ('wait', DA(lit(b'abcdabce')))
    o, n = runprog((w, ('finish', 'M')), b'abcdabcdabce')
    expect(o[0] == 'OK', 'wait abcdabce must not complete on abcdabcdabce (docs example)')
    o, n = runprog((w, ('finish', 'M')), b'abcdabcdabceabcdabce')
    expect(o[:3] == ('FIN', 'M', True) and n == 20, 'wait completes at first restart match')
    o, n = runprog((('wait', DA(lit(b'aab'))), ('finish', 'M')), b'aaab')
    expect(o[0] == 'OK', 'restart semantics: aaab does not match wait aab (third a restarts at one a)')
    o, n = runprog((('wait', DA(lit(b'ab'))), ('finish', 'M')), b'aab')
    expect(o[:3] == ('FIN', 'M', True) and n == 3, 'offending byte is re-read when it can start P')
    # 7. case / greedy case
    A, B = DA(lit(b'ab')), DA(conv(_parse_regex('/x+/')))
    case = ('case', False, ((A, 0, 0), (B, 1, 0)), ((('finish', 'A'),), (('match', DA(lit(b'!'))), ('finish', 'B'))), (('finish', 'E'),))
    expect(runprog((case,), b'ab')[0][:3] == ('FIN', 'A', True), 'case: closed clause finishes eagerly')
    expect(runprog((case,), b'xxx!')[0][:3] == ('FIN', 'B', True), 'case: open clause by look-ahead')
    expect(runprog((case,), b'q')[0][:3] == ('FIN', 'E', False), 'case: else at offending byte, unconsumed')
    expect(runprog((case,), b'aq')[0][:3] == ('FIN', 'E', False), 'case: else mid-pattern')
    p = RefProg((case,), True)
    o = p.start()
    o = p.step(o[1], ord('x'))[0]
    outs = p.step(o[1], ord('q'))
    expect(('FAIL', None, False, ()) in outs and ('FIN', 'E', False, ()) in outs, 'slack (c): either context may take the mismatch')
    g = ('case', True, ((DA(conv(_parse_regex('/a+/'))), 0, 0), (DA(lit(b'aa')), 1, 1)),
         ((('match', DA(lit(b'!'))), ('finish', 'S')), (('match', DA(lit(b'!'))), ('finish', 'K'))), None)
    expect(runprog((g,), b'aa!')[0][:3] == ('FIN', 'K', True), 'greedy: priority among equal-length matches')
    expect(runprog((g,), b'aaa!')[0][:3] == ('FIN', 'S', True), 'greedy: longest continuation first')
    expect(runprog((g,), b'a!')[0][:3] == ('FIN', 'S', True), 'greedy: single match')
    amb = ('case', False, ((DA(lit(b'a')), 0, 0), (DA(lit(b'ab')), 1, 0)), ((), ()), None)
    p = RefProg((amb,), True)
    o = p.step(p.start()[1], ord('a'))[0]
    expect(o[0] == 'OK' and p.step(o[1], ord('b'))[0] == ANY, 'ambiguous non-greedy case is not judged')
    # 8. try / handler at the offending byte
    tr = ('try', (('match', DA(lit(b'ab'))), ('finish', 'OK')), (('finish', 'H'),))
    expect(runprog((tr,), b'ax')[0][:3] == ('FIN', 'H', False), 'handler entered at offending byte')
    return ok


if __name__ == '__main__':
    import sys
    sys.exit(0 if selftest(True) else 1)
