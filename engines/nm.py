"""Driving the real nmfu (/repo/nmfu.py, imported fresh on every run) and lowering its emitted C to LLVM IR."""
import os, sys, shlex, subprocess, tempfile, shutil, re, glob, signal
from . import chk

os.environ['NMFU_VERIF'] = '1'
if chk.REPO not in sys.path:
    sys.path.insert(0, chk.REPO)
import nmfu  # noqa: E402  (the real compiler)

N = nmfu
End = N.DFTransition.End
Else = N.DFTransition.Else


class TSnap:
    __slots__ = ('on', 'target', 'fall', 'actions', 'cond', 'eh', 'orig')

    def __init__(self, t):
        self.on = list(t.on_values)
        self.target = t.target
        self.fall = t.is_fallthrough
        self.actions = list(t.actions)
        self.cond = getattr(t, 'condition', None)
        self.eh = t.error_handling
        self.orig = t

    def __repr__(self):
        return f"<T on={self.on if len(self.on) < 6 else str(len(self.on)) + ' values'} fall={self.fall} eh={self.eh} acts={len(self.actions)}>"


class Snap:
    """structural copy of a DFA (optimisation passes rewrite transitions in place)"""

    def __init__(self, dfa, fail):
        self.states = list(dfa.states)
        self.index = {s: i for i, s in enumerate(self.states)}
        self.start = dfa.starting_state
        self.fail = fail
        self.accept = set(dfa.accepting_states)
        self.tr = {st: [TSnap(t) for t in st.transitions] for st in self.states}

    def is_cond(self, st):
        return isinstance(st, N.DFConditionPoint)

    def name(self, st):
        if st is None:
            return 'None'
        i = self.index.get(st)
        return f"s{i}" if i is not None else f"x{id(st) & 0xffff:x}"


class Comp:
    pass


class CompileTimeout(Exception):
    pass


def _alarm(sig, frm):
    raise CompileTimeout()


def split_args(src):
    lines = src.splitlines()
    if lines and lines[0].startswith('// args: '):
        return shlex.split(lines[0][len('// args: '):])
    return []


def compile_src(src, flags=(), name='ut', want_c=True, use_src_args=True, timeout=60, path='ut.nmfu'):
    """Run the real front end, DFA compiler and code generator in this process.
    Returns Comp with .verdict in {'ok','error','crash','timeout'}."""
    c = Comp()
    c.src, c.name = src, name
    sa = split_args(src) if use_src_args else []
    c.flags = tuple(sa) + tuple(flags)
    c.pre = c.post = None
    c.verdict = 'ok'
    c.stage = None
    c.error = None
    snaps = {}

    def obs(phase, ctx):
        snaps[phase] = Snap(ctx.dfa, ctx.generic_fail_state)
    old = None
    if timeout:
        old = signal.signal(signal.SIGALRM, _alarm)
        signal.alarm(timeout)
    try:
        try:
            c.stage = 'flags'
            N.ProgramData.load_commandline_flags((*c.flags, path))
            N.ProgramData.load_source(src)
            c.stage = 'syntax'
            tree = N.parser.parse(src, start='start')
            c.tree = tree
            c.stage = 'parse'
            c.pctx = N.ParseCtx(tree)
            c.pctx.parse()
            c.stage = 'compile'
            c.dctx = N.DfaCompileCtx(c.pctx)
            N._verif_phase_observer = obs
            try:
                c.dctx.compile()
            finally:
                N._verif_phase_observer = None
            c.pre, c.post = snaps.get('converted'), snaps.get('optimized')
            c.cfg = {f.name: bool(N.ProgramData.do(f)) for f in N.ProgramFlag}
            c.opts = {o.name: N.ProgramData.option(o) for o in N.ProgramOption}
            c.dfa = c.dctx.dfa
            c.spec = c.pctx.state_object_spec
            if want_c:
                c.stage = 'codegen'
                c.cg = N.CodegenCtx(c.dctx, name)
                c.header = c.cg.generate_header()
                c.source = c.cg.generate_source()
            c.stage = 'done'
        except CompileTimeout:
            c.verdict = 'timeout'
        except N.NMFUError as e:
            c.verdict = 'error'
            c.error = (type(e).__name__, _safe_str(e))
        except N.lark.LarkError as e:
            c.verdict = 'error'
            c.error = (type(e).__name__, _safe_str(e)[:300])
        except RuntimeError as e:
            if c.stage == 'flags' and type(e) is RuntimeError:
                c.verdict = 'error'
                c.error = ('RuntimeError', str(e))
            else:
                c.verdict = 'crash'
                c.error = (type(e).__name__, str(e)[:300])
        except RecursionError as e:
            c.verdict = 'crash'
            c.error = ('RecursionError', '')
        except Exception as e:
            c.verdict = 'crash'
            c.error = (type(e).__name__, str(e)[:300])
    finally:
        if timeout:
            signal.alarm(0)
            signal.signal(signal.SIGALRM, old)
    return c


def _safe_str(e):
    try:
        return str(e)
    except Exception as e2:  # message rendering itself failed
        return f"<unrenderable: {type(e2).__name__}: {e2}>"


def flag(f):
    return N.ProgramData.do(getattr(N.ProgramFlag, f))


# ---------------------------------------------------------------------------------------------
_tmp_root = None


def tmpdir():
    global _tmp_root
    if _tmp_root is None or not os.path.isdir(_tmp_root):
        _tmp_root = tempfile.mkdtemp(prefix='nmfuverif-')
        import atexit
        atexit.register(lambda p=_tmp_root, pid=os.getpid(): shutil.rmtree(p, ignore_errors=True) if os.getpid() == pid else None)
    return _tmp_root


def lower_to_ir(header, source, name='ut', extra=''):
    """emitted C -> textual LLVM IR after mem2reg. Returns (ir_text or None, diagnostics)."""
    d = tempfile.mkdtemp(prefix='l', dir=tmpdir())
    try:
        with open(os.path.join(d, name + '.h'), 'w') as f:
            f.write(header)
        with open(os.path.join(d, name + '.c'), 'w') as f:
            f.write(source + extra)
        r = subprocess.run(['clang', '-O0', '-Xclang', '-disable-O0-optnone', '-fno-discard-value-names', '-S', '-emit-llvm', '-w',
                            '-o', os.path.join(d, name + '.ll'), os.path.join(d, name + '.c')], capture_output=True, text=True)
        if r.returncode != 0:
            return None, r.stderr[:1500]
        r2 = subprocess.run(['opt', '-mem2reg', '-simplifycfg', '-S', os.path.join(d, name + '.ll'), '-o', os.path.join(d, name + '.m.ll')],
                            capture_output=True, text=True)
        if r2.returncode != 0:
            return None, r2.stderr[:1500]
        return open(os.path.join(d, name + '.m.ll')).read(), ''
    finally:
        shutil.rmtree(d, ignore_errors=True)


def build_binary(header, source, driver_c, name='ut', sanitize=False, cc='gcc'):
    """build emitted C + driver into an executable; returns (path or None, diag). Caller removes dirname(path)."""
    d = tempfile.mkdtemp(prefix='b', dir=tmpdir())
    with open(os.path.join(d, name + '.h'), 'w') as f:
        f.write(header)
    with open(os.path.join(d, name + '.c'), 'w') as f:
        f.write(source)
    with open(os.path.join(d, 'driver.c'), 'w') as f:
        f.write(driver_c)
    cmd = [cc, '-O0', '-g', '-w', '-o', os.path.join(d, 'a.out'), os.path.join(d, name + '.c'), os.path.join(d, 'driver.c')]
    if sanitize:
        cmd[1:1] = ['-fsanitize=address,undefined', '-fno-sanitize-recover=all']
    r = subprocess.run(cmd, capture_output=True, text=True)
    if r.returncode != 0:
        shutil.rmtree(d, ignore_errors=True)
        return None, r.stderr[:1500]
    return os.path.join(d, 'a.out'), ''


# ---------------------------------------------------------------------------------------------
def corpus_files(kinds=('example', 'ok')):
    out = []
    if 'example' in kinds:
        out += sorted(glob.glob(os.path.join(chk.REPO, 'example', '*.nmfu')))
    if 'ok' in kinds:
        out += sorted(glob.glob(os.path.join(chk.REPO, 'example', 'test', '*.ok.nmfu')))
    if 'fail' in kinds:
        out += sorted(glob.glob(os.path.join(chk.REPO, 'example', 'test', '*.fail.nmfu')))
    if 'verif' in kinds:
        out += sorted(glob.glob(os.path.join(chk.VERIF, 'corpus', '*.nmfu')))
    if 'cycle' in kinds:
        out += sorted(glob.glob(os.path.join(chk.VERIF, 'corpus', 'cycle', '*.nmfu')))
    return out


def read(path):
    with open(path) as f:
        return f.read()


# ---------------------------------------------------------------------------------------------
# pickling support for compiled machines (C20 compares machines compiled in different processes)
import copyreg  # noqa: E402


def _get_else():
    return Else


def _get_end():
    return End


copyreg.pickle(type(Else), lambda o: (_get_else, ()))
copyreg.pickle(type(End), lambda o: (_get_end, ()))
