"""setup self-test: imports every engine and runs their quick self-checks."""
import sys, importlib
def main():
    ok = True
    for m in ('chk', 'nm', 'symx', 'cexpr', 'absm', 'llsym', 'refre', 'refsem', 'pyif', 'dfz', 'selfval'):
        try:
            mod = importlib.import_module('engines.' + m)
        except ModuleNotFoundError as e:
            if e.name == 'engines.' + m:
                continue
            raise
        st = getattr(mod, 'selftest', None)
        if st:
            r = st()
            print('selftest', m, 'ok' if r else 'FAILED')
            ok = ok and r
    sys.exit(0 if ok else 1)
if __name__ == '__main__':
    main()
