"""Self-validation of the L3 encoding: llsym run CONCRETELY (start() then one feed of an annotated input) must agree with the
gcc-built binary and with the concrete abstract machine on result code and outputs. An encoding bug shows up here as a harness
error instead of as a wrong verdict."""
import os, glob
import z3
from . import chk, nm, l3 as l3mod, absm, replay, multicall, llsym
from .llsym import Ptr, bv


def cases(limit=6):
    out = []
    for f in sorted(glob.glob(os.path.join(chk.REPO, 'example', 'test', '*.ok.nmfu'))):
        src = nm.read(f)
        for l in src.splitlines():
            if l.startswith('// ok: ') and 0 < len(l) - 7 <= 24:
                out.append((os.path.basename(f), src, l[7:].encode('latin-1')))
                break
        if len(out) >= limit:
            break
    return out


def run(limit=6):
    """returns (n_ok, [problems])"""
    ok, bad = 0, []
    for name, src, inp in cases(limit):
        try:
            comp = nm.compile_src(src, ('-findirect-start-ptr',))
            if comp.verdict != 'ok':
                continue
            L = l3mod.L3(comp)
        except (l3mod.Unencodable, absm.Unsupported):
            continue
        try:
            solver = z3.Solver()
            st = {'queries': 0, 'solver_time': 0.0}
            mem = L.raw_image()
            ex = L.call1('start', mem, solver, [], st)
            rets = [p for p in ex.paths if p.kind == 'RET']
            if len(rets) != 1:
                bad.append(f'{name}: start() has {len(ex.paths)} paths'); continue
            mem = rets[0].mem
            L.add_chunk(mem, len(inp), symbols=[z3.BitVecVal(b, 8) for b in inp])
            outs = multicall.drive(L, mem, [], [], 0, len(inp), solver, [], st, 100000, 64)
            outs = [o for o in outs if o.kind == 'RET']
            if len(outs) != 1:
                bad.append(f'{name}: concrete feed has {len(outs)} returning paths'); continue
            o = outs[0]
            clog, diag = replay.run_c(comp, L.layout, {'calls': [('feed', list(inp))]})
            if clog is None:
                continue
            cret = [e for e in clog if e[0] == 'RET'][-1]
            code = L.codes[o.code]
            snap = L.snapshot(o.mem)
            mine = replay.fmt_outs(L.layout, comp.spec, ({k: v for k, v in snap[0].items()}, {k: (ln, (z3.Array('z', z3.BitVecSort(64), z3.BitVecSort(8)) if a is None else _rebased(a))) for k, (ln, a) in snap[1].items()}))
            if code != cret[1] or (cret[2] >= 0 and o.off != cret[2]) or not replay.outs_equal(mine, cret[3]):
                bad.append(f'{name}: llsym-concrete {code}@{o.off} {mine} vs gcc {cret[1:]}')
            else:
                ok += 1
        except llsym.CannotEncode as e:
            bad.append(f'{name}: cannot encode {e}')
    return ok, bad


def _rebased(a):
    arr, base = a
    b = z3.simplify(base)
    if z3.is_bv_value(b) and b.as_long() == 0:
        return arr
    k = z3.BitVec('i', 64)
    return z3.Lambda([k], z3.Select(arr, base + k))


def selftest():
    ok, bad = run(4)
    if bad:
        print('selfval problems:', bad[:3])
    return ok >= 2 and not bad
