"""Seeded, feature-directed generator of small nmfu programs for C01 (statements: matches, appends, assignments, hooks, finish,
optional, loop/break, case/else incl. multi-label and greedy/prio clauses, try/catch, if, foreach, wait). Alphabet includes bytes >= 0x80, 0x00 and case pairs. Keeps foreach
do-blocks free of effects whose order against the per-byte append is observable (outside the claim)."""
import random

PATS = ['"a"', '"ab"', '"ba"', '"c"', '/a+/', '/[ab]/', '/b*c/', '/[^c]/', '/a?b/', '"A"i', '/(ab|c)/', '/\\d+/', '/./', '"\\x80"', '"\\x00a"', '/[\\x80-\\xff]/', '"aB"i', 'b/00|ff/']
HDR = 'out str[3] s; out int n = 0; out int{unsigned, size 1} u = 0; out bool f = false; hook h; hook g; finishcode X, Y, Z;\n'


def programs(seed, count):
    rnd = random.Random(seed * 1000003 + 17)

    def pat():
        return rnd.choice(PATS)

    def stmts(d, inloop):
        out = []
        for _ in range(rnd.randint(1, 3)):
            out.append(stmt(d, inloop))
            # nothing after a finish / break in the same block: it is dead code procedurally, and nmfu runs a finish that is followed by a
            # match together with that match's first byte (a timing the comparison does not model for terminal events)
            if out[-1].startswith(('finish ', 'break;')):
                break
        return ' '.join(out)

    def stmt(d, inloop):
        k = rnd.random()
        if d <= 0 or k < 0.28:
            return pat() + ';'
        if k < 0.36:
            return 's += ' + pat() + ';'
        if k < 0.41:
            return 'n = [n + 1];'
        if k < 0.44:
            return 'u = [u * 2 + 1];'
        if k < 0.49:
            return rnd.choice(['h();', 'g();'])
        if k < 0.52:
            return 'n = [$last];' if False else 'f = true;'
        if k < 0.55:
            return 's += [n + 65];'
        if k < 0.58:
            return 'delete s;'
        if k < 0.62 and inloop:
            return 'break;'
        if k < 0.65:
            return 'finish ' + rnd.choice('XYZ') + ';'
        if k < 0.72:
            return 'optional { ' + pat() + '; ' + stmts(d - 1, inloop) + ' }'
        if k < 0.79:
            return 'loop { ' + pat() + '; ' + stmts(d - 1, True) + ' }'
        if k < 0.87:
            cls = []
            greedy = rnd.random() < 0.2
            for i in range(rnd.randint(1, 3)):
                labels = pat() if rnd.random() < 0.7 else pat() + ', ' + pat()      # multi-label clauses
                prio = ('prio %d ' % rnd.randint(1, 3)) if greedy and rnd.random() < 0.6 else ''
                cls.append(prio + labels + ' -> { ' + (stmts(d - 1, inloop) if rnd.random() < 0.7 else '') + ' }')
            if rnd.random() < 0.5:
                cls.append('else -> { ' + (stmts(d - 1, inloop) if rnd.random() < 0.6 else '') + ' }')
            return ('greedy ' if greedy else '') + 'case { ' + ' '.join(cls) + ' }'
        if k < 0.93:
            return 'try { ' + stmts(d - 1, inloop) + ' } catch' + rnd.choice(['', ' (nomatch)', ' (outofspace)']) + ' { ' + (stmts(d - 1, inloop) if rnd.random() < 0.7 else '') + ' }'
        if k < 0.97:
            return rnd.choice(['if n > 1 { ', 'if s.len == 2 { ', 'if f && u > 2 { ']) + stmts(d - 1, inloop) + ' } else { ' + stmts(d - 1, inloop) + ' }'
        if k < 0.985:
            return 'foreach { ' + pat() + '; } do { n = [n + $last]; }'
        if k < 0.993:
            # a body with structure (case / wait / optional inside the foreach); the do-block touches only counters no hook snapshot orders against appends
            return 'foreach { ' + stmts(d - 1, False) + ' } do { u = [u + 1]; }'
        return 'wait ' + rnd.choice(['"ab"', '"c"', '/a[bc]/', '"aB"i']) + ';'
    out = []
    for _ in range(count):
        out.append(HDR + 'parser { ' + pat() + '; ' + stmts(3, False) + ' }\n')
    return out
