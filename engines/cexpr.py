"""C integer semantics in z3 bit-vectors (x86-64 LP64: int=32, long=intmax_t=64), written from the C standard's rules
(integer promotion, usual arithmetic conversions, conversion on assignment), not from nmfu's code generator.
Used by the abstract machine to give meaning to nmfu's IntegerExpr objects and by C14's own expression oracle."""
import z3


class CT:
    __slots__ = ('w', 's')

    def __init__(self, w, s):
        self.w, self.s = w, s

    def __eq__(self, o):
        return self.w == o.w and self.s == o.s

    def __hash__(self):
        return hash((self.w, self.s))

    def __repr__(self):
        return ('i' if self.s else 'u') + str(self.w)


INT = CT(32, True)
UINT = CT(32, False)
LONG = CT(64, True)
ULONG = CT(64, False)
U8 = CT(8, False)
I8 = CT(8, True)
BOOLT = CT(8, False)  # _Bool (value 0/1), promoted like any small unsigned type


class CV:
    """a C value: z3 bit-vector + C type"""
    __slots__ = ('v', 't')

    def __init__(self, v, t):
        self.v, self.t = v, t
        assert v.size() == t.w, (v, t)


def lit(n, t=INT):
    return CV(z3.BitVecVal(n, t.w), t)


def convert(cv, t):
    """C conversion of an integer value to integer type t (modular for both signed and unsigned, as gcc/clang define)"""
    if cv.t.w == t.w:
        return CV(cv.v, t)
    if cv.t.w > t.w:
        return CV(z3.Extract(t.w - 1, 0, cv.v), t)
    ext = z3.SignExt if cv.t.s else z3.ZeroExt
    return CV(ext(t.w - cv.t.w, cv.v), t)


def to_bool(cv):
    return cv.v != 0


def from_bool(b):
    return CV(z3.If(b, z3.BitVecVal(1, 32), z3.BitVecVal(0, 32)), INT)


def promote(cv):
    if cv.t.w < 32:
        return convert(cv, INT)
    return cv


def usual(a, b):
    a, b = promote(a), promote(b)
    if a.t == b.t:
        return a, b, a.t
    if a.t.s == b.t.s:
        t = a.t if a.t.w >= b.t.w else b.t
    else:
        u, s = (a.t, b.t) if not a.t.s else (b.t, a.t)
        if u.w >= s.w:
            t = u
        else:
            t = s  # signed type can represent all values of the narrower unsigned type
    return convert(a, t), convert(b, t), t


def literal_type(n):
    """type of an unsuffixed decimal literal with non-negative value n"""
    if n < (1 << 31):
        return INT
    if n < (1 << 63):
        return LONG
    return None  # not representable: outside every claim


class UB:
    """collects conditions under which evaluation has undefined behaviour; guard = evaluation condition"""

    def __init__(self):
        self.conds = []
        self.guard = []

    def add(self, c):
        self.conds.append(z3.And(*self.guard, c) if self.guard else c)

    def any(self):
        return z3.Or(*self.conds) if self.conds else z3.BoolVal(False)


def arith(op, a, b, ub):
    a, b, t = usual(a, b)
    x, y = a.v, b.v
    w = t.w
    if op == '+':
        r = x + y
        if t.s:
            ub.add(z3.Not(z3.BVAddNoOverflow(x, y, True)))
            ub.add(z3.Not(z3.BVAddNoUnderflow(x, y)))
    elif op == '-':
        r = x - y
        if t.s:
            ub.add(z3.Not(z3.BVSubNoOverflow(x, y)))
            ub.add(z3.Not(z3.BVSubNoUnderflow(x, y, True)))
    elif op == '*':
        r = x * y
        if t.s:
            ub.add(z3.Not(z3.BVMulNoOverflow(x, y, True)))
            ub.add(z3.Not(z3.BVMulNoUnderflow(x, y)))
    elif op in ('/', '%'):
        ub.add(y == 0)
        if t.s:
            ub.add(z3.And(x == z3.BitVecVal(1 << (w - 1), w), y == z3.BitVecVal(-1, w)))
            r = (x / y) if op == '/' else z3.SRem(x, y)
        else:
            r = z3.UDiv(x, y) if op == '/' else z3.URem(x, y)
    elif op in ('&', '|', '^'):
        r = {'&': x & y, '|': x | y, '^': x ^ y}[op]
    else:
        raise NotImplementedError(op)
    return CV(r, t)


def compare(op, a, b):
    a, b, t = usual(a, b)
    x, y = a.v, b.v
    if op == '==':
        c = x == y
    elif op == '!=':
        c = x != y
    elif t.s:
        c = {'<': x < y, '>': x > y, '<=': x <= y, '>=': x >= y}[op]
    else:
        c = {'<': z3.ULT(x, y), '>': z3.UGT(x, y), '<=': z3.ULE(x, y), '>=': z3.UGE(x, y)}[op]
    return from_bool(c)


def shift(left, a, b, ub):
    a, b = promote(a), promote(b)
    t = a.t
    w = t.w
    # shift count: negative or >= width is UB
    if b.t.s:
        ub.add(b.v < 0)
    cnt = convert(CV(b.v, CT(b.t.w, False)), CT(w, False)).v if b.t.w != w else b.v
    if b.t.w > w:
        ub.add(z3.UGE(b.v, z3.BitVecVal(w, b.t.w)))
    else:
        ub.add(z3.UGE(cnt, z3.BitVecVal(w, w)))
    if left:
        r = a.v << cnt
        if t.s:
            ub.add(a.v < 0)
            # result must be representable: (a << cnt) >> cnt == a and sign bit clear
            ub.add(z3.Or(z3.LShR(r, cnt) != a.v, r < 0))
    else:
        r = (a.v >> cnt) if t.s else z3.LShR(a.v, cnt)  # arithmetic shift for negative signed (gcc/clang)
    return CV(r, t)


def neg(a, ub):
    a = promote(a)
    if a.t.s:
        ub.add(a.v == z3.BitVecVal(1 << (a.t.w - 1), a.t.w))
    return CV(-a.v, a.t)


def lnot(a):
    return from_bool(a.v == 0)


# --------------------------------------------------------------------------------------------
def int_ctype(width, signed):
    """C type nmfu's documentation promises for `int{size N, signed/unsigned}` (default: 32-bit signed)"""
    w = {None: 32, 1: 8, 2: 16, 4: 32, 8: 64}.get(width)
    if w is None:
        raise ValueError('unsupported int width %r' % (width,))
    return CT(w, bool(signed))


def counter_ctype(maxval):
    """smallest unsigned type that holds maxval"""
    if maxval is None:
        return UINT
    for w in (8, 16, 32):
        if maxval < (1 << w):
            return CT(w, False)
    return ULONG
