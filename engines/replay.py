"""Concrete replay: gcc-built emitted C with a generated driver, and the concrete run of the abstract machine.

A scenario is: optional forced pre-state (control index + output values, as the models of one-step queries give them) or a
plain start(); then a list of calls ('feed', bytes) / ('end',) / ('free',). Both sides produce the same kind of log:
  [('HOOK', name, inval, outs), ..., ('RET', code name, offset or None, outs)] per call.
"""
import os, subprocess, shutil, re
import z3
from . import nm, absm, symx, cexpr as C
from .nm import N, End

OST = N.OutputStorageType


def _outs_fmt_c(comp, layout, dynamic):
    """C statements printing all outputs in canonical form"""
    lines = []
    for n, o in comp.spec.items():
        if n in layout.ct:
            if layout.ct[n].s:
                lines.append(f'printf(" {n}=%lld", (long long)s->c.{n});')
            else:
                lines.append(f'printf(" {n}=%llu", (unsigned long long)s->c.{n});')
        else:
            isdyn = dynamic and o.type == OST.STR
            lines.append(f'printf(" {n}=%u:", (unsigned)s->{n}_counter);')
            base = f'((const unsigned char*)s->c.{n})' if o.type == OST.STR else f'((const unsigned char*)&s->c.{n})'
            lim = f's->{n}_counter'
            body = f'for (unsigned i = 0; i < (unsigned)({lim}) && i < {layout.size[n]}u; ++i) printf("%02x", {base}[i]);'
            if o.type == OST.STR and o.str_null:
                body += f' if ((unsigned)({lim}) < {layout.size[n]}u) printf("/%02x", {base}[{lim}]); else printf("/xx");'
            if isdyn:
                lines.append(f'if (!s->c.{n}) printf("NULL"); else {{ {body} }}')
            else:
                lines.append(body)
    return '\n    '.join(lines)


def make_driver(comp, layout, scenario):
    name = comp.name
    cfg = comp.cfg
    dynamic = cfg['ALLOCATE_STR_SPACE_DYNAMIC']
    indirect = cfg['INDIRECT_START_PTR']
    codes = ['OK', 'FAIL', 'DONE'] + ['FINISH_' + c for c in comp.dctx.finish_codes] + ['YIELD_' + c for c in comp.dctx.yield_codes]
    out = ['#include <stdio.h>', '#include <string.h>', '#include <stdlib.h>', f'#include "{name}.h"', '',
           f'static const char *codes[] = {{{", ".join(chr(34) + c + chr(34) for c in codes)}}};',
           f'static void dump({name}_state_t *s) {{', '    ' + _outs_fmt_c(comp, layout, dynamic), '    printf("\\n");', '}']
    for h in comp.dctx.hooks:
        hn = f'{name}_{h}_hook' if cfg['HOOK_GLOBAL'] else f'hook_{h}'
        out.append(f'{"" if cfg["HOOK_GLOBAL"] else "static "}void {hn}({name}_state_t *s, uint8_t inval) {{ printf("HOOK {h} %u", (unsigned)inval); dump(s); }}')
    out.append('int main(void) {')
    out.append(f'    static {name}_state_t S; int r; (void)r;')
    out.append('    memset(&S, 0x5a, sizeof S);')
    if not cfg['HOOK_GLOBAL']:
        for h in comp.dctx.hooks:
            out.append(f'    S.{h}_hook = hook_{h};')
    pre = scenario.get('pre')
    if pre is None:
        out.append(f'    r = {name}_start(&S); printf("RET %s -1", codes[r]); dump(&S);')
    else:
        if dynamic:
            for n, o in comp.spec.items():
                if o.type == OST.STR:
                    out.append(f'    S.c.{n} = NULL;')
        for n, v in pre.get('vals', {}).items():
            if v is None:
                continue
            o = comp.spec[n]
            if o.type == OST.ENUM:
                out.append(f'    S.c.{n} = ({name}_out_{n}_t){v};')
            else:
                out.append(f'    S.c.{n} = {v}{"ULL" if not layout.ct[n].s else "LL"};')
        for n, sv in pre.get('strs', {}).items():
            o = comp.spec[n]
            ln, bs = sv['len'], sv['bytes']
            isdyn = dynamic and o.type == OST.STR
            if isdyn:
                if sv.get('alloc', True):
                    out.append(f'    S.c.{n} = malloc({layout.size[n]});')
                else:
                    out.append(f'    S.c.{n} = NULL;')
            if not isdyn or sv.get('alloc', True):
                base = f'((unsigned char*)S.c.{n})' if o.type == OST.STR else f'((unsigned char*)&S.c.{n})'
                for i, b in enumerate(bs):
                    if b is not None:
                        out.append(f'    {base}[{i}] = {b};')
            out.append(f'    S.{n}_counter = {ln};')
        out.append(f'    S.state = {pre["state"]};')
    for ci, call in enumerate(scenario['calls']):
        if call[0] == 'feed':
            bs = list(call[1])
            arr = ', '.join(str(b) for b in bs) or '0'
            out.append(f'    {{ static const uint8_t c[] = {{{arr}}}; const uint8_t *p = c;')
            if indirect:
                fy = 3 + len(comp.dctx.finish_codes)
                out.append(f'      int guard = 0; do {{ r = {name}_feed(&p, c + {len(bs)}, &S); printf("RET %s %ld", codes[r], (long)(p - c)); dump(&S); }} while (r >= {fy} && ++guard < 4096); }}')
            else:
                out.append(f'      r = {name}_feed(p, c + {len(bs)}, &S); printf("RET %s -1", codes[r]); dump(&S); }}')
        elif call[0] == 'end':
            out.append(f'    r = {name}_end(&S); printf("RET %s -1", codes[r]); dump(&S);')
        elif call[0] == 'free':
            out.append(f'    {name}_free(&S); printf("FREED\\n");')
    out.append('    printf("STATE %u\\n", (unsigned)S.state);')
    out.append('    return 0;')
    out.append('}')
    return '\n'.join(out) + '\n'


def run_c(comp, layout, scenario, sanitize=False, timeout=20):
    """returns (log lines list, diagnostics). log = parsed tuples"""
    drv = make_driver(comp, layout, scenario)
    exe, diag = nm.build_binary(comp.header, comp.source, drv, comp.name, sanitize=sanitize)
    if exe is None:
        return None, 'build failed: ' + diag
    try:
        env = dict(os.environ, ASAN_OPTIONS='detect_leaks=1:abort_on_error=0', UBSAN_OPTIONS='print_stacktrace=0')
        try:
            r = subprocess.run([exe], capture_output=True, text=True, timeout=timeout, env=env, errors='replace')
        except subprocess.TimeoutExpired:
            return [('TIMEOUT',)], 'timeout'
        log = parse_log(r.stdout)
        if r.returncode != 0:
            log.append(('CRASH', r.returncode, r.stderr[:600]))
        return log, r.stderr[:1500]
    finally:
        shutil.rmtree(os.path.dirname(exe), ignore_errors=True)


def parse_outs(s):
    d = {}
    for m in re.finditer(r' (\w+)=(\S*)', s):
        d[m.group(1)] = m.group(2)
    return d


def parse_log(text):
    log = []
    for line in text.splitlines():
        if line.startswith('HOOK '):
            m = re.match(r'HOOK (\w+) (\d+)(.*)$', line)
            log.append(('HOOK', m.group(1), int(m.group(2)), parse_outs(m.group(3))))
        elif line.startswith('RET '):
            m = re.match(r'RET (\w+) (-?\d+)(.*)$', line)
            log.append(('RET', m.group(1), int(m.group(2)), parse_outs(m.group(3))))
        elif line.startswith('STATE '):
            log.append(('STATE', int(line.split()[1])))
        elif line.startswith('FREED'):
            log.append(('FREED',))
    return log


# ------------------------------------------------------------------------------------------
def concrete_data(layout, pre):
    d = absm.Data(layout)
    for n in layout.ct:
        v = pre['vals'].get(n)
        d.vals[n] = None if v is None else C.CV(z3.BitVecVal(v, layout.ct[n].w), layout.ct[n])
    for n in layout.cnt:
        sv = pre['strs'][n]
        arr = z3.K(z3.BitVecSort(64), z3.BitVecVal(0, 8))
        for i, b in enumerate(sv['bytes']):
            if b is not None:
                arr = z3.Store(arr, z3.BitVecVal(i, 64), z3.BitVecVal(b, 8))
        d.strs[n] = absm.StrVal(z3.BitVecVal(sv['len'], layout.cnt[n].w), arr)
    return d


def fmt_outs(layout, spec, snap, null_strs=()):
    vals, strs = snap
    d = {}
    for n in spec:
        if n in layout.ct:
            v = vals[n]
            if v is None:
                d[n] = '?'
                continue
            x = z3.simplify(v.v if hasattr(v, 'v') else v)
            if not z3.is_bv_value(x):
                d[n] = '?'
                continue
            x = x.as_long()
            if layout.ct[n].s and x >= (1 << (layout.ct[n].w - 1)):
                x -= 1 << layout.ct[n].w
            d[n] = str(x)
        else:
            ln, arr = strs[n]
            l = z3.simplify(ln)
            if not z3.is_bv_value(l):
                d[n] = '?'
                continue
            l = l.as_long()
            hx = ''
            for i in range(min(l, layout.size[n])):
                b = z3.simplify(z3.Select(arr, z3.BitVecVal(i, 64)))
                hx += '%02x' % b.as_long() if z3.is_bv_value(b) else '??'
            d[n] = f'{l}:{hx}'
    return d


def run_absm(machine, comp, scenario, start_data=None):
    """concrete abstract-machine run of a scenario. Returns log in the same format (offsets: consumed count)."""
    layout = machine.layout
    pre = scenario.get('pre')
    log = []
    if pre is None:
        data = start_data if start_data is not None else layout.initial()
        st = machine.m.start
        log.append(('RET', 'OK', -1, None))
    else:
        data = concrete_data(layout, pre)
        st = machine.m.states[pre['state']]
    done = None
    for call in scenario['calls']:
        if call[0] == 'feed':
            bs = list(call[1])
            i = 0
            code = 'OK'
            r = None
            guard = 0
            while i < len(bs):
                guard += 1
                if done or guard > 100000:
                    code = done or 'UNWIND'
                    break
                ctx = symx.Ctx()
                ev = []
                r = machine.dispatch(ctx, st, z3.BitVecVal(bs[i], 8), data, ev)
                for e in ev:
                    log.append(('HOOK', e[1], z3.simplify(e[2]).as_long(), fmt_outs(layout, comp.spec, e[3])))
                st, data = r.state, r.data
                if r.consumed and not (r.code == 'DONE' or r.code.startswith('FINISH_')):
                    i += 1
                if r.code == 'OK':
                    continue
                if r.code.startswith('YIELD_'):
                    # the protocol re-invokes feed with the pointer as it is: the run continues
                    log.append(('RET', r.code, i, fmt_outs(layout, comp.spec, data.snapshot())))
                    continue
                code = r.code
                if r.code == 'STUCK':
                    code = 'OK'
                    break
                done = r.code
                break
            log.append(('RET', code, i, fmt_outs(layout, comp.spec, data.snapshot())))
        elif call[0] == 'end':
            if done:
                log.append(('RET', done, -1, fmt_outs(layout, comp.spec, data.snapshot())))
                continue
            ctx = symx.Ctx()
            ev = []
            r = machine.dispatch(ctx, st, End, data, ev)
            for e in ev:
                log.append(('HOOK', e[1], z3.simplify(e[2]).as_long(), fmt_outs(layout, comp.spec, e[3])))
            st, data = r.state, r.data
            log.append(('RET', r.code, -1, fmt_outs(layout, comp.spec, data.snapshot())))
            done = r.code
        elif call[0] == 'free':
            log.append(('FREED',))
    return log, st


def outs_equal(a, b):
    """compare formatted outs; '?' and '??' (indeterminate on the abstract side) match anything"""
    if a is None or b is None:
        return True
    for k in set(a) | set(b):
        x, y = a.get(k), b.get(k)
        if x is None or y is None:
            return False
        if x == '?' or y == '?':
            continue
        if ':' in x and ':' in y:
            lx, hx = x.split('/')[0].split(':', 1)
            ly, hy = y.split('/')[0].split(':', 1)
            if lx != ly:
                return False
            # the C-side dump of a terminated string carries the byte AT the length ('/00'; '/xx' = not applicable): the abstract string is
            # NUL-terminated by definition, so any other byte there is a difference (a terminator that was not written)
            for side in (x, y):
                if '/' in side and side.split('/', 1)[1] not in ('00', 'xx', ''):
                    return False
            if hx == 'NULL' or hy == 'NULL':
                if lx != '0':
                    return False
                continue
            if len(hx) != len(hy):
                return False
            for i in range(0, len(hx), 2):
                if hx[i:i + 2] == '??' or hy[i:i + 2] == '??':
                    continue
                if hx[i:i + 2] != hy[i:i + 2]:
                    return False
            continue
        if x != y:
            return False
    return True


def logs_differ(clog, alog, compare_offsets=True, compare_final_outs_after_terminal=False):
    """first difference between C log and absm log or None"""
    ci = [e for e in clog if e[0] in ('HOOK', 'RET', 'CRASH', 'TIMEOUT')]
    ai = [e for e in alog if e[0] in ('HOOK', 'RET')]
    for k in range(max(len(ci), len(ai))):
        if k >= len(ci) or k >= len(ai):
            return f'event #{k}: C has {ci[k] if k < len(ci) else None}, abstract machine has {ai[k] if k < len(ai) else None}'
        c, a = ci[k], ai[k]
        if c[0] != a[0]:
            return f'event #{k}: C {c} vs abstract {a}'
        if c[0] == 'HOOK':
            if c[1] != a[1] or c[2] != a[2] or not outs_equal(c[3], a[3]):
                return f'event #{k}: C {c} vs abstract {a}'
        elif c[0] == 'RET':
            if c[1] != a[1]:
                return f'event #{k}: C returns {c[1]}, abstract machine {a[1]}'
            if compare_offsets and c[2] >= 0 and a[2] >= 0 and c[2] != a[2]:
                return f'event #{k}: C leaves *start at {c[2]}, abstract machine consumed/offset {a[2]}'
            terminal = c[1] in ('FAIL', 'DONE') or c[1].startswith('FINISH_')
            if not outs_equal(c[3], a[3]):
                return f'event #{k}: outputs after call differ: C {c[3]} vs abstract {a[3]}'
    return None


def observable_trace(log, call_starts):
    """normalise a C/abstract log of consecutive feed calls into the chunking-independent observable trace:
    hooks, yields with absolute offsets, the terminal/last result with absolute offset and the outputs there"""
    out = []
    ci = 0
    first = True
    last = None
    for e in log:
        if e[0] == 'HOOK':
            out.append(e)
        elif e[0] == 'RET':
            if first and e[2] == -1 and e[1] == 'OK' and e[3] is None:
                first = False
                continue
            first = False
            base = call_starts[ci] if ci < len(call_starts) else 0
            off = e[2] + base if e[2] >= 0 else -1
            if e[1].startswith('YIELD_'):
                out.append(('YIELD', e[1], off, e[3]))
                continue
            last = ('RET', e[1], off, e[3])
            ci += 1
            if e[1] != 'OK':
                break
        elif e[0] in ('CRASH', 'TIMEOUT'):
            out.append(e)
            break
    if last is not None:
        out.append(last)
    return out


def traces_differ(t1, t2):
    for k in range(max(len(t1), len(t2))):
        if k >= len(t1) or k >= len(t2):
            return f'event #{k}: {t1[k] if k < len(t1) else None} vs {t2[k] if k < len(t2) else None}'
        a, b = t1[k], t2[k]
        if a[0] != b[0] or a[1] != b[1]:
            return f'event #{k}: {a[:3]} vs {b[:3]}'
        if a[0] in ('CRASH', 'TIMEOUT'):
            continue
        if a[2] != b[2] and not (a[2] == -1 or b[2] == -1):
            return f'event #{k}: {a[:3]} vs {b[:3]}'
        if not outs_equal(a[3], b[3]):
            return f'event #{k} {a[:3]}: outputs {a[3]} vs {b[3]}'
    return None
