"""Machine-vs-machine comparison at L2 (C05, C13, C20): solver-checked one-step simulation in eager normal form over a candidate
state relation, and bounded model checking from start() when a step differs."""
import time
import z3
from . import symx, absm, cexpr as C
from .nm import N, End, Else

OST = N.OutputStorageType


def data_equal_conds(layout, da, db, tag=''):
    conds = []
    sa, sb = da.snapshot() if hasattr(da, 'snapshot') else da, db.snapshot() if hasattr(db, 'snapshot') else db
    for n, o in layout.spec.items():
        if n in layout.ct:
            x, y = sa[0][n], sb[0][n]
            if x is None or y is None:
                if (x is None) != (y is None):
                    conds.append((f'{tag}{n} assigned on one side only', z3.BoolVal(False)))
                continue
            conds.append((f'{tag}value of {n}', x.v == y.v))
        else:
            l1, a1 = sa[1][n]
            l2, a2 = sb[1][n]
            conds.append((f'{tag}length of {n}', l1 == l2))
            term = o.type == OST.STR and o.str_null
            k = z3.BitVec(f'km_{n}', 64)
            l64 = absm.idx64(l1)
            within = z3.ULE(k, l64) if term else z3.ULT(k, l64)
            conds.append((f'{tag}bytes of {n}', z3.Implies(z3.And(within, z3.ULT(k, layout.size[n])), z3.Select(a1, k) == z3.Select(a2, k))))
    return conds


def events_equal_conds(layout, ea, eb):
    conds = []
    if len(ea) != len(eb):
        conds.append((f'number of events ({[e[:2] for e in ea]} vs {[e[:2] for e in eb]})', z3.BoolVal(False)))
        return conds
    for i, (x, y) in enumerate(zip(ea, eb)):
        if x[0] != y[0] or x[1] != y[1]:
            conds.append((f'event #{i} ({x[:2]} vs {y[:2]})', z3.BoolVal(False)))
            continue
        if x[0] == 'hook':
            conds += data_equal_conds(layout, x[3], y[3], tag=f'hook #{i}: ')
    return conds


def step_relation(ma, mb, layout, rel, stats, eof, key, timeout_ms=20000, states=None):
    """verify rel (dict stateA -> stateB) as a simulation: returns list of failing steps (dicts with model data)"""
    d = stats.d
    fails = []
    for sa, sb in rel.items():
        if states is not None and sa not in states:
            continue
        if absm.is_pending_state(ma.m, sa) and sa is not ma.m.start:
            continue   # never a resting state of the eager machine
        for sym_is_end in ([False, True] if eof else [False]):
            solver = z3.Solver(); solver.set('timeout', timeout_ms)
            data, inv = layout.symbolic()
            b = z3.BitVec('chunk_0', 8)
            sym = End if sym_is_end else b
            sx = {'queries': 0, 'solver_time': 0.0}
            try:
                pa = symx.explore(lambda ctx: absm.estep(ma, ctx, sa, sym, data), solver, assumptions=inv, stats=sx, max_paths=3000)
                pb = symx.explore(lambda ctx: absm.estep(mb, ctx, sb, sym, data), solver, assumptions=inv, stats=sx, max_paths=3000)
            except absm.Unsupported as e:
                d['cov'].setdefault('unsupported', []).append(f'{key}: {e}')
                continue
            d['queries'] += sx['queries']; d['solver_time'] += sx['solver_time']
            d['cov']['states'] += 1
            d['cov']['transitions'] += len(pa)
            pcB = {i: (z3.And(*pc) if pc else z3.BoolVal(True)) for i, (pc, r) in enumerate(pb)}
            for pc, ra in pa:
                solver.push(); solver.add(*inv, *pc, z3.Not(z3.Or(*ra.ub)) if ra.ub else z3.BoolVal(True))
                remaining = list(range(len(pb)))
                while True:
                    t = time.time(); r0 = solver.check(); d['queries'] += 1; d['solver_time'] += time.time() - t
                    if r0 != z3.sat:
                        if r0 == z3.unknown:
                            d['inconclusive'].append(f'{key} overlap enumeration')
                        break
                    mdl0 = solver.model()
                    j = next((i for i in remaining if z3.is_true(mdl0.eval(pcB[i], model_completion=True))), None)
                    if j is None:
                        d['harness_errors'].append(f'paths do not cover input space at {key}'); break
                    remaining.remove(j)
                    rb = pb[j][1]
                    conds = []
                    conds.append((f'result ({ra.code} vs {rb.code})', z3.BoolVal(ra.code == rb.code)))
                    conds.append((f'consumed ({ra.consumed} vs {rb.consumed})', z3.BoolVal(ra.consumed == rb.consumed)))
                    terminal = ra.code in ('DONE', 'FAIL') or ra.code.startswith('FINISH_')
                    if not terminal:
                        want = rel.get(ra.state)
                        conds.append((f'successor state ({ma.m.name(ra.state)} -> {mb.m.name(want) if want is not None else None} vs {mb.m.name(rb.state)})',
                                      z3.BoolVal(want is rb.state)))
                        conds.append(('accepting status of the resting state', z3.BoolVal((ra.state in ma.m.accept) == (rb.state in mb.m.accept))))
                    conds += events_equal_conds(layout, ra.events, rb.events)
                    conds += data_equal_conds(layout, ra.data, rb.data)
                    goal = z3.And(*[c for _, c in conds])
                    d['obligations'] += 1; d['cov']['pairs'] += 1
                    solver.push(); solver.add(pcB[j], z3.Not(z3.Or(*rb.ub)) if rb.ub else z3.BoolVal(True), z3.Not(goal))
                    t = time.time(); r, mdl = symx.robust_check(solver); d['queries'] += 1; d['solver_time'] += time.time() - t
                    solver.pop()
                    if r == z3.unsat:
                        d['discharged'] += 1
                    elif r == z3.unknown:
                        d['inconclusive'].append(f'{key} step')
                    else:
                        bad = [nm_ for nm_, c in conds if z3.is_false(mdl.eval(c, model_completion=True))]
                        fails.append({'state_a': ma.m.name(sa), 'state_b': mb.m.name(sb), 'sym': 'end' if sym_is_end else mdl.eval(b, model_completion=True).as_long(),
                                      'detail': '; '.join(bad[:3])})
                    solver.add(z3.Not(pcB[j]))
                solver.pop()
            d['nontrivial'].append(f'{key}@{ma.m.name(sa)}/{"end" if sym_is_end else "byte"}')
    return fails


def erun(machine, layout, bs, with_end, start_data=None, nvar=None, start_actions=None):
    """function for symx.explore: eager run from start() over symbolic bytes bs with symbolic length n (length decided by branching
    on 'stop here'); returns (trace, outcome)"""
    nvar = z3.BitVec('n_len', 8) if nvar is None else nvar

    def fn(ctx):
        snap = machine.m
        data = start_data.copy() if start_data is not None else layout.initial(symbolic_uninit=True)
        events = []
        ubs = []
        # start(): the actions that precede the first match run before any input
        ub0 = C.UB()
        st0 = snap.start
        for a in (start_actions or ()):
            r = machine.act(ctx, a, data, None, ub0, events)
            if r is None:
                continue
            if r[0] == 'ret':
                if r[1].startswith('YIELD_'):
                    events.append(('yield', r[1]))
                    continue
                return (list(events), (r[1], 0), data, [ub0.any()], 0)
            st0 = r[1]
            break
        ubs.append(ub0.any())
        code, st, data = absm.eflush(machine, ctx, st0, data, events, None, ubs)
        trace = list(events)
        if code is not None:
            return (trace, (code, 0), data, ubs, 0)
        if machine.immediate_done(st):
            return (trace, ('DONE', 0), data, ubs, 0)
        i = 0
        while i < len(bs):
            if ctx.br(nvar == i):
                break
            r = absm.estep(machine, ctx, st, bs[i], data)
            ubs += r.ub
            trace += r.events
            st, data = r.state, r.data
            if r.consumed:
                i += 1
            if r.code != 'OK':
                if r.code == 'STUCK':
                    return (trace, ('STUCK', i), data, ubs, i)
                return (trace, (r.code, i), data, ubs, i)
        else:
            ctx.assume(nvar == len(bs))
        if with_end:
            r = absm.estep(machine, ctx, st, End, data)
            ubs += r.ub
            trace += r.events
            return (trace, ('END:' + r.code, i), r.data, ubs, i)
        return (trace, ('INCOMPLETE', i), data, ubs, i)
    return fn


def bmc(ma, mb, layout, K, with_end, stats, key, max_paths=6000, timeout_ms=30000, start_a=None, start_b=None):
    """bounded comparison from start(): all inputs of length <= K (symbolic bytes and length). Returns list of witnesses (dicts)"""
    d = stats.d
    solver = z3.Solver(); solver.set('timeout', timeout_ms)
    bs = [z3.BitVec(f'in_{i}', 8) for i in range(K)]
    nvar = z3.BitVec('n_len', 8)
    base = [z3.ULE(nvar, K)]
    sx = {'queries': 0, 'solver_time': 0.0}
    try:
        pa = symx.explore(erun(ma, layout, bs, with_end, start_actions=start_a), solver, assumptions=base, stats=sx, max_paths=max_paths)
        pb = symx.explore(erun(mb, layout, bs, with_end, start_actions=start_b), solver, assumptions=base, stats=sx, max_paths=max_paths)
    except symx.PathBudget:
        d['cov'].setdefault('bmc_path_budget_exceeded', []).append(key)
        return None
    except absm.Unsupported as e:
        d['cov'].setdefault('unsupported', []).append(f'{key}: {e}')
        return None
    d['queries'] += sx['queries']; d['solver_time'] += sx['solver_time']
    out = []
    pcB = {i: (z3.And(*pc) if pc else z3.BoolVal(True)) for i, (pc, r) in enumerate(pb)}
    for pc, ra in pa:
        solver.push(); solver.add(*base, *pc, z3.Not(z3.Or(*ra[3])) if ra[3] else z3.BoolVal(True))
        remaining = list(range(len(pb)))
        while True:
            r0 = solver.check(); d['queries'] += 1
            if r0 != z3.sat:
                if r0 == z3.unknown:
                    d['inconclusive'].append(f'{key} bmc overlap')
                break
            mdl0 = solver.model()
            j = next((i for i in remaining if z3.is_true(mdl0.eval(pcB[i], model_completion=True))), None)
            if j is None:
                d['harness_errors'].append(f'bmc paths do not cover input space at {key}'); break
            remaining.remove(j)
            rb = pb[j][1]
            conds = [(f'outcome ({ra[1]} vs {rb[1]})', z3.BoolVal(ra[1] == rb[1]))]
            conds += events_equal_conds(layout, ra[0], rb[0])
            conds += data_equal_conds(layout, ra[2], rb[2])
            goal = z3.And(*[c for _, c in conds])
            d['obligations'] += 1
            solver.push(); solver.add(pcB[j], z3.Not(z3.Or(*rb[3])) if rb[3] else z3.BoolVal(True), z3.Not(goal))
            r, mdl = symx.robust_check(solver); d['queries'] += 1
            solver.pop()
            if r == z3.unsat:
                d['discharged'] += 1
            elif r == z3.unknown:
                d['inconclusive'].append(f'{key} bmc')
            else:
                n = mdl.eval(nvar, model_completion=True).as_long()
                inp = [mdl.eval(x, model_completion=True).as_long() for x in bs[:n]]
                bad = [nm_ for nm_, c in conds if z3.is_false(mdl.eval(c, model_completion=True))]
                out.append({'input': inp, 'end': with_end, 'detail': '; '.join(bad[:3])})
            solver.add(z3.Not(pcB[j]))
        solver.pop()
    d['cov']['bmc_paths'] = d['cov'].get('bmc_paths', 0) + len(pa) + len(pb)
    return out


def concrete_trace(machine, layout, inp, with_end, start_actions=None):
    """concrete eager run; returns printable trace"""
    from . import replay
    bs = [z3.BitVecVal(x, 8) for x in inp]
    ctx = symx.Ctx()
    tr, outc, data, ubs, i = erun(machine, layout, bs, with_end, nvar=z3.BitVecVal(len(inp), 8), start_actions=start_actions)(ctx)
    out = []
    for e in tr:
        if e[0] == 'hook':
            out.append(('HOOK', e[1], replay.fmt_outs(layout, layout.spec, e[3])))
        else:
            out.append(tuple(e[:2]))
    return out, outc, replay.fmt_outs(layout, layout.spec, data.snapshot())
