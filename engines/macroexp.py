"""Own textual macro expander (C13 oracle): splices source text using lark token positions; knows nothing of nmfu's
_parse_macro_call / bind_arguments_for / _lookup_named_entity. A call statement is replaced by the macro body with every
identifier token that names an argument replaced by the argument's source text; repeated until no macro call is left."""
import lark
from .nm import N


class ExpandError(Exception):
    pass


def _parse(src):
    return N.parser.parse(src, start='start')


def _macros(tree, src):
    ms = {}
    for d in tree.find_data('macro_decl'):
        name = d.children[0].value
        args_t = d.children[1]
        args = []
        if args_t.data != 'macro_arg_empty':
            for a in args_t.children:
                args.append((a.data, a.children[-1].value))
        # body: between the '{' after the argument list and the final '}'
        lb = src.index('{', args_t.meta.end_pos)
        body_start, body_end = lb + 1, d.meta.end_pos - 1
        ms[name] = {'args': args, 'span': (d.meta.start_pos, d.meta.end_pos), 'body': (body_start, body_end), 'tree': d}
    return ms


def _ident_tokens(tree, lo, hi):
    out = []
    for t in tree.scan_values(lambda v: isinstance(v, lark.Token) and v.type == 'IDENTIFIER'):
        if t.start_pos is not None and lo <= t.start_pos and t.end_pos <= hi:
            out.append(t)
    return out


def expand(src, max_steps=200, info=None):
    """returns the macro-free program text. info (dict) receives 'shadowing': some expr/match argument text mentions an identifier
    that is also a parameter name of the macro being called (textual substitution keeps the caller's meaning)"""
    import re
    if info is None:
        info = {}
    info.setdefault('shadowing', False)
    last = [None, None]

    def _parse(text):       # the same text is looked at up to three times (first scan, a round, dropping the declarations): parse it once
        if last[0] != text:
            last[0], last[1] = text, N.parser.parse(text, start='start')
        return last[1]
    try:
        t0 = _parse(src)
        ms0 = _macros(t0, src)
        for c in t0.find_data('call_stmt'):
            callee = ms0.get(c.children[0].value)
            if callee is None:
                continue
            params = {an for _, an in callee['args']}
            for (kind, an), a in zip(callee['args'], c.children[1:]):
                # a bare identifier argument is resolved when the call is bound (caller's scope); only identifiers INSIDE a larger
                # expression/match argument are looked up later, in the callee's dynamic scope
                if kind in ('macro_match_expr_arg', 'macro_int_expr_arg') and not isinstance(a, lark.Token) and str(a.data) != 'identifier_const':
                    ids = {t.value for t in a.scan_values(lambda v: isinstance(v, lark.Token) and v.type == 'IDENTIFIER')}
                    if ids & params:
                        info['shadowing'] = True
    except lark.LarkError:
        pass
    steps = 0
    while True:
        # one round: every call that stands in the parser body now is replaced (they cannot overlap: arguments are expressions, not
        # statements); calls inside the spliced bodies are handled by the next round. All positions refer to this round's text.
        tree = _parse(src)
        ms = _macros(tree, src)
        parser = next(tree.find_data('parser_decl'))
        plo, phi = parser.meta.start_pos, parser.meta.end_pos
        calls = [c for c in tree.find_data('call_stmt') if plo <= c.meta.start_pos < phi and c.children[0].value in ms]
        if not calls:
            break
        calls.sort(key=lambda c: c.meta.start_pos)
        in_math = set()
        for sub in tree.iter_subtrees():
            if sub.data == 'math_var':
                in_math.add(id(sub.children[0]))
        pieces, at = [], 0
        for call in calls:
            steps += 1
            if steps > max_steps:
                raise ExpandError('expansion does not terminate (recursive macro?)')
            assert call.meta.start_pos >= at
            m = ms[call.children[0].value]
            actual = call.children[1:]
            if len(actual) != len(m['args']):
                raise ExpandError('wrong number of arguments for ' + call.children[0].value)
            texts = {}
            for (kind, an), a in zip(m['args'], actual):
                if isinstance(a, lark.Token):
                    texts[an] = a.value
                else:
                    lo_, hi_ = a.meta.start_pos, a.meta.end_pos
                    # `"[" _math_expr "]"` is inlined by the grammar: the brackets belong to the argument's text
                    i, j = lo_ - 1, hi_
                    while i >= 0 and src[i] in ' \t\n':
                        i -= 1
                    while j < len(src) and src[j] in ' \t\n':
                        j += 1
                    if a.data not in ('regex', 'binary_regex', 'concat_expr', 'atom', 'string_const', 'string_case_const', 'binary_string_const', 'identifier_const',
                                      'number_const', 'char_const', 'bool_const', 'end_expr') and i >= 0 and j < len(src) and src[i] == '[' and src[j] == ']':
                        lo_, hi_ = i, j + 1
                    texts[an] = src[lo_:hi_]
            params = {an for _, an in m['args']}
            for (kind, an), txt in zip(m['args'], [texts[an] for _, an in m['args']]):
                if kind in ('macro_match_expr_arg', 'macro_int_expr_arg') and params & set(re.findall(r'[A-Za-z_][A-Za-z_0-9]*', re.sub(r'"(?:[^"\\\\]|\\\\.)*"|/(?:[^/\\\\]|\\\\.)*/', '', txt))):
                    info['shadowing'] = True
            lo, hi = m['body']
            body = src[lo:hi]
            toks = [t for t in _ident_tokens(m['tree'], lo, hi) if t.value in texts]
            for t in sorted(toks, key=lambda t: -t.start_pos):
                txt = texts[t.value]
                if id(t) in in_math and txt.startswith('[') and txt.endswith(']'):
                    txt = '(' + txt[1:-1] + ')'     # inside a math expression the brackets of an expr argument become parentheses
                body = body[:t.start_pos - lo] + txt + body[t.end_pos - lo:]
            semi = src.index(';', call.meta.end_pos)
            pieces.append(src[at:call.meta.start_pos] + '\n' + body + '\n')
            at = semi + 1
        src = ''.join(pieces) + src[at:]
    # drop the macro declarations
    tree = _parse(src)
    ms = _macros(tree, src)
    for m in sorted(ms.values(), key=lambda m: -m['span'][0]):
        src = src[:m['span'][0]] + src[m['span'][1]:]
    return src
