"""symx: a small path-enumerating symbolic executor (re-execution with decision prefixes).

Interpreters are ordinary Python over z3 terms; every data-dependent `if` goes through `ctx.br(cond)`. `explore(fn)` runs
`fn(ctx)` once per feasible decision sequence and returns [(path condition list, result)]. With concrete inputs (z3 values)
conditions fold to constants and no solver call is made: the same interpreters serve for replay.
"""
import time
import z3


class PathBudget(Exception):
    pass


class Infeasible(Exception):
    pass


class Ctx:
    def __init__(self, solver=None, assumptions=(), stats=None):
        self.solver = solver or z3.Solver()
        self.base = list(assumptions)
        self.prefix = []
        self.decisions = []
        self.pc = []
        self.pending = []
        self.stats = stats if stats is not None else {}
        self.stats.setdefault('queries', 0)
        self.stats.setdefault('solver_time', 0.0)

    def _sat(self, extra):
        self.stats['queries'] += 1
        t = time.time()
        self.solver.push()
        self.solver.add(*self.base, *self.pc, extra)
        r = self.solver.check()
        self.solver.pop()
        self.stats['solver_time'] += time.time() - t
        if r == z3.unknown:
            raise RuntimeError('solver returned unknown in feasibility check')
        return r == z3.sat

    def br(self, cond):
        """decide a branch on z3 Bool `cond` (or python bool)"""
        if isinstance(cond, bool):
            return cond
        cond = z3.simplify(cond)
        if z3.is_true(cond):
            return True
        if z3.is_false(cond):
            return False
        i = len(self.decisions)
        if i < len(self.prefix):
            d = self.prefix[i]
        else:
            ft = self._sat(cond)
            ff = self._sat(z3.Not(cond))
            if ft and ff:
                d = True
                self.pending.append(self.decisions + [False])
            elif ft:
                d = True
            elif ff:
                d = False
            else:
                raise Infeasible()
        self.decisions.append(d)
        self.pc.append(cond if d else z3.Not(cond))
        return d

    def assume(self, cond):
        """restrict the current path (used for preconditions found during execution)"""
        cond = z3.simplify(cond) if not isinstance(cond, bool) else z3.BoolVal(cond)
        if z3.is_true(cond):
            return
        self.pc.append(cond)

    def feasible(self, cond):
        cond = z3.simplify(cond) if not isinstance(cond, bool) else z3.BoolVal(cond)
        if z3.is_true(cond):
            return True
        if z3.is_false(cond):
            return False
        return self._sat(cond)


def explore(fn, solver=None, assumptions=(), max_paths=20000, stats=None):
    """returns list of (pc, result). Raises PathBudget if more than max_paths paths."""
    solver = solver or z3.Solver()
    out = []
    work = [[]]
    stats = stats if stats is not None else {}
    while work:
        prefix = work.pop()
        ctx = Ctx(solver, assumptions, stats)
        ctx.prefix = prefix
        try:
            res = fn(ctx)
        except Infeasible:
            continue
        out.append((list(ctx.pc), res))
        work.extend(ctx.pending)
        if len(out) > max_paths:
            raise PathBudget(len(out))
    return out


def is_concrete(v):
    return z3.is_bv_value(v) or z3.is_true(v) or z3.is_false(v) or z3.is_int_value(v)


def robust_check(solver, retry_timeout_ms=120000):
    """solver.check(); on unknown retry once in a fresh solver (other tactic, longer timeout). Returns (result, model or None)"""
    r = solver.check()
    if r == z3.sat:
        return r, solver.model()
    if r == z3.unsat:
        return r, None
    for mk in (lambda: z3.Then('simplify', 'solve-eqs', 'bit-blast', 'sat').solver(), lambda: z3.SolverFor('QF_AUFBV')):
        try:
            s2 = mk()
            s2.set('timeout', retry_timeout_ms)
            s2.add(*solver.assertions())
            r2 = s2.check()
        except z3.Z3Exception:
            continue
        if r2 == z3.sat:
            return r2, s2.model()
        if r2 == z3.unsat:
            return r2, None
    return z3.unknown, None
