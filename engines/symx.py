"""symx: a small path-enumerating symbolic executor (re-execution with decision prefixes).

Interpreters are ordinary Python over z3 terms; every data-dependent `if` goes through `ctx.br(cond)`. `explore(fn)` runs
`fn(ctx)` once per feasible decision sequence and returns [(path condition list, result)]. With concrete inputs (z3 values)
conditions fold to constants and no solver call is made: the same interpreters serve for replay.
"""
import time
import z3


class PathBudget(Exception):
    pass


class Infeasible(Exception):
    pass


class Ctx:
    def __init__(self, solver=None, assumptions=(), stats=None):
        self.solver = solver or z3.Solver()
        self.base = list(assumptions)
        self.prefix = []
        self.decisions = []
        self.pc = []
        self.pending = []
        self.stats = stats if stats is not None else {}
        self.stats.setdefault('queries', 0)
        self.stats.setdefault('solver_time', 0.0)

    def _sat(self, extra):
        self.stats['queries'] += 1
        t = time.time()
        self.solver.push()
        self.solver.add(*self.base, *self.pc, extra)
        r = self.solver.check()
        self.solver.pop()
        self.stats['solver_time'] += time.time() - t
        if r == z3.unknown:
            raise RuntimeError('solver returned unknown in feasibility check')
        return r == z3.sat

    def br(self, cond):
        """decide a branch on z3 Bool `cond` (or python bool)"""
        if isinstance(cond, bool):
            return cond
        cond = z3.simplify(cond)
        if z3.is_true(cond):
            return True
        if z3.is_false(cond):
            return False
        i = len(self.decisions)
        if i < len(self.prefix):
            d = self.prefix[i]
        else:
            ft = self._sat(cond)
            ff = self._sat(z3.Not(cond))
            if ft and ff:
                d = True
                self.pending.append(self.decisions + [False])
            elif ft:
                d = True
            elif ff:
                d = False
            else:
                raise Infeasible()
        self.decisions.append(d)
        self.pc.append(cond if d else z3.Not(cond))
        return d

    def assume(self, cond):
        """restrict the current path (used for preconditions found during execution)"""
        cond = z3.simplify(cond) if not isinstance(cond, bool) else z3.BoolVal(cond)
        if z3.is_true(cond):
            return
        self.pc.append(cond)

    def feasible(self, cond):
        cond = z3.simplify(cond) if not isinstance(cond, bool) else z3.BoolVal(cond)
        if z3.is_true(cond):
            return True
        if z3.is_false(cond):
            return False
        return self._sat(cond)


def explore(fn, solver=None, assumptions=(), max_paths=20000, stats=None, deadline=None):
    """returns list of (pc, result). Raises PathBudget if more than max_paths paths (or, with a deadline, when time.time() passes it)."""
    solver = solver or z3.Solver()
    out = []
    work = [[]]
    stats = stats if stats is not None else {}
    while work:
        if deadline is not None and time.time() > deadline:
            raise PathBudget('time budget')
        prefix = work.pop()
        ctx = Ctx(solver, assumptions, stats)
        ctx.prefix = prefix
        try:
            res = fn(ctx)
        except Infeasible:
            work.extend(ctx.pending)   # the siblings of the decisions taken before the path was abandoned still have to be explored
            continue
        out.append((list(ctx.pc), res))
        work.extend(ctx.pending)
        if len(out) > max_paths:
            raise PathBudget(len(out))
    return out


def is_concrete(v):
    return z3.is_bv_value(v) or z3.is_true(v) or z3.is_false(v) or z3.is_int_value(v)


_HARD = None


def _hard_kinds():
    global _HARD
    if _HARD is None:
        _HARD = {z3.Z3_OP_BMUL: 'mul', z3.Z3_OP_BSDIV: 'sdiv', z3.Z3_OP_BUDIV: 'udiv', z3.Z3_OP_BSREM: 'srem', z3.Z3_OP_BUREM: 'urem',
                 z3.Z3_OP_BSDIV_I: 'sdiv', z3.Z3_OP_BUDIV_I: 'udiv', z3.Z3_OP_BSREM_I: 'srem', z3.Z3_OP_BUREM_I: 'urem', z3.Z3_OP_BSMOD: 'smod', z3.Z3_OP_BSMOD_I: 'smod'}
    return _HARD


def abstract_arith(exprs):
    """replace bit-vector * / % by uninterpreted functions (same symbol for the same operation and width). Unsat of the result
    implies unsat of the original (every model of the original induces one of the abstraction); returns (new exprs, n replaced)"""
    hard = _hard_kinds()
    cache = {}
    ufs = {}
    count = [0]

    def go(e):
        k = e.get_id()
        r = cache.get(k)
        if r is not None:
            return r
        if not z3.is_app(e) or e.num_args() == 0:
            cache[k] = e
            return e
        dk = e.decl().kind()
        if dk == z3.Z3_OP_BMUL:
            # * is associative and commutative: flatten the product tree and order the factors, so that two renderings of the
            # same product (one of them re-associated by a simplifier) abstract to the same term
            leaves = []

            def flat(x):
                if z3.is_app(x) and x.decl().kind() == z3.Z3_OP_BMUL:
                    for i in range(x.num_args()):
                        flat(x.arg(i))
                else:
                    leaves.append(go(x))
            flat(e)
            args = sorted(leaves, key=lambda a: a.get_id())
        else:
            args = [go(e.arg(i)) for i in range(e.num_args())]
        if dk in hard and z3.is_bv(e):
            w = e.size()
            r = args[0]
            for a in args[1:]:
                f = ufs.get((hard[dk], w))
                if f is None:
                    f = z3.Function(f'uf_{hard[dk]}_{w}', z3.BitVecSort(w), z3.BitVecSort(w), z3.BitVecSort(w))
                    ufs[(hard[dk], w)] = f
                r = f(r, a)
                count[0] += 1
        else:
            r = e.decl()(*args) if any(a.get_id() != e.arg(i).get_id() for i, a in enumerate(args)) else e
        cache[k] = r
        return r
    out = [go(x) for x in exprs]
    return out, count[0]


def robust_check(solver, retry_timeout_ms=120000):
    """solver.check() with two helps: (1) queries containing * / % are first tried with those operators abstracted to uninterpreted
    functions (unsat there is unsat here; typical for comparing two renderings of the same expression); (2) on unknown, one retry in a
    fresh solver (other tactic, longer timeout). Returns (result, model or None)"""
    try:
        asr = list(solver.assertions())
        ab, n = abstract_arith(asr)
        if n:
            s0 = z3.Solver()
            s0.set('timeout', 10000)
            s0.add(*ab)
            if s0.check() == z3.unsat:
                return z3.unsat, None
    except z3.Z3Exception:
        pass
    r = solver.check()
    if r == z3.sat:
        return r, solver.model()
    if r == z3.unsat:
        return r, None
    for mk in (lambda: z3.Then('simplify', 'solve-eqs', 'bit-blast', 'sat').solver(), lambda: z3.SolverFor('QF_AUFBV')):
        try:
            s2 = mk()
            s2.set('timeout', retry_timeout_ms)
            s2.add(*solver.assertions())
            r2 = s2.check()
        except z3.Z3Exception:
            continue
        if r2 == z3.sat:
            return r2, s2.model()
        if r2 == z3.unsat:
            return r2, None
    return z3.unknown, None
