"""Relational L3 step (C12): two builds of one program that differ only in representation options are executed symbolically
from alpha-related pre-states (same control index, same abstract data) on the same symbolic byte / End; the solver proves equal
result codes, alpha-related post-states and equal hook sequences for every pair of overlapping paths."""
import time
import z3
from . import symx, absm, llsym, l3 as l3mod, stepcmp, multicall, cexpr as C
from .nm import N

OST = N.OutputStorageType


def convert_data(data, la, lb):
    """abstract data of layout la re-typed for layout lb (only enum widths can differ)"""
    d = absm.Data(lb)
    for n, v in data.vals.items():
        if v is None:
            d.vals[n] = None
        elif lb.ct[n].w == la.ct[n].w:
            d.vals[n] = C.CV(v.v, lb.ct[n])
        else:
            d.vals[n] = C.convert(C.CV(v.v, C.CT(la.ct[n].w, False)), lb.ct[n])
    for n, s in data.strs.items():
        d.strs[n] = s.copy()
    return d


def snap_rel_conds(la, lb, sa, sb, tag=''):
    conds = []
    LA, LB = la.layout, lb.layout
    for n, o in la.comp.spec.items():
        if n in LA.ct:
            x, y = sa[0][n], sb[0][n]
            if x.size() != y.size():
                w = max(x.size(), y.size())
                x = z3.ZeroExt(w - x.size(), x) if x.size() < w else x
                y = z3.ZeroExt(w - y.size(), y) if y.size() < w else y
            conds.append((f'{tag}value of {n}', x == y))
        else:
            l1, a1 = sa[1][n]
            l2, a2 = sb[1][n]
            conds.append((f'{tag}length of {n}', l1 == l2))
            if a1 is None or a2 is None:
                # a NULL buffer stands for the empty string
                if a1 is None:
                    conds.append((f'{tag}{n}: NULL buffer => empty', l1 == 0) if la.ondemand else (f'{tag}{n}: buffer is NULL in a build that never allocates on demand (base)', z3.BoolVal(False)))
                if a2 is None:
                    conds.append((f'{tag}{n}: NULL buffer => empty', l2 == 0) if lb.ondemand else (f'{tag}{n}: buffer is NULL in a build that never allocates on demand (variant)', z3.BoolVal(False)))
                continue
            term = o.type == OST.STR and o.str_null
            k = z3.BitVec(f'kr_{n}', 64)
            l64 = absm.idx64(l1)
            within = z3.ULE(k, l64) if term else z3.ULT(k, l64)
            conds.append((f'{tag}bytes of {n}', z3.Implies(z3.And(within, z3.ULT(k, LA.size[n])), z3.Select(a1[0], a1[1] + k) == z3.Select(a2[0], a2[1] + k))))
    return conds


def rel_state(la, lb, sidx, sym_is_end, alloc_b, stats, timeout_ms=30000, idxmap=None):
    d = stats.d
    findings = []
    solver = z3.Solver(); solver.set('timeout', timeout_ms)
    data, inv0 = la.layout.symbolic()
    data_b = convert_data(data, la.layout, lb.layout)
    inv = stepcmp.pre_inv(la, data, inv0, None) + stepcmp.pre_inv(lb, data_b, [], alloc_b)
    b = z3.BitVec('chunk_0', 8)
    ma = la.image(sidx, data, None, tag='A')
    mb = lb.image(sidx if idxmap is None else idxmap[sidx], data_b, alloc_b, tag='B')
    n = len(la.comp.post.states)
    ms = 60 * (n + 4)
    sx = {'queries': 0, 'solver_time': 0.0}
    if sym_is_end:
        exa = la.call1('end', ma, solver, inv, sx, max_steps=ms)
        exb = lb.call1('end', mb, solver, inv, sx, max_steps=ms)
    else:
        la.add_chunk(ma, 1, symbols=[b]); lb.add_chunk(mb, 1, symbols=[b])
        exa = la.call_feed(ma, 1, solver, inv, sx, max_steps=ms)
        exb = lb.call_feed(mb, 1, solver, inv, sx, max_steps=ms)
    # inputs on which the program's own expressions have undefined C behaviour or read unspecified buffer content are outside the claim
    try:
        mach = absm.Machine(la.comp.post, la.layout, strict_done=la.strict, unsafe_index=la.cfg['UNSAFE_STRING_INDEXING'])
        ap = symx.explore(lambda ctx: mach.dispatch(ctx, la.comp.post.states[sidx], (absm.End if sym_is_end else b), data), solver, assumptions=inv, stats=sx, max_paths=3000)
        ubg = [z3.And(*pc, r.ub.any()) for pc, r in ap]
        if ubg:
            inv = inv + [z3.Not(z3.Or(*ubg))]
    except absm.Unsupported:
        pass
    d['queries'] += sx['queries']; d['solver_time'] += sx['solver_time']
    d['cov']['states'] += 1
    symname = 'end' if sym_is_end else 'byte'
    key = f"{getattr(la, 'label', '?')}~{getattr(lb, 'cname', '?')}@{sidx}/{symname}/{stepcmp._amask(alloc_b)}"
    pcB = {id(q): (z3.And(*q.pc) if q.pc else z3.BoolVal(True)) for q in exb.paths}

    def on_pair(p, q):
        if p.kind == 'ABORT' and q.kind == 'ABORT':
            d['cov']['paths_skipped_memory_fault_reported_by_C03'] = d['cov'].get('paths_skipped_memory_fault_reported_by_C03', 0) + 1
            return
        if p.kind == 'ABORT' or q.kind == 'ABORT':
            # one build faults where the other returns: a difference between the representations IF the pre-state is reachable; the caller
            # looks for an input through the public API (engines/reach) and replays both builds from start(); otherwise it is left to C03
            solver.push(); solver.add(pcB[id(q)])
            r, mdl = symx.robust_check(solver); d['queries'] += 1
            solver.pop()
            if r == z3.sat:
                w = {'pre': stepcmp.model_pre(la, mdl, data, sidx, None), 'sym': symname, 'alloc_b': alloc_b}
                if not sym_is_end:
                    w['byte'] = mdl.eval(b, model_completion=True).as_long()
                findings.append({'kind': 'c12-diff', 'what': 'representation option changes the parse', 'one_sided_fault': True,
                                 'detail': f'only one build faults: base {p.kind} {str(p.why or "")[:80]} / variant {q.kind} {str(q.why or "")[:80]}',
                                 '_cond': list(p.pc) + list(q.pc), '_data_b': data_b, **w})
            return
        conds = []
        if p.kind != 'RET' or q.kind != 'RET':
            conds.append((f'both return (A {p.kind}, B {q.kind})', z3.BoolVal(p.kind == q.kind)))
        else:
            ra, rb = p.ret, q.ret
            if ra.size() != rb.size():
                w = max(ra.size(), rb.size())
                ra = z3.ZeroExt(w - ra.size(), ra) if ra.size() < w else ra
                rb = z3.ZeroExt(w - rb.size(), rb) if rb.size() < w else rb
            conds.append(('result code', ra == rb))
            sa_, sb_ = z3.simplify(la.state_of(p.mem)), z3.simplify(lb.state_of(q.mem))
            terminal = z3.is_bv_value(z3.simplify(p.ret)) and (la.codes[z3.simplify(p.ret).as_long()] == 'DONE' or la.codes[z3.simplify(p.ret).as_long()].startswith('FINISH_'))
            if not terminal:
                if z3.is_bv_value(sa_):
                    want = sa_.as_long() if idxmap is None else idxmap.get(sa_.as_long())
                    if sa_.as_long() == len(la.comp.post.states):
                        want = len(lb.comp.post.states)   # the index one past the last state: where end() leaves a parser without a fail state after FAIL
                    conds.append((f'control state (A {sa_.as_long()} ~ B {want})', (sb_ == want) if want is not None else z3.BoolVal(False)))
                else:
                    exp = z3.BitVecVal(0, sb_.size())
                    for ka, kb in list((idxmap or {i: i for i in range(len(la.comp.post.states))}).items()) + [(len(la.comp.post.states), len(lb.comp.post.states))]:
                        exp = z3.If(sa_ == ka, z3.BitVecVal(kb, sb_.size()), exp)
                    conds.append(('control state', sb_ == exp))
            if la.indirect and lb.indirect and not sym_is_end:
                conds.append(('*start offset', la.start_offset(p.mem) == lb.start_offset(q.mem)))
            if len(p.events) != len(q.events):
                conds.append((f'number of hook calls ({len(p.events)} vs {len(q.events)})', z3.BoolVal(False)))
            else:
                for i, (x, y) in enumerate(zip(p.events, q.events)):
                    if x[0] != y[0]:
                        conds.append((f'hook #{i} name ({x[0]} vs {y[0]})', z3.BoolVal(False)))
                        continue
                    for u, v in zip(x[1], y[1]):
                        conds.append((f'hook #{i} inval', u == v))
                    if x[2] is not None and y[2] is not None:
                        conds += snap_rel_conds(la, lb, x[2], y[2], tag=f'hook #{i}: ')
            conds += snap_rel_conds(la, lb, la.snapshot(p.mem), lb.snapshot(q.mem))
        goal = z3.And(*[c for _, c in conds]) if conds else z3.BoolVal(True)
        d['obligations'] += 1; d['cov']['pairs'] += 1
        solver.push(); solver.add(pcB[id(q)], z3.Not(goal))
        t = time.time(); r, mdl = symx.robust_check(solver); d['queries'] += 1; d['solver_time'] += time.time() - t
        solver.pop()
        if r == z3.unsat:
            d['discharged'] += 1
        elif r == z3.unknown:
            d['inconclusive'].append('C12 ' + key)
        else:
            bad = [nm_ for nm_, c in conds if z3.is_false(mdl.eval(c, model_completion=True))]
            w = {'pre': stepcmp.model_pre(la, mdl, data, sidx, None), 'sym': symname, 'alloc_b': alloc_b}
            if not sym_is_end:
                w['byte'] = mdl.eval(b, model_completion=True).as_long()
            findings.append({'kind': 'c12-diff', 'what': 'representation option changes the parse', 'detail': '; '.join(bad[:3]), **w})
    multicall.overlap_pairs(solver, inv, exa.paths, exb.paths, pcB, d, 'C12 ' + key, on_pair)
    d['cov']['transitions'] += len(exa.paths)
    d['nontrivial'].append('c12:' + key)
    if len(d['samples']) < 5:
        d['samples'].append({'pair': key, 'paths_A': len(exa.paths), 'paths_B': len(exb.paths)})
    return findings


def rel_start(la, lb, stats, timeout_ms=20000):
    """<p>_start of both builds on completely arbitrary memory: the post-states must be alpha-related (same values of the outputs that have
    defaults, same string lengths and bytes incl. the terminator; outputs without a default are indeterminate in both)"""
    d = stats.d
    findings = []
    solver = z3.Solver(); solver.set('timeout', timeout_ms)
    sx = {'queries': 0, 'solver_time': 0.0}
    # the same arbitrary memory on both sides (the arrays are named after the struct / the in-struct string fields): two builds that both
    # leave a field untouched agree on it, a build that leaves it untouched differs from one that initialises it
    exa = la.call1('start', la.raw_image(), solver, [], sx, max_steps=4000)
    exb = lb.call1('start', lb.raw_image(), solver, [], sx, max_steps=4000)
    d['queries'] += sx['queries']; d['solver_time'] += sx['solver_time']
    key = f"{getattr(la, 'label', '?')}~{getattr(lb, 'cname', '?')}@start"
    for p in exa.paths:
        for q in exb.paths:
            if p.kind != 'RET' or q.kind != 'RET':
                continue
            conds = [(nm_, c) for nm_, c in snap_rel_conds(la, lb, la.snapshot(p.mem), lb.snapshot(q.mem), tag='after start: ')
                     if not (nm_.startswith('after start: value of ') and la.comp.spec[nm_[len('after start: value of '):]].default_value is None)]
            goal = z3.And(*[c for _, c in conds]) if conds else z3.BoolVal(True)
            d['obligations'] += 1; d['cov']['pairs'] += 1
            solver.push(); solver.add(*p.pc, *q.pc, z3.Not(goal))
            r, mdl = symx.robust_check(solver); d['queries'] += 1
            solver.pop()
            if r == z3.unsat:
                d['discharged'] += 1
            elif r == z3.unknown:
                d['inconclusive'].append('C12 ' + key)
            else:
                bad = [nm_ for nm_, c in conds if z3.is_false(mdl.eval(c, model_completion=True))]
                findings.append({'kind': 'c12-diff', 'what': 'representation option changes the parse', 'detail': '; '.join(bad[:3]), 'sym': 'start', 'alloc_b': None,
                                 'pre': {'state': -1, 'vals': {}, 'strs': {}}, 'start_only': True})
    d['nontrivial'].append('c12:' + key)
    return findings
