"""Own reading of nmfu math expressions as C expressions (C14 oracle): a Pratt parser over the source text with the C
precedence/associativity table, evaluated in z3 bit-vectors with the C rules of engines/cexpr.py (promotion, usual
arithmetic conversions, comparisons yield int 0/1, short-circuit && ||). Shares nothing with nmfu's grammar layers,
_parse_math_expr or _generate_code_for_int_expr."""
import re
import z3
from . import cexpr as C
from .cexpr import CV

TOK = re.compile(r"\s*(?:(0[xX][0-9a-fA-F]+|0[bB][01]+|\d+)|('(?:\\.|[^'\\])')|(\$[A-Za-z_]\w*)|([A-Za-z_]\w*)|(\|\||&&|==|!=|<=|>=|<<|>>|\.len|[-+*/%&|^<>!()\[\]]))")

# binary operators: precedence (higher binds tighter), all left associative
PREC = {'||': 1, '&&': 2, '|': 3, '^': 4, '&': 5, '==': 6, '!=': 6, '<': 7, '>': 7, '<=': 7, '>=': 7, '<<': 8, '>>': 8, '+': 9, '-': 9, '*': 10, '/': 10, '%': 10}
ESC = {'n': 10, 'r': 13, 't': 9, 'b': 8, '0': 0, '\\': 92, "'": 39, '"': 34}


class ParseError(Exception):
    pass


def tokenize(text):
    pos = 0
    out = []
    text = text.rstrip()
    while pos < len(text):
        m = TOK.match(text, pos)
        if not m:
            raise ParseError('bad token at ' + text[pos:pos + 10])
        pos = m.end()
        if m.group(1) is not None:
            out.append(('num', m.group(1)))
        elif m.group(2) is not None:
            out.append(('chr', m.group(2)))
        elif m.group(3) is not None:
            out.append(('builtin', m.group(3)))
        elif m.group(4) is not None:
            out.append(('id', m.group(4)))
        else:
            out.append(('op', m.group(5)))
    return out


class Parser:
    """AST: ('bin', op, l, r) | ('un', op, x) | ('num', n) | ('var', name) | ('len', name) | ('idx', name, e) | ('last',)"""

    def __init__(self, text):
        self.t = tokenize(text)
        self.i = 0

    def peek(self):
        return self.t[self.i] if self.i < len(self.t) else (None, None)

    def take(self):
        x = self.peek()
        self.i += 1
        return x

    def parse(self):
        e = self.expr(0)
        if self.i != len(self.t):
            raise ParseError('trailing tokens')
        return e

    def expr(self, minp):
        left = self.unary()
        while True:
            k, v = self.peek()
            if k != 'op' or v not in PREC or PREC[v] < minp:
                return left
            self.take()
            right = self.expr(PREC[v] + 1)
            left = ('bin', v, left, right)

    def unary(self):
        k, v = self.peek()
        if k == 'op' and v in ('!', '-'):
            self.take()
            return ('un', v, self.unary())
        return self.atom()

    def atom(self):
        k, v = self.take()
        if k == 'num':
            n = int(v, 0) if not v.lower().startswith('0b') else int(v[2:], 2)
            if v.startswith('0') and len(v) > 1 and v[1] not in 'xXbB':
                n = int(v, 10)
            return ('num', n)
        if k == 'chr':
            body = v[1:-1]
            if body.startswith('\\'):
                if body[1] not in ESC:
                    raise ParseError('char escape')
                return ('num', ESC[body[1]])
            return ('num', ord(body))
        if k == 'builtin':
            if v != '$last':
                raise ParseError('builtin ' + v)
            return ('last',)
        if k == 'id':
            if v in ('true', 'false'):
                return ('num', 1 if v == 'true' else 0)
            k2, v2 = self.peek()
            if k2 == 'op' and v2 == '.len':
                self.take()
                return ('len', v)
            if k2 == 'op' and v2 == '[':
                self.take()
                e = self.expr(0)
                if self.take() != ('op', ']'):
                    raise ParseError('expected ]')
                return ('idx', v, e)
            return ('var', v)
        if k == 'op' and v == '(':
            e = self.expr(0)
            if self.take() != ('op', ')'):
                raise ParseError('expected )')
            return e
        raise ParseError('unexpected ' + str((k, v)))


class Env:
    """vars: name -> CV; strs: name -> (len CV, z3 array, declared size); last: CV or None;
    unsafe: -funsafe-string-indexing is selected (an index outside the string is outside the claim instead of reading 0)"""

    def __init__(self, vars_, strs, last, unsafe=False):
        self.vars, self.strs, self.last, self.unsafe = vars_, strs, last, unsafe
        self.oob = []   # unsafe mode: the conditions (under their evaluation guards) under which some index is outside its string


def evaluate(ast, env, ub):
    k = ast[0]
    if k == 'num':
        t = C.literal_type(ast[1])
        if t is None:
            raise ParseError('literal too large')
        return C.lit(ast[1], t)
    if k == 'var':
        return env.vars[ast[1]]
    if k == 'last':
        return env.last
    if k == 'len':
        return env.strs[ast[1]][0]
    if k == 'idx':
        ln, arr, size = env.strs[ast[1]]
        i = evaluate(ast[2], env, ub)
        i64 = C.convert(C.promote(i), C.LONG).v
        inr = z3.And(i64 >= 0, i64 < size)
        # content beyond the current length is unspecified (see absm): excluded like undefined behaviour
        ub.add(z3.And(inr, i64 > z3.ZeroExt(64 - ln.v.size(), ln.v)))
        if env.unsafe:
            # unchecked indexing: the property speaks about in-range indexes only; the value of an in-range read is the same
            # stored byte 0..255 as in the checked mode, whatever element type the buffer has
            ub.add(z3.Not(inr))
            env.oob.append(ub.conds[-1])
        return C.promote(CV(z3.If(inr, z3.Select(arr, i64), z3.BitVecVal(0, 8)), C.U8))
    if k == 'un':
        x = evaluate(ast[2], env, ub)
        return C.lnot(x) if ast[1] == '!' else C.neg(x, ub)
    if k == 'bin':
        op = ast[1]
        if op in ('||', '&&'):
            a = C.to_bool(evaluate(ast[2], env, ub))
            ub.guard.append(z3.Not(a) if op == '||' else a)
            b = C.to_bool(evaluate(ast[3], env, ub))
            ub.guard.pop()
            return C.from_bool(z3.Or(a, b) if op == '||' else z3.And(a, b))
        a = evaluate(ast[2], env, ub)
        b = evaluate(ast[3], env, ub)
        if op in ('==', '!=', '<', '>', '<=', '>='):
            return C.compare(op, a, b)
        if op in ('<<', '>>'):
            return C.shift(op == '<<', a, b, ub)
        return C.arith(op, a, b, ub)
    raise ParseError(str(ast))


# ------------------------------------------------------------------------------------------ printing (for the generator)
def show(ast, parent_prec=0, right=False):
    """minimal parentheses under the C table"""
    k = ast[0]
    if k == 'num':
        return str(ast[1])
    if k == 'var':
        return ast[1]
    if k == 'last':
        return '$last'
    if k == 'len':
        return ast[1] + '.len'
    if k == 'idx':
        return f'{ast[1]}[{show(ast[2])}]'
    if k == 'un':
        inner = ast[2]
        s = show(inner, 11)
        if inner[0] in ('bin', 'un'):
            s = '(' + show(inner) + ')'
        return ast[1] + s
    op = ast[1]
    p = PREC[op]
    s = f'{show(ast[2], p, False)} {op} {show(ast[3], p, True)}'
    if p < parent_prec or (p == parent_prec and right):
        s = '(' + s + ')'
    return s
