"""gen_re - the enumerated dimension of C07/C08/C09/C16: regexes, clause sets, statement pairs, wait patterns.

Exhaustive families are complete up to their stated size bound; random families are seeded by VERIF_SEED (chk.seed()).
Everything is emitted as nmfu *source text*; oracles read lark's syntax tree of that text (engines/refre.py).
"""
import random
from . import chk

OPS = ['?', '*', '+', '{1,2}']
TEXT_ATOMS = ['a', 'b', r'\w', '[^ab]', '.']
BIN_ATOMS = ['61', '62', 'ff', '[^61 62]', '.']


def rng(salt):
    return random.Random(chk.seed() * 1000003 + salt)


# ---------------------------------------------------------------------------------------------------------------
# exhaustive regex ASTs
# ---------------------------------------------------------------------------------------------------------------
def _asts(size, atoms, memo):
    """all ASTs with exactly `size` nodes: ('atom', s) ('op', child, o) ('seq', l, r) ('alt', l, r)"""
    if size in memo:
        return memo[size]
    out = []
    if size == 1:
        out = [('atom', a) for a in atoms]
    else:
        for c in _asts(size - 1, atoms, memo):
            for o in OPS:
                out.append(('op', c, o))
        for ls in range(1, size - 1):
            rs = size - 1 - ls
            for l in _asts(ls, atoms, memo):
                for r in _asts(rs, atoms, memo):
                    out.append(('seq', l, r))
                    out.append(('alt', l, r))
    memo[size] = out
    return out


def _src_fix(n, binary, ctx=0):
    # an operator applied to an operator needs a group: (a*)+
    if n[0] == 'op' and n[1][0] == 'op':
        inner = '(' + _src_fix(n[1], binary, 0) + ')'
        return inner + n[2]
    if n[0] == 'op':
        return _src_fix(n[1], binary, 2) + n[2]
    if n[0] == 'atom':
        return n[1]
    if n[0] == 'seq':
        s = _src_fix(n[1], binary, 1) + (' ' if binary else '') + _src_fix(n[2], binary, 1)
        return '(' + s + ')' if ctx == 2 else s
    s = _src_fix(n[1], binary, 0) + '|' + _src_fix(n[2], binary, 0)
    return '(' + s + ')' if ctx >= 1 else s


def exhaustive_regexes(maxsize):
    """-> list of (source of a match expression, form, size); all ASTs with <= maxsize nodes, text and binary form"""
    out = []
    seen = set()
    for form, atoms in (('text', TEXT_ATOMS), ('binary', BIN_ATOMS)):
        memo = {}
        for size in range(1, maxsize + 1):
            for n in _asts(size, atoms, memo):
                body = _src_fix(n, form == 'binary')
                src = ('b/' if form == 'binary' else '/') + body + '/'
                if src in seen:
                    continue
                seen.add(src)
                out.append((src, form, size))
    return out


# ---------------------------------------------------------------------------------------------------------------
# random larger regexes
# ---------------------------------------------------------------------------------------------------------------
R_ATOMS = ['a', 'b', 'c', 'A', '0', r'\d', r'\w', r'\s', r'\S', r'\D', r'\W', '.', '[ab]', '[^a]', '[^bc]', '[a-c]', r'[^\d]', r'\.', r'\ ',
           r'[a\-]', r'\n', r'\t', r'\\', r'\/', '[^ab]', r'[\w\-]', '[0-9a-f]', r'[^\s]', r'\+', r'\(', '_', ':', r'[^\w]', r'\r', '[A-Za-z]',
           r'[\]-a]', r'[+-\-]', r'[^\--\/]', r'[\\-\]_]']
R_REPS = ['*', '+', '?', '{2}', '{1,2}', '{0,2}', '{2,}', '{0}', '{1}', '{0,1}', '{3}', '{1,3}']
# C07's own generator also draws bounded repeats with equal bounds (the clause / wait pattern generators of C08, C09, C16 keep R_REPS: their
# random streams, and with them the programs those checks enumerate, stay as they were)
R_REPS_C07 = R_REPS + ['{2,2}', '{1,1}', '{0,0}']
# two (or more) inverted classes leaving one state (nmfu.py `TODO: handle multiple of these`)
R_TWO_INV = ['([^a]|[^b])x', '[^ab]*[^bc]', '(.|[^a])b', '[^a]?[^b]', r'(\W|[^a])+', r'(\D|\S)x', r'([^a]|\W)([^b]|\D)', '(.|a)*b', r'[^a]*\S',
             r'(\Da|\Sb)', '([^ab]|[^cd])+e', r'[^\d]*[^\w]', '(a|[^a])(b|[^b])', r'(\S|\s)x', '.*[^a]', r'([^a]b|[^b]a)+', r'\W?\D?\S', '[^a]{1,2}[^b]']
B_ATOMS = ['61', '62', '00', 'ff', '80', '7f', '[10-15]', '[^61]', '[^00 ff]', '.', '[61-63 80-ff]', '[^80-ff]', '0a', '[00-7f]', '[^61 62]']
# set ranges whose lower / upper endpoint is written as an escape (`\-` `\]` `\\` `\/` are the characters that must be escaped inside a set):
# the range runs between the *unescaped* characters.  Plain, inverted, mixed with other members, and inside larger expressions.
R_ESC_RANGE = [r'x[\]-a]y', r'x[+-\-]y', r'[\--0]+', r'[!-\/]a', r'[\\-a]b', r'[Z-\\]+c', r'[\/-9]*:', r'[\]-\]]x', r'[\--\/]+', r'[^\]-a]b', r'[^+-\-]*-',
               r'[a\]-c0-9]+', r'[\/-1\\-\]]x', r'([\]-a]|[+-\-])+;', r'[^!-\/\]-a]{1,2}', r'[\--\-]a|[\\-\\]b', r'[\w\]-\]]+x', r'[*-\-\d]+x']
# bounded repeats whose two bounds are equal: x{n,n} is x{n}
R_EQ_REP = ['a{2,2}b', '(x|yz){1,1}!', 'a{0,0}b', '[ab]{3,3}', '(a{2,2})*b', 'a{1,1}', '(ab?){2,2}c', r'\d{2,2}:\d{2,2}', '(a|b{1,1}){2,2}', '[^a]{2,2}a', '.{1,1}x', 'a{0,0}',
            '(a{1,1}|b)+c', 'x((ab){2,2})?y']
B_EQ_REP = ['41{3,3} 00', '(61|62 63){1,1} 21', '[^61]{2,2} 61', 'ff{0,0} 00', '[80-ff]{2,2}', '(61{1,1} 62){2,2}']
B_TWO_INV = ['([^61]|[^62]) 00', '[^61 62]* [^62 63]', '(.|[^00]) ff', '[^00]? [^ff]', '([^80-ff]|[^00-7f])+ 61', '.* [^ff]',
             '([^80-ff] 61|[^00-7f] 62)+', '([^40-ff] 61|[^00-3f 80-ff] 62|[^00-7f] 63)+ 00', '([^01-ff]|[^00]) [^80-ff]']


def _rgen(r, depth, atoms, binary, reps=R_REPS):
    sep = ' ' if binary else ''
    if depth == 0 or r.random() < 0.3:
        return r.choice(atoms)
    k = r.random()
    if k < 0.35:
        return _rgen(r, depth - 1, atoms, binary, reps) + sep + _rgen(r, depth - 1, atoms, binary, reps)
    if k < 0.55:
        return '(' + _rgen(r, depth - 1, atoms, binary, reps) + '|' + _rgen(r, depth - 1, atoms, binary, reps) + ')'
    if k < 0.88:
        return '(' + _rgen(r, depth - 1, atoms, binary, reps) + ')' + r.choice(reps)
    return '(' + _rgen(r, depth - 1, atoms, binary, reps) + ')'


def random_regexes(n, salt=7):
    """-> list of (source, form, 'random'|'two-inverted')"""
    r = rng(salt)
    out = []
    seen = set()
    fixed = [('/' + x + '/', 'text', 'two-inverted') for x in R_TWO_INV] + [('b/' + x + '/', 'binary', 'two-inverted') for x in B_TWO_INV]
    fixed += [('/' + x + '/', 'text', 'escaped-range') for x in R_ESC_RANGE]
    fixed += [('/' + x + '/', 'text', 'equal-bounds-repeat') for x in R_EQ_REP] + [('b/' + x + '/', 'binary', 'equal-bounds-repeat') for x in B_EQ_REP]
    for f in fixed:
        if len(out) < n:
            out.append(f)
            seen.add(f[0])
    tries = 0
    while len(out) < n and tries < n * 20:
        tries += 1
        binary = r.random() < 0.25
        body = _rgen(r, r.choice([2, 3, 3, 4]), B_ATOMS if binary else R_ATOMS, binary, R_REPS_C07)
        if r.random() < 0.2:
            body = r.choice(B_TWO_INV if binary else R_TWO_INV) + (' ' if binary else '') + body
        src = ('b/' if binary else '/') + body + '/'
        if src in seen or len(src) > 60:
            continue
        seen.add(src)
        out.append((src, 'binary' if binary else 'text', 'random'))
    return out


def regex_program(expr):
    return 'parser { %s; }' % expr


# ---------------------------------------------------------------------------------------------------------------
# clause sets (C08, C09)
# ---------------------------------------------------------------------------------------------------------------
P_LIT = ['"a"', '"ab"', '"abc"', '"ba"', '"b"', '"xy"', '"x"', '"abab"', '"\\xff"', '"a\\xffb"', '"c"', '"ca"', '"abd"', '"y"', '"bb"', '"xx"']
P_CASEI = ['"ab"i', '"x"i', '"aB"i', '"c1"i', '"ba"i', '"y"i']
P_BIN = ['"61 62"b', '"ff 00"b', '"63"b', '"78 79 7a"b']
P_RE = ['/a+/', '/ab*/', '/[ab]c/', '/x[^y]/', '/a(b|c)d/', '/x+y/', '/[^abx]/', '/a.c/', r'/\d+/', '/(ab)+c/', '/x{1,2}/', '/b?c/', '/[a-c]x/',
        '/y+/', r'/\d\d?/', '/c[^a]*a/', '/b(a|b)*/', '/[xy]z/', r'/\w+/', r'/a\d/', '/(x|y)+/', 'b/61 62+/', 'b/ff [^00]/', '/ab?/', '/xa*/', '/[^a-y]/', '/a|bc/',
        '/ca?b/', '/ab|ac/', '/x.y/']
P_CAT = ['("a" /b+/ "c")', '("x"i /y?z/)', '(/a+/ "b")', '("b" "a")', '(/[xy]/ "1")']


def _pattern(r):
    k = r.random()
    if k < 0.35:
        return r.choice(P_LIT)
    if k < 0.45:
        return r.choice(P_CASEI)
    if k < 0.5:
        return r.choice(P_BIN)
    if k < 0.80:
        return r.choice(P_RE)
    if k < 0.92:
        return '/' + _rgen(r, 2, ['a', 'b', 'c', 'x', 'y', '[ab]', '[^ab]', r'\d', '.', '[^x]', 'A'], False) + '/'
    return r.choice(P_CAT)


def clause_set(r, greedy=None, for_c09=False):
    """-> source of a program `[greedy] case {...}` with one finish marker per clause and an else marker"""
    if greedy is None:
        greedy = r.random() < 0.5
    ncl = r.choice([1, 2, 2, 3, 3, 4])
    style = r.choice(['T', 'T', 'F', 'mix', 'D'])
    clauses = []
    codes = []
    for i in range(ncl):
        np_ = r.choice([1, 1, 1, 2, 3])
        pats = []
        for _ in range(np_):
            p = _pattern(r)
            if p not in pats:
                pats.append(p)
        code = 'C%d' % i
        codes.append(code)
        st = style if style != 'mix' else r.choice(['T', 'F', 'D'])
        if st == 'T':
            body = '"!"; finish %s;' % code
        elif st == 'D':
            body = '"%d"; finish %s;' % (i, code)
        else:
            body = 'finish %s;' % code
        prio = None
        if greedy and r.random() < 0.5:
            prio = r.choice([1, 1, 2, 3])
        clauses.append([pats, body, prio])
    else_kind = r.choice(['none', 'else', 'else', 'combined'])
    lines = []
    i = 0
    while i < len(clauses):
        pats, body, prio = clauses[i]
        text = '%s -> { %s }' % (', '.join(pats), body)
        if prio is not None:
            # sometimes group two clauses under one prio block
            if i + 1 < len(clauses) and r.random() < 0.3:
                p2, b2, _ = clauses[i + 1]
                lines.append('prio %d { %s %s -> { %s } }' % (prio, text, ', '.join(p2), b2))
                i += 2
                continue
            lines.append('prio %d %s' % (prio, text))
        else:
            lines.append(text)
        i += 1
    if else_kind == 'else':
        lines.append('else -> { finish E; }')
    elif else_kind == 'combined':
        lines.append('else, %s -> { finish E; }' % r.choice(['"zz"', '"q"', '/z+q/']))
    r.shuffle(lines)
    return 'finishcode %s, E;\nparser {\n  %scase {\n    %s\n  }\n}\n' % (', '.join(codes), 'greedy ' if greedy else '', '\n    '.join(lines))


# hand-picked clause sets: every documented feature at least once, deterministic
FIXED_CLAUSE_SETS = [
    'finishcode A, B, E;\nparser { case { "ab" -> { finish A; } /x+/ -> { "!"; finish B; } else -> { finish E; } } }',
    'finishcode A, B, C;\nparser { case { "GET" -> { finish A; } "POST" -> { finish B; } "PUT", "PATCH" -> { "!"; finish C; } } }',
    'finishcode A, B, E;\nparser { case { "ab"i -> { finish A; } "61 63"b -> { finish B; } else, "zz" -> { finish E; } } }',
    'finishcode A, B;\nparser { greedy case { /a+/ -> { "!"; finish A; } prio 1 "aa" -> { "!"; finish B; } } }',
    'finishcode A, B, C, E;\nparser { greedy case { /\\w+/ -> { "!"; finish A; } prio 1 { "define" -> { "!"; finish B; } "display" -> { "!"; finish C; } } else -> { finish E; } } }',
    'finishcode A, B;\nparser { greedy case { "ab" -> { "!"; finish A; } "abcd" -> { "!"; finish B; } } }',
    'finishcode A, B, C;\nparser { greedy case { /-?\\d+/ -> { "!"; finish A; } /\\s+/ -> { "!"; finish B; } prio 2 "12" -> { "!"; finish C; } } }',
    'finishcode A, B, E;\nparser { case { /[^ab]x/ -> { finish A; } /a.y/ -> { finish B; } else -> { finish E; } } }',
    'finishcode A, B;\nparser { case { b/ff 00/ -> { finish A; } "\\xff\\x01" -> { finish B; } } }',
    'finishcode A, B, E;\nparser { case { ("a" /b+/ "c") -> { finish A; } /a?d/ -> { finish B; } else -> { finish E; } } }',
    'finishcode A, B, E;\nparser { greedy case { /x+/, /y+/ -> { "!"; finish A; } prio 3 "xx", "yy" -> { "!"; finish B; } else -> { finish E; } } }',
    'finishcode A, B;\nparser { case { /a+b/ -> { "0"; finish A; } /a+c/ -> { "1"; finish B; } } }',
    # priorities of action-only / empty clauses against clauses with a consuming body
    'finishcode A, B;\nparser { greedy case { prio 1 /[a-z]+/ -> { "!"; finish A; } prio 2 "abc" -> { finish B; } } }',
    'finishcode A, B, C;\nparser { greedy case { prio 1 /[a-z]+/ -> { "!"; finish A; } prio 3 "abd" -> { finish C; } prio 2 "abc" -> { } } ";"; finish B; }',
    'finishcode A, B;\nparser { greedy case { prio 2 /[0-9]+/ -> { "!"; finish A; } prio 5 "42" -> { finish B; } } }',
    'finishcode A, B;\nparser { greedy case { prio 1 /[a-z]+/ -> { "!"; finish A; } prio 2 "abc" -> { } } ";"; finish B; }',
    'finishcode A, B;\nparser { greedy case { prio 3 "7", "77" -> { } prio 2 /[0-9]+/ -> { "x"; finish A; } } "y"; finish B; }',
    # multi-label clauses whose block starts with an action and goes on with a statement that may match nothing: the action belongs to every label
    'finishcode A, B;\nparser { case { "G", "O" -> { finish A; / */; } "P", "D" -> { finish B; /-?/; } } "/"; }',
    # three clauses finishing on the same string, the two highest tie: must be rejected (C09), never resolved silently
    'finishcode A, B, C;\nparser { greedy case { /[a-z]+/ -> { "!"; finish A; } prio 1 { "if" -> { "!"; finish B; } /i[fs]/ -> { "!"; finish C; } } } }',
    'finishcode A, B, C;\nparser { greedy case { /[0-9]+/ -> { "!"; finish A; } prio 2 "77" -> { "!"; finish B; } prio 2 /7[67]/ -> { "!"; finish C; } } }',
    # an open-ended clause pattern that ends in an inverted class: the excluded byte ends the clause, it is not swallowed by the class
    'finishcode A, B;\nparser { case { /[^ ]+/ -> { finish A; } " " -> { finish B; } } }',
    'finishcode A, B, E;\nparser { greedy case { /[^ab]+/ -> { finish A; } "a" -> { finish B; } else -> { finish E; } } }',
    'finishcode A, B;\nparser { case { /x[^y]*/ -> { finish A; } "y" -> { "!"; finish B; } } }',
    'finishcode A, B;\nparser { case { b/[^00 ff]+/ -> { finish A; } "00"b -> { finish B; } } }',
]


def clause_sets(n, salt=11, greedy=None):
    r = rng(salt)
    out = list(FIXED_CLAUSE_SETS) if greedy is None else [x for x in FIXED_CLAUSE_SETS if ('greedy' in x) == greedy]
    out = out[:n]
    seen = set(out)
    tries = 0
    while len(out) < n and tries < n * 20:
        tries += 1
        s = clause_set(r, greedy)
        if s not in seen:
            seen.add(s)
            out.append(s)
    return out


# ---------------------------------------------------------------------------------------------------------------
# statement pairs A; B (C09)
# ---------------------------------------------------------------------------------------------------------------
A_OPEN = ['/a+/', '/ab*/', '/[ab]+/', '/a(bc)*/', r'/\w+/', '/x[^y]*/', '/a?b/', '/(ab)+/', r'/\d+/', '/a.*/', '/ab?/', '/a{1,2}/', '/[^c]+/', 'b/61 62*/',
          '/(a|b)c*/', '/a+b?/', r'/\s*x/', '/x|xy/', '/a(ba)*/', '/(abc)+/', '/x(yx)*/', '/a(,a)*/', r'/\d+(\.\d+)?/']
A_CLOSED = ['"ab"', '"a"', '/a[bc]/', '"x"i']
B_FIRST = ['"a"', '"b"', '"c"', '/[bc]x/', '"!"', r'/\d/', '/[^a]/', '"ab"i', '"y"', '/b+/', '"ba"', r'/\w/', '"\\xff"', '/./', '"c"i', '/[a-c]/']


# first statements of the branches of an if / elif / else that follows a look-ahead-terminated statement: mostly negated classes and
# wildcards, i.e. a byte may be accepted by one branch only through its "everything else" transition while another branch excludes it by name
B_BRANCH = ['/[^a]/', '/[^b]/', '/[^c]/', '/[^d]/', '/[^x]/', '/[^y]/', '/[^ab]/', '/[^bc]/', '/[^cd]/', '/[^xy]/', '/./', r'/\W/', r'/\D/', '/[^a]z/', '/[^b]+k/', '/[^0-9]/',
            '"a"', '"b"', '"c"', '"x"', '"q"', '/[ab]/', '/[cd]/', r'/\d/', '/[^,]/', r'/[^\.]/']


def _pair(r):
    """-> dict(src, shape, queries=[{'A': stmt text, 'B': stmt text, optional 'pre': statements before A, optional 'Adesc': how A is written in src}])"""
    shape = r.choice(['regex', 'regex', 'optional', 'optional2', 'loop', 'try', 'foreach', 'if', 'clause-end', 'clause-body', 'loop-repeat', 'loop-else', 'nested-optional'])
    A = r.choice(A_OPEN) if r.random() < 0.85 else r.choice(A_CLOSED)
    B = r.choice(B_FIRST)
    decl = ''
    if shape == 'regex':
        body = '%s; %s;' % (A, B)
        q = [{'A': A + ';', 'B': B + ';'}]
    elif shape == 'optional':
        body = 'optional { %s; } %s;' % (A, B)
        q = [{'A': 'optional { %s; }' % A, 'B': B + ';'}]
    elif shape == 'optional2':
        body = '"q"; optional { %s; "z"; } %s;' % (A, B)
        q = [{'A': 'optional { %s; "z"; }' % A, 'B': B + ';', 'pre': '"q";'}, {'A': A + ';', 'B': '"z";', 'pre': '"q";'}]
    elif shape == 'nested-optional':
        body = 'optional { "s"; optional { %s; } } %s;' % (A, B)
        q = [{'A': 'optional { "s"; optional { %s; } }' % A, 'B': B + ';'}]
    elif shape == 'loop':
        # exit by a closed clause; the repeat decision after the open-ended clause is by look-ahead
        Q = r.choice(['"k"', '"kz"', '/k[ab]/', '"!"'])
        cs = 'case { %s -> { } %s -> { break; } }' % (A, Q)
        body = 'loop { %s } %s;' % (cs, B)
        q = [{'A': A + ';', 'B': 'case { %s -> { } %s -> { } }' % (A, Q)}, {'A': 'loop { %s }' % cs, 'B': B + ';'}]
    elif shape == 'loop-repeat':
        body = 'loop { %s; %s; }' % (B, A)
        q = [{'A': A + ';', 'B': B + ';', 'pre': B + ';'}]
    elif shape == 'loop-else':
        body = 'loop { case { %s -> { } else -> { break; } } } %s;' % (A, B)
        q = [{'A': A + ';', 'B': A + ';'}]
    elif shape == 'try':
        body = 'try { %s; } catch { } %s;' % (A, B)
        q = [{'A': A + ';', 'B': B + ';'}]
    elif shape == 'foreach':
        decl = 'hook h;\n'
        body = 'foreach { %s; } do { h(); } %s;' % (A, B)
        q = [{'A': A + ';', 'B': B + ';'}]
    elif shape == 'if':
        decl = 'out bool f = true;\n'
        body = '"s"; if f { %s; } %s;' % (A, B)
        q = [{'A': A + ';', 'B': B + ';', 'pre': '"s";'}]
    elif shape == 'clause-end':
        body = 'case { "k" -> { %s; } "m" -> { } } %s;' % (A, B)
        q = [{'A': 'case { "k" -> { %s; } "m" -> { } }' % A, 'B': B + ';'}, {'A': A + ';', 'B': B + ';', 'pre': '"k";'}]
    else:  # clause-body: open-ended clause pattern followed by its body
        body = 'case { %s -> { %s; } "m" -> { } }' % (A, B)
        q = [{'A': A + ';', 'B': B + ';'}]
    return {'src': '%sparser { %s }\n' % (decl, body), 'shape': shape, 'queries': q}


def _pair_join(r):
    """second family (own random stream, appended to the first by pairs()): the statement after A is reached through a condition point
    (if / elif / else directly after a look-ahead-terminated statement), and A is a `wait` on an open-ended regex"""
    shape = r.choice(['if-else-after', 'if-else-after', 'if-after', 'wait', 'wait'])
    B = r.choice(B_FIRST)
    if shape in ('if-else-after', 'if-after'):
        # A; if .. { B1; } [elif .. { B2; }] [else { B3; }] T;   - the join after A sees a condition point, not a plain state
        decl = 'out int x = 0;\n'
        A = r.choice(A_OPEN)
        nb = r.choice([2, 2, 2, 3]) if shape == 'if-else-after' else r.choice([1, 1, 2])
        bs = [r.choice(B_BRANCH) for _ in range(nb)]
        conds = ['x > 0', 'x < 0', 'x == 0']
        if shape == 'if-else-after':
            parts = ['if %s { %s; }' % (conds[0], bs[0])] + ['elif %s { %s; }' % (conds[i], bs[i]) for i in range(1, nb - 1)] + ['else { %s; }' % bs[-1]]
        else:
            parts = ['if %s { %s; }' % (conds[0], bs[0])] + ['elif %s { %s; }' % (conds[i], bs[i]) for i in range(1, nb)]
        ifs = ' '.join(parts)
        T = r.choice(['"q"', '"!"', B])
        akind = r.choice(['plain', 'plain', 'optional', 'try'])
        if akind == 'optional':
            pre, Astmt = '"s";', 'optional { %s; }' % A
        elif akind == 'try':
            pre, Astmt = '', 'try { %s; } catch { }' % A
        else:
            pre, Astmt = '', A + ';'
        body = '%s %s %s %s;' % (pre, Astmt, ifs, T)
        # without an else the if may match nothing, so the statement after it can start at the look-ahead byte as well
        q = [{'A': Astmt, 'B': ifs if shape == 'if-else-after' else '%s %s;' % (ifs, T), 'pre': pre}]
        return {'src': '%sparser { %s }\n' % (decl, body.strip()), 'shape': shape, 'queries': q}
    # wait P; B;  - P open-ended: once P has matched, a byte that continues the match must not also start B.  The query is on P itself:
    # a witness w in L(P) read from the wait's start is a history of the wait, whatever was skipped before it
    A = r.choice(A_OPEN)
    pre = r.choice(['', '', '"s";'])
    body = '%s wait %s; %s;' % (pre, A, B)
    q = [{'A': A + ';', 'Adesc': 'wait %s;' % A, 'B': B + ';', 'pre': pre}]
    return {'src': 'parser { %s }\n' % body.strip(), 'shape': shape, 'queries': q}


FIXED_PAIRS = [
    {'src': 'parser { /a+/; "a"; }\n', 'shape': 'regex', 'queries': [{'A': '/a+/;', 'B': '"a";'}]},
    {'src': 'parser { /a+/; "b"; }\n', 'shape': 'regex', 'queries': [{'A': '/a+/;', 'B': '"b";'}]},
    {'src': 'parser { optional { "test"; } "text"; }\n', 'shape': 'optional', 'queries': [{'A': 'optional { "test"; }', 'B': '"text";'}]},
    {'src': 'parser { optional { /e?/; } "text"; }\n', 'shape': 'optional', 'queries': [{'A': 'optional { /e?/; }', 'B': '"text";'}]},
    {'src': 'parser { loop { case { /e+/ -> { } "x" -> { break; } } } "e"; }\n', 'shape': 'loop',
     'queries': [{'A': 'loop { case { /e+/ -> { } "x" -> { break; } } }', 'B': '"e";'}, {'A': '/e+/;', 'B': 'case { /e+/ -> { } "x" -> { } }'}]},
    {'src': 'parser { loop { /e+/; } }\n', 'shape': 'loop-repeat', 'queries': [{'A': '/e+/;', 'B': '/e+/;'}]},
    {'src': 'parser { loop { "x"; /e+/; } }\n', 'shape': 'loop-repeat', 'queries': [{'A': '/e+/;', 'B': '"x";', 'pre': '"x";'}]},
    {'src': 'parser { try { /ab*/; } catch { } "b"; }\n', 'shape': 'try', 'queries': [{'A': '/ab*/;', 'B': '"b";'}]},
    {'src': 'parser { case { /ab*/ -> { "b"; } "m" -> { } } }\n', 'shape': 'clause-body', 'queries': [{'A': '/ab*/;', 'B': '"b";'}]},
    {'src': 'parser { case { /ab*/ -> { "c"; } "m" -> { } } }\n', 'shape': 'clause-body', 'queries': [{'A': '/ab*/;', 'B': '"c";'}]},
]

FIXED_PAIRS_JOIN = [
    # if / else directly after a look-ahead-terminated statement; the continuing byte is excluded by name in one branch and taken
    # through the negated class (or the wildcard) of another
    {'src': 'out int x = 0;\nparser { /c+/; if x > 0 { /[^c]/; } else { /[^d]/; } "q"; }\n', 'shape': 'if-else-after',
     'queries': [{'A': '/c+/;', 'B': 'if x > 0 { /[^c]/; } else { /[^d]/; }'}]},
    {'src': 'out int x = 0;\nparser { /c+/; if x > 0 { /[^c]/; } else { /[^cd]/; } "q"; }\n', 'shape': 'if-else-after',
     'queries': [{'A': '/c+/;', 'B': 'if x > 0 { /[^c]/; } else { /[^cd]/; }'}]},
    {'src': 'out int x = 0;\nparser { /ab*/; if x > 0 { /[^b]/; } else { /./; } "!"; }\n', 'shape': 'if-else-after',
     'queries': [{'A': '/ab*/;', 'B': 'if x > 0 { /[^b]/; } else { /./; }'}]},
    {'src': 'out int x = 0;\nparser { /a+/; if x > 0 { /[^x]/; } elif x < 0 { /[^a]/; } else { "x"; } }\n', 'shape': 'if-else-after',
     'queries': [{'A': '/a+/;', 'B': 'if x > 0 { /[^x]/; } elif x < 0 { /[^a]/; } else { "x"; }'}]},
    {'src': 'out int x = 0;\nparser { "s"; optional { /x(yx)*/; } if x > 0 { /[^y]k/; } else { /\\W/; } "q"; }\n', 'shape': 'if-else-after',
     'queries': [{'A': 'optional { /x(yx)*/; }', 'B': 'if x > 0 { /[^y]k/; } else { /\\W/; }', 'pre': '"s";'}]},
    {'src': 'out int x = 0;\nparser { /\\d+/; if x > 0 { /[^0-9]/; } else { /[^a]/; } }\n', 'shape': 'if-else-after',
     'queries': [{'A': '/\\d+/;', 'B': 'if x > 0 { /[^0-9]/; } else { /[^a]/; }'}]},
    {'src': 'out int x = 0;\nparser { /c+/; if x > 0 { /[^c]/; } /[^d]/; }\n', 'shape': 'if-after',
     'queries': [{'A': '/c+/;', 'B': 'if x > 0 { /[^c]/; } /[^d]/;'}]},
    # wait on an open-ended regex: the accepting state continues by going back to the pattern's start state / elsewhere
    {'src': 'parser { wait /a(ba)*/; "b!"; }\n', 'shape': 'wait', 'queries': [{'A': '/a(ba)*/;', 'Adesc': 'wait /a(ba)*/;', 'B': '"b!";'}]},
    {'src': 'parser { wait /a(ba)*/; "c!"; }\n', 'shape': 'wait', 'queries': [{'A': '/a(ba)*/;', 'Adesc': 'wait /a(ba)*/;', 'B': '"c!";'}]},
    {'src': 'parser { wait /x(,x)*/; /[,;]/; }\n', 'shape': 'wait', 'queries': [{'A': '/x(,x)*/;', 'Adesc': 'wait /x(,x)*/;', 'B': '/[,;]/;'}]},
    {'src': 'parser { "s"; wait /(ab)+/; "a"; }\n', 'shape': 'wait', 'queries': [{'A': '/(ab)+/;', 'Adesc': 'wait /(ab)+/;', 'B': '"a";', 'pre': '"s";'}]},
    {'src': 'parser { wait /ab+/; /[^a]/; }\n', 'shape': 'wait', 'queries': [{'A': '/ab+/;', 'Adesc': 'wait /ab+/;', 'B': '/[^a]/;'}]},
    {'src': 'parser { wait /a(b|ca)*/; "c"; }\n', 'shape': 'wait', 'queries': [{'A': '/a(b|ca)*/;', 'Adesc': 'wait /a(b|ca)*/;', 'B': '"c";'}]},
]


def pairs(n, salt=13, njoin=None):
    """n programs of the first family (FIXED_PAIRS + _pair) followed by njoin (default n // 4) of the second (FIXED_PAIRS_JOIN + _pair_join)"""
    out = []
    for fixed, gen, cnt, slt in ((FIXED_PAIRS, _pair, n, salt), (FIXED_PAIRS_JOIN, _pair_join, n // 4 if njoin is None else njoin, salt + 1000)):
        r = rng(slt)
        part = [dict(x) for x in fixed][:cnt]
        seen = {x['src'] for x in part}
        tries = 0
        while len(part) < cnt and tries < cnt * 20:
            tries += 1
            p = gen(r)
            if p['src'] not in seen:
                seen.add(p['src'])
                part.append(p)
        out += part
    return out


# ---------------------------------------------------------------------------------------------------------------
# wait patterns (C16)
# ---------------------------------------------------------------------------------------------------------------
W_LIT = ['"abcdabce"', '"aab"', '"abab"', '"aaa"', '"abac"', '"a"', '"ab"', '"\\xff\\xffa"', '"\\r\\n"', '"aabaac"', '"abcab"', '"\\r\\n\\r\\n"', '"aa"', '"abaabab"']
W_CASEI = ['"aBa"i', '"abcabd"i', '"aa"i', '"xyX"i', '"a1a2"i']
W_BIN = ['"61 61 62"b', '"ff ff 00"b', '"00"b']
W_RE = ['/a[^b]c/', '/[^a]b/', '/a+b/', '/(ab|cd)e/', '/a.b/', '/[^ab][^bc]d/', '/a{2}b/', r'/\d\d:/', '/a(b|cd)e/', r'/x\w\s/', '/[^a][^a]a/', '/a[^a]*a/',
        '/(a|b)+c/', '/ab*c/', r'/\S\s/', '/[^x]y/', '/.a/', '/a.?b/', r'/\W\w/', '/(aa|ab)a/', 'b/61 [^62] 63/', 'b/ff+ 00/', '/a[^b]/', '/[ab][^ab]/', '/a*b/',
        '/(a|[^a])b/', r'/\r?\n/', '/[^\\n]*\\n/', '/ab+/', '/a?b?c/']
W_CAT = ['("ab" /c[^d]/ "e")', '("a"i /b+c/)', '(/[^x]/ "yz")', '("aa" "ab")', '(/a+/ "b" /c|d/)', '("ab"i "61 62"b)', '(/[^a]/ /[^b]/ "c")', '("a" ("b" /c+d/))']


def wait_patterns(n, salt=17):
    r = rng(salt)
    base = W_LIT + W_CASEI + W_BIN + W_RE + W_CAT
    out = list(base)[:n]
    seen = set(out)
    tries = 0
    lit_alpha = 'aab'
    while len(out) < n and tries < n * 30:
        tries += 1
        k = r.random()
        if k < 0.3:
            p = '"' + ''.join(r.choice(lit_alpha + 'bc') for _ in range(r.randint(2, 8))) + '"' + ('i' if r.random() < 0.2 else '')
        elif k < 0.8:
            body = _rgen(r, r.choice([2, 3]), ['a', 'b', 'c', '[^a]', '[^ab]', '.', r'\d', '[^bc]', r'\w', r'\S'], False)
            p = '/' + body + r.choice(['a', 'b', 'c', '[^a]b', ':', '']) + '/'
        else:
            p = '(' + ' '.join(r.choice(W_LIT + W_RE + W_CASEI) for _ in range(r.randint(2, 3))) + ')'
        if p not in seen and len(p) < 50:
            seen.add(p)
            out.append(p)
    return out


def wait_programs(pat):
    """-> list of (form, source)"""
    d = 'finishcode OKM, HND;\n'
    return [('bare', d + 'parser { wait %s; finish OKM; }\n' % pat),
            ('try', d + 'parser { try { wait %s; finish OKM; } catch { finish HND; } }\n' % pat),
            ('prefix', d + 'parser { "s"; wait %s; finish OKM; }\n' % pat),
            ('try-prefix', d + 'parser { try { "s"; wait %s; finish OKM; } catch { finish HND; } }\n' % pat),
            ('catch', d + 'parser { try { "s"; finish OKM; } catch { wait %s; finish HND; } }\n' % pat),
            # the wait is reached by a state whose only transition is a fall-through else (empty handler): the byte that broke the try body is the wait's first byte
            ('after-empty-catch', d + 'parser { try { "s"; "t"; } catch { } wait %s; finish OKM; }\n' % pat)]
