"""L3 harness: emitted C of one (program, config) as LLVM IR, memory images built from abstract data, calls of
<p>_start/_feed/_end/_free under llsym, read-back of the abstract data, and the representation invariant Inv."""
import re
import z3
from . import nm, llsym, absm, cexpr as C
from .llsym import Ptr, FuncRef, bv, Mem, NULL
from .nm import N

OST = N.OutputStorageType


class Unencodable(Exception):
    pass



def _whole_value(arr, off, n):
    """if the n bytes at constant offset off were last written as the n byte slices of one value X (a scalar store), return X itself:
    going through simplify(Concat(Select(Store..))) lets the rewriter push the low-byte extract into products, which hides from the
    arithmetic abstraction that both sides compute the same product"""
    parts = []
    for i in range(n):
        a = arr
        want = off + i
        got = None
        while z3.is_app(a) and a.decl().kind() == z3.Z3_OP_STORE:
            ix = a.arg(1)
            if not z3.is_bv_value(ix):
                ix = z3.simplify(ix)
            if not z3.is_bv_value(ix):
                return None
            if ix.as_long() == want:
                got = a.arg(2)
                break
            a = a.arg(0)
        if got is None or not (z3.is_app(got) and got.decl().kind() == z3.Z3_OP_EXTRACT):
            return None
        hi, lo = got.params()
        if (hi, lo) != (8 * i + 7, 8 * i):
            return None
        parts.append(got.arg(0))
    x = parts[0]
    if x.size() != 8 * n or any(p_.get_id() != x.get_id() for p_ in parts[1:]):
        return None
    return x

class L3:
    def __init__(self, comp):
        self.comp = comp
        self.name = comp.name
        self.cfg = comp.cfg
        ir, diag = nm.lower_to_ir(comp.header, comp.source, comp.name)
        if ir is None:
            raise Unencodable('emitted C does not compile: ' + diag[:300])
        self.ir = ir
        self.mod = llsym.Module(ir)
        self.sty = self.mod.ty(f'%struct.{self.name}_state')
        self.dynamic = self.cfg['ALLOCATE_STR_SPACE_DYNAMIC']
        self.ondemand = self.cfg['ALLOCATE_STR_SPACE_DYNAMIC_ON_DEMAND']
        self.indirect = self.cfg['INDIRECT_START_PTR']
        self.eof = self.cfg['EOF_SUPPORT']
        self.strict = self.cfg['STRICT_DONE_TOKEN_GENERATION']
        self.layout = absm.Layout(comp.spec, packed_enums=self.cfg['USE_PACKED_ENUMS'])
        self._fields()
        # length counters: the emitted type must be able to represent 0..capacity (C03); the encoding then follows the emitted width
        self.counter_findings = []
        for n in list(self.layout.cnt):
            bits = self.off[n + '_counter'][1].size() * 8
            if (1 << bits) <= self.layout.cap[n]:
                self.counter_findings.append((n, bits, self.layout.cap[n]))
            if bits != self.layout.cnt[n].w:
                self.layout.cnt[n] = C.CT(bits, False)
        self.codes = ['OK', 'FAIL', 'DONE'] + ['FINISH_' + c for c in comp.dctx.finish_codes] + ['YIELD_' + c for c in comp.dctx.yield_codes]
        self.nstates = len(comp.dfa.states)
        self.dynstrs = [n for n, o in comp.spec.items() if o.type == OST.STR] if self.dynamic else []
        # on-demand allocation: a string with a default value is allocated by start(), and only a freeing delete makes it NULL again,
        # so without -fdelete-string-free-memory "allocated" is part of the representation invariant for those strings (checked after
        # start() and after every step like the rest of the invariant); nmfu's own assignment guard relies on exactly this
        self.never_null = set(n for n in self.dynstrs if comp.spec[n].default_value is not None) if (self.ondemand and not self.cfg['DELETE_STRING_FREE_MEMORY']) else set()

    # ---- struct layout from the header declaration order (documented API) + IR types
    def _fields(self):
        h = self.comp.header
        m = re.search(r'struct %s_state\s*\{(.*?)\n\};' % re.escape(self.name), h, re.S)
        if not m:
            raise Unencodable('state struct not found in header')
        body = m.group(1)
        top = []     # names of top-level members in order
        cnames = []
        mm = re.search(r'struct \{(.*?)\}\s*c;', body, re.S)
        rest = body
        if mm:
            for line in mm.group(1).split(';'):
                line = line.strip()
                if not line:
                    continue
                nmx = re.match(r'.*?([A-Za-z_]\w*)\s*(\[\d+\])?$', line)
                cnames.append(nmx.group(1))
            top.append('c')
            rest = body[mm.end():]
        for line in rest.split(';'):
            line = line.strip()
            if not line or line.startswith('//'):
                continue
            line = re.sub(r'//.*', '', line).strip()
            if not line:
                continue
            nmx = re.match(r'.*?([A-Za-z_]\w*)$', line)
            top.append(nmx.group(1))
        st = self.sty
        if len(top) != len(st.fields):
            raise Unencodable(f'struct members {top} do not match IR fields {st.fields}')
        self.off = {}     # member path -> (offset, type)
        for i, nme in enumerate(top):
            if nme == 'c':
                ct = st.fields[i]
                if len(cnames) != len(ct.fields):
                    raise Unencodable('c members mismatch')
                for j, cn in enumerate(cnames):
                    self.off['c.' + cn] = (st.offs[i] + ct.offs[j], ct.fields[j])
            else:
                self.off[nme] = (st.offs[i], st.fields[i])
        if 'state' not in self.off:
            raise Unencodable('no state member')

    # ---- images
    def image(self, sidx, data, alloc=None, tag=''):
        """memory image with control state index sidx (int or BV) and abstract Data. alloc: dict name->bool for dynamic strings.
        In-struct string arrays are modelled as separate objects ('f_<name>') whose contents are the abstract byte arrays."""
        mem = Mem()
        arr = z3.Array('m_state' + tag, z3.BitVecSort(64), z3.BitVecSort(8))
        L = self.layout
        mem.splits = {}

        def put(arr, off, v, nbytes):
            for i in range(nbytes):
                arr = z3.Store(arr, bv(off + i, 64), z3.Extract(8 * i + 7, 8 * i, v))
            return arr
        for n, o in self.comp.spec.items():
            off, ty = self.off['c.' + n]
            if n in L.ct:
                v = data.vals[n]
                if v is None:
                    continue
                if ty.size() * 8 != v.t.w:
                    raise Unencodable(f'width of {n}: IR {ty} vs declared {v.t}')
                arr = put(arr, off, v.v, ty.size())
            else:
                s = data.strs[n]
                coff, cty = self.off[n + '_counter']
                if cty.size() * 8 != s.len.size():
                    raise Unencodable(f'counter width of {n}: IR {cty} vs {s.len.size()}')
                arr = put(arr, coff, s.len, cty.size())
                if o.type == OST.STR and self.dynamic:
                    if alloc is None or alloc.get(n, True):
                        hn = 'hs_' + n
                        mem.new(hn, L.size[n], kind='heap', init=s.arr)
                        mem.cells[('state', off)] = Ptr(hn, bv(0, 64))
                    else:
                        mem.cells[('state', off)] = NULL
                elif o.type == OST.STR:
                    if ty.size() != L.size[n]:
                        raise Unencodable(f'size of {n}: IR {ty} vs declared {L.size[n]}')
                    mem.new('f_' + n, L.size[n], kind='field', init=s.arr)
                    mem.splits[('state', off)] = 'f_' + n
                else:
                    for i in range(L.size[n]):
                        arr = z3.Store(arr, bv(off + i, 64), s.byte(i))
        soff, sty = self.off['state']
        sv = sidx if not isinstance(sidx, int) else bv(sidx, sty.size() * 8)
        arr = put(arr, soff, sv, sty.size())
        mem.new('state', self.sty.size(), init=arr)
        if 'userptr' in self.off:
            mem.new('user', 8)
            mem.cells[('state', self.off['userptr'][0])] = Ptr('user', bv(0, 64))
        for h in self.comp.dctx.hooks:
            if h + '_hook' in self.off:
                mem.cells[('state', self.off[h + '_hook'][0])] = FuncRef(f'@{self.name}_{h}_hook')
        self._globals(mem)
        return mem

    def _globals(self, mem):
        for g, bs in self.mod.globals.items():
            garr = z3.K(z3.BitVecSort(64), bv(0, 8))
            for i, b in enumerate(bs):
                garr = z3.Store(garr, bv(i, 64), bv(b, 8))
            mem.new(g, len(bs), writable=False, kind='global', init=garr)

    def raw_image(self, tag=''):
        """completely arbitrary struct memory (for start()); in-struct strings split out as in image()"""
        mem = Mem()
        mem.splits = {}
        mem.new('state', self.sty.size(), init=z3.Array('m_state' + tag, z3.BitVecSort(64), z3.BitVecSort(8)))
        for n, o in self.comp.spec.items():
            if o.type == OST.STR and not self.dynamic:
                off, ty = self.off['c.' + n]
                mem.new('f_' + n, self.layout.size[n], kind='field', init=z3.Array('m_f_' + n + tag, z3.BitVecSort(64), z3.BitVecSort(8)))
                mem.splits[('state', off)] = 'f_' + n
        self._globals(mem)
        for h in self.comp.dctx.hooks:
            if h + '_hook' in self.off:
                mem.cells[('state', self.off[h + '_hook'][0])] = FuncRef(f'@{self.name}_{h}_hook')
        return mem

    def add_chunk(self, mem, nbytes, name='chunk', symbols=None):
        """input chunk object with symbolic bytes; returns list of BV8"""
        arr = z3.Array('m_' + name, z3.BitVecSort(64), z3.BitVecSort(8))
        bs = symbols or [z3.BitVec(f'{name}_{i}', 8) for i in range(nbytes)]
        for i, b in enumerate(bs):
            arr = z3.Store(arr, bv(i, 64), b)
        mem.new(name, nbytes, writable=False, kind='input', init=arr)
        return bs

    # ---- read back
    def field(self, mem, path):
        off, ty = self.off[path]
        arr = mem.objs['state'].arr
        n = ty.size()
        whole = _whole_value(arr, off, n)
        if whole is not None:
            return whole
        bs = [z3.Select(arr, bv(off + i, 64)) for i in range(n)]
        return z3.simplify(z3.Concat(*reversed(bs)) if n > 1 else bs[0])

    def state_of(self, mem):
        return self.field(mem, 'state')

    def str_ptr(self, mem, n):
        return mem.cells.get(('state', self.off['c.' + n][0]))

    def str_arr(self, mem, n):
        """(z3 array, base offset BV64) holding string/raw n, or None if its pointer is NULL/invalid"""
        o = self.comp.spec[n]
        if o.type == OST.STR and self.dynamic:
            p = self.str_ptr(mem, n)
            if not isinstance(p, Ptr) or p.obj is None or p.obj in ('UNDEF', 'INTTOPTR') or p.obj not in mem.objs:
                return None
            return mem.objs[p.obj].arr, p.off
        off, ty = self.off['c.' + n]
        if ('state', off) in mem.splits:
            return mem.objs[mem.splits[('state', off)]].arr, bv(0, 64)
        return mem.objs['state'].arr, bv(off, 64)

    def str_byte(self, mem, n, i):
        """byte i (python int or BV64) of string/raw n; None if pointer is NULL"""
        a = self.str_arr(mem, n)
        if a is None:
            return None
        idx = bv(i, 64) if isinstance(i, int) else i
        return z3.Select(a[0], a[1] + idx)

    def snapshot(self, mem):
        """abstract view of the memory: (vals, strs: name -> (len, (array, base) or None))"""
        L = self.layout
        vals = {}
        strs = {}
        for n, o in self.comp.spec.items():
            if n in L.ct:
                vals[n] = self.field(mem, 'c.' + n)
            else:
                strs[n] = (self.field(mem, n + '_counter'), self.str_arr(mem, n))
        return (vals, strs)

    # ---- invariant on a memory (post-state) -> list of (name, z3 condition that must hold)
    def inv_post(self, mem):
        L = self.layout
        out = []
        seen_objs = {}
        for n, o in self.comp.spec.items():
            if n in L.ct:
                v = self.field(mem, 'c.' + n)
                if o.type == OST.BOOL:
                    out.append((f'bool {n} in {{0,1}}', z3.ULE(v, 1)))
                elif o.type == OST.ENUM:
                    out.append((f'enum {n} in range', z3.ULT(v, len(o.enum_values))))
                continue
            ln = self.field(mem, n + '_counter')
            out.append((f'{n}: counter <= capacity', z3.ULE(ln, L.cap[n])))
            isdyn = o.type == OST.STR and self.dynamic
            if isdyn:
                p = self.str_ptr(mem, n)
                if not isinstance(p, Ptr):
                    out.append((f'{n}: pointer cell holds a pointer', z3.BoolVal(False)))
                    continue
                if p.obj is None:
                    if self.ondemand and n in self.never_null:
                        out.append((f'{n}: allocated (has a default value and nothing frees it)', z3.BoolVal(False)))
                    elif self.ondemand:
                        out.append((f'{n}: NULL => counter == 0', ln == 0))
                    else:
                        out.append((f'{n}: allocated', z3.BoolVal(False)))
                    continue
                ob = mem.objs.get(p.obj)
                ok = ob is not None and ob.kind == 'heap' and ob.live and ob.size == L.size[n] and z3.is_bv_value(z3.simplify(p.off)) and z3.simplify(p.off).as_long() == 0
                out.append((f'{n}: pointer is a live heap object of exactly {L.size[n]} bytes', z3.BoolVal(bool(ok))))
                if p.obj in seen_objs:
                    out.append((f'{n}: buffer distinct from {seen_objs[p.obj]}', z3.BoolVal(False)))
                seen_objs[p.obj] = n
                if not ok:
                    continue
            if o.type == OST.STR and o.str_null:
                b = self.str_byte(mem, n, z3.ZeroExt(64 - ln.size(), ln))
                if b is not None:
                    out.append((f'{n}: NUL at counter', b == 0))
        return out

    def leak_conds(self, mem):
        """every live heap object must be the buffer of some string (nothing leaked)"""
        pointed = set()
        for n in self.dynstrs:
            p = self.str_ptr(mem, n)
            if isinstance(p, Ptr) and p.obj is not None:
                pointed.add(p.obj)
        return [(f'heap object {h} still referenced (no leak)', z3.BoolVal(h in pointed)) for h in self.live_heap(mem)]

    def live_heap(self, mem):
        return [k for k, o in mem.objs.items() if o.kind == 'heap' and o.live]

    # ---- calls
    def hook_snapshot(self, mem):
        return self.snapshot(mem)

    def call_feed(self, mem, nbytes, solver, base, stats, max_steps=4000, chunk='chunk', start_off=0):
        fn = f'@{self.name}_feed'
        if self.indirect:
            mem.new('startcell', 8, kind='cell')
            mem.cells[('startcell', 0)] = Ptr(chunk, bv(start_off, 64), 0, nbytes)
            args = [Ptr('startcell', bv(0, 64)), Ptr(chunk, bv(nbytes, 64), 0, nbytes), Ptr('state', bv(0, 64))]
        else:
            args = [Ptr(chunk, bv(start_off, 64), 0, nbytes), Ptr(chunk, bv(nbytes, 64), 0, nbytes), Ptr('state', bv(0, 64))]
        return llsym.Exec(self.mod, fn, args, mem, solver, base, max_steps=max_steps, stats=stats, hook_snapshot=self.hook_snapshot)

    def call1(self, fname, mem, solver, base, stats, max_steps=4000):
        return llsym.Exec(self.mod, f'@{self.name}_{fname}', [Ptr('state', bv(0, 64))], mem, solver, base, max_steps=max_steps,
                          stats=stats, hook_snapshot=self.hook_snapshot)

    def start_offset(self, mem):
        """(indirect mode) offset of *start within the chunk after the call, or None"""
        c = mem.cells.get(('startcell', 0))
        if isinstance(c, Ptr):
            return z3.simplify(c.off)
        return None
