"""Structural correspondence between two compiled DFAs of the same program (untrusted helper: proposes the state relation that
the solver-checked steps then verify). States are paired by parallel traversal from the start states, transitions by their
symbol sets / condition position and action signatures."""
from .nm import N, End, Else


def expr_sig(e):
    T = type(e).__name__
    if T == 'LiteralIntegerExpr':
        return ('lit', str(e.typ), repr(e.value))
    if T == 'OutIntegerExpr':
        return ('out', e.ref.name)
    if T == 'StringLengthIntegerExpr':
        return ('len', e.ref.name)
    if T == 'StringRefIntegerExpr':
        return ('idx', e.ref.name, expr_sig(e.index))
    if T == 'LastCharIntegerExpr':
        return ('last',)
    if T == 'SumIntegerExpr':
        return ('sum', tuple(expr_sig(c) for c in e.children), tuple(bool(x) for x in e.negate))
    if T == 'MulIntegerExpr':
        return ('mul', tuple(expr_sig(c) for c in e.children), tuple(getattr(x, 'value', x) for x in e.divide))
    if T == 'CompareIntegerExpr':
        return ('cmp', e.op.value, expr_sig(e.left), expr_sig(e.right))
    if T == 'BitShiftIntegerExpr':
        return ('shift', bool(e.towards_left), expr_sig(e.left), expr_sig(e.right))
    if T == 'BitwiseIntegerExpr':
        return ('bit', e.op.value, tuple(expr_sig(c) for c in e.children))
    if T in ('DisjunctionIntegerExpr', 'ConjunctionIntegerExpr'):
        return (T, tuple(expr_sig(c) for c in e.children))
    return (T, id(e))


def cond_sig(c):
    if c is None:
        return None
    if isinstance(c, N.ConstantCondition):
        return ('const', type(c).__name__, bool(c.value))
    return ('int', expr_sig(c.expr))


def action_sig(a):
    """(signature, [override target states in order])"""
    T = type(a).__name__
    if isinstance(a, N.CustomFinishAction):
        return ('finish', a.result_code), []
    if isinstance(a, N.FinishAction):
        return ('finish',), []
    if isinstance(a, N.CustomYieldAction):
        return ('yield', a.result_code), []
    if isinstance(a, N.CallHook):
        return ('hook', a.name), []
    if isinstance(a, N.SetTo):
        return ('set', a.into_storage.name, expr_sig(a.value_expr)), []
    if isinstance(a, N.SetToStr):
        v = a.value_expr
        if len(v) == 0:
            return ('delete', a.into_storage.name), []   # `x = ""` and `delete x` are the same action (-fuse-delete-for-empty-string)
        return ('setstr', a.into_storage.name, v if isinstance(v, bytes) else v.encode('latin-1', 'replace')), []
    if isinstance(a, N.DeleteBuf):
        return ('delete', a.into_storage.name), []
    if isinstance(a, N.AppendCharTo):
        return ('appendchar', a.into_storage.name, expr_sig(a.append_value)), [a.end_target]
    if isinstance(a, N.AppendTo):
        return ('append', a.into_storage.name), [a.end_target]
    if isinstance(a, N.ConditionalAction):
        sigs = []
        tg = []
        for c in a.conditions:
            subs = []
            for s in a.sub_actions[c]:
                sg, t = action_sig(s)
                subs.append(sg)
                tg += t
            sigs.append((cond_sig(c), tuple(subs)))
        return ('if', tuple(sigs)), tg
    if isinstance(a, N.BreakAction):
        subs = []
        tg = []
        for s in a.replacement_actions():
            sg, t = action_sig(s)
            subs.append(sg)
            tg += t
        return ('break', tuple(subs)), tg + [a.refers_to.end_state]
    return (T,), []


def trans_sig(t, pos, is_cond):
    asigs = []
    tgts = []
    for a in t.actions:
        sg, tg = action_sig(a)
        asigs.append(sg)
        tgts += tg
    if is_cond:
        key = ('cond', pos, cond_sig(t.cond))
    else:
        key = ('on', frozenset('End' if x is End else 'Else' if x is Else else x for x in t.on))
    return key, (t.fall, t.eh, tuple(asigs)), tgts


def iso(sa, sb):
    """returns dict stateA -> stateB for all states reachable in sa, or (None, reason)"""
    m = {}
    inv = {}
    work = [(sa.start, sb.start)]
    if (sa.fail in sa.tr or True):
        work.append((sa.fail, sb.fail))
    while work:
        a, b = work.pop()
        if a is None or b is None:
            if a is not b:
                return None, 'None target mismatch'
            continue
        if a in m:
            if m[a] is not b:
                return None, f'state {sa.name(a)} paired with two states'
            continue
        if b in inv:
            return None, f'state {sb.name(b)} paired twice'
        m[a] = b
        inv[b] = a
        if (a in sa.accept) != (b in sb.accept):
            return None, f'accepting status differs at {sa.name(a)}'
        if (a is sa.fail) != (b is sb.fail):
            return None, 'fail state mismatch'
        ta = sa.tr.get(a)
        tb = sb.tr.get(b)
        if ta is None or tb is None:
            if (ta is None) != (tb is None):
                return None, 'listed/unlisted state mismatch'
            continue
        ca, cb = sa.is_cond(a), sb.is_cond(b)
        if ca != cb or len(ta) != len(tb):
            return None, f'shape differs at {sa.name(a)}'
        da = {}
        for i, t in enumerate(ta):
            k, rest, tg = trans_sig(t, i, ca)
            if k in da:
                return None, 'duplicate transition key'
            da[k] = (rest, tg, t)
        for i, t in enumerate(tb):
            k, rest, tg = trans_sig(t, i, cb)
            if k not in da:
                return None, f'transition {k} of {sb.name(b)} has no counterpart'
            ra, tga, t0 = da[k]
            if ra != rest or len(tga) != len(tg):
                return None, f'transition {k} differs at {sa.name(a)}'
            work.append((t0.target, t.target))
            for x, y in zip(tga, tg):
                work.append((x, y))
    return m, None
