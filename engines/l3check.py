"""Shared driver for the one-step L3 checks (C03, C04, C06, C17): enumerates (program, config), runs stepcmp on every control
state in worker processes, replays every solver model against the gcc-built parser and the concrete abstract machine."""
import os, sys, time, json, hashlib, multiprocessing as mp, traceback
import z3
from . import chk, nm, l3 as l3mod, absm, stepcmp, replay, multicall, reach

CONFIGS_QUICK = [
    ('default', ()),
    ('O3-indirect-eof', ('-O3', '-findirect-start-ptr', '-feof-support')),
    ('O2-ondemand-free-u8-hookstate', ('-O2', '-fallocate-str-space-dynamic-on-demand', '-fdelete-string-free-memory', '-fstrings-as-u8', '-fhook-per-state')),
    # -fdelete-string-free-memory without on-demand allocation is accepted and must not free anything (nothing would re-allocate)
    ('O1-strict-dynamic-free-userptr-packed-zerolen', ('-O1', '-fstrict-done-token-generation', '-fallocate-str-space-dynamic', '-fdelete-string-free-memory', '-finclude-user-ptr',
                                                        '-fuse-packed-enums', '-fzero-len-input-support')),
    ('O3-yield-unsafeidx-range1', ('-O3', '-fyield-support', '-funsafe-string-indexing', '--collapsed-range-length', '1')),
]
CONFIGS_THOROUGH = CONFIGS_QUICK + [
    ('O0', ('-O0',)),
    ('O2-eof-strict-indirect', ('-O2', '-feof-support', '-fstrict-done-token-generation', '-findirect-start-ptr')),
    ('O3-ondemand-nofree-yield', ('-O3', '-fallocate-str-space-dynamic-on-demand', '-fyield-support', '-feof-support')),
    ('O1-dynamic-u8-unsafe', ('-O1', '-fallocate-str-space-dynamic', '-fstrings-as-u8', '-funsafe-string-indexing', '-fno-collapse-transition-ranges')),
    ('O3-range8-packed-hookstate-eof', ('-O3', '--collapsed-range-length', '8', '-fuse-packed-enums', '-fhook-per-state', '-feof-support', '-findirect-start-ptr')),
    ('O2-noshortcircuit-ondemand-free-strict', ('-O2', '-fshortcircuit-fallthroughs', '-fallocate-str-space-dynamic-on-demand', '-fdelete-string-free-memory',
                                                '-fstrict-done-token-generation', '-findirect-start-ptr')),
]


GEN_COUNT = {'quick': 24, 'thorough': 300}


def programs(tier, kinds=('example', 'ok', 'verif', 'gen')):
    out = []
    for p in nm.corpus_files(kinds):
        out.append((os.path.relpath(p, chk.REPO) if p.startswith(chk.REPO) else os.path.relpath(p, chk.VERIF), nm.read(p)))
    if 'gen' in kinds:
        # generated family (engines/gen_l3): seeded by VERIF_SEED, rejected programs are counted and skipped by work()
        from . import gen_l3
        n = int(os.environ.get('VERIF_GEN_COUNT') or GEN_COUNT[tier])
        for i, src in enumerate(gen_l3.programs(chk.seed(), n)):
            out.append(('gen/l3-%d-%03d' % (chk.seed(), i), src))
    return out


def jobs_for(tier, aspects, only_eof=False, kinds=('example', 'ok', 'verif', 'gen')):
    cfgs = CONFIGS_QUICK if tier == 'quick' else CONFIGS_THOROUGH
    js = []
    for label, src in programs(tier, kinds):
        for cname, flags in cfgs:
            if only_eof and '-feof-support' not in flags and '-feof-support' not in nm.split_args(src):
                continue
            js.append({'label': label, 'src': src, 'cname': cname, 'flags': flags, 'aspects': aspects, 'tier': tier,
                       'state_budget': (48, 16) if tier == 'quick' else None})
    # big programs last would straggle: sort by size descending so they start first
    js.sort(key=lambda j: -len(j['src']))
    return js


def state_budget(tier, n):
    return None


def work(job):
    """one (program, config): returns dict(stats=..., findings=[...], status=...)"""
    t0 = time.time()
    out = {'label': job['label'], 'cname': job['cname'], 'flags': list(job['flags']), 'status': 'ok', 'findings': [], 'stats': None, 'wall': 0}
    try:
        comp = nm.compile_src(job['src'], job['flags'])
        if comp.verdict != 'ok':
            out['status'] = 'rejected:' + comp.verdict + ':' + str(comp.error)[:160]
            return out
        try:
            L = l3mod.L3(comp)
        except l3mod.Unencodable as e:
            out['status'] = 'unencodable:' + str(e)[:200]
            return out
        except absm.Unsupported as e:
            out['status'] = 'unsupported:' + str(e)[:200]
            return out
        L.label = job['label'] + ' [' + job['cname'] + ']'
        m = absm.Machine(comp.post, L.layout, strict_done=L.strict, unsafe_index=comp.cfg['UNSAFE_STRING_INDEXING'],
                         free_on_delete=comp.cfg['DELETE_STRING_FREE_MEMORY'] and L.ondemand)
        st = stepcmp.StepStats()
        aspects = job['aspects']
        want = tuple(a for a in ('c06', 'c03', 'c04') if a in aspects)
        n = len(comp.post.states)
        finds = []
        sel = list(range(n))
        budget = job.get('state_budget')
        if isinstance(budget, tuple):
            budget = budget[0] if n <= 130 else budget[1]
        if budget and n > budget:
            import random
            rnd = random.Random(chk.seed() * 7919 + len(job['src']))
            sel = sorted(set(rnd.sample(range(n), budget)) | {0, n - 1, n - 2} | {i for i in (254, 255, 256) if i < n})   # the highest indexes and the 8-bit boundary always: they are the ones a too-narrow state member cannot hold (or wraps at)
            st.d['cov']['state_sampled_programs'] = [f"{job['label']} [{job['cname']}]: {budget} of {n} states (seeded)"]
        for sidx in sel:
            for alloc in stepcmp.alloc_masks(L):
                if 'byte' in aspects:
                    finds += stepcmp.step_state(L, m, sidx, False, alloc, st, want=want)
                if 'end' in aspects and L.eof:
                    finds += stepcmp.step_state(L, m, sidx, True, alloc, st, want=want)
                if 'c04' in aspects and comp.cfg['YIELD_SUPPORT'] and comp.dctx.yield_codes:
                    finds += multicall.c04_yield_state(L, sidx, alloc, st)
                if 'c02' in aspects:
                    for f in multicall.c02_state(L, sidx, alloc, job.get('L', 2), st):
                        f['sym'] = 'chunk'; finds.append(f)
                if 'c10' in aspects:
                    for f in multicall.c10_state(L, m, sidx, alloc, job.get('L', 2), st):
                        f['sym'] = 'chunk'; finds.append(f)
        if 'c03' in aspects:
            for n_, bits, cap in L.counter_findings:
                finds.append({'kind': 'c03-inv', 'what': 'length counter type cannot represent the capacity', 'detail': f'{n_}: {bits}-bit counter for capacity {cap} (wraps: the out-of-space test can never fire)',
                              'sym': 'start', 'pre': {'state': -1, 'vals': {}, 'strs': {}}})
            st.d['obligations'] += len(L.layout.cnt); st.d['discharged'] += len(L.layout.cnt) - len(L.counter_findings)
            finds += stepcmp.start_check(L, st)
            finds += stepcmp.free_check(L, st)
            # one-step models start from an arbitrary pre-state: look for an input through the public API that reaches it
            tried = {}
            for f in finds:
                if f['kind'] not in ('c03-mem', 'c03-inv') or '_cond' not in f:
                    continue
                k = (f['what'], f['detail'].split(' off=')[0], f['pre']['state'], f['sym'], str(sorted((n, sv.get('alloc', True)) for n, sv in f['pre']['strs'].items())))
                if k not in tried:
                    try:
                        amask = {n: sv.get('alloc', True) for n, sv in f['pre']['strs'].items()} if L.ondemand else None
                        tried[k] = reach.find_input(m, L.layout, comp.post.states[f['pre']['state']], f['_cond'], f['_data'],
                                                    maxlen=8 if job['tier'] == 'quick' else 12, max_paths=400 if job['tier'] == 'quick' else 3000,
                                                    ondemand=L.ondemand, alloc=amask)
                    except Exception as e:
                        tried[k] = None
                        st.d['cov'].setdefault('reach_errors', []).append(repr(e)[:120])
                f['reach'] = tried[k]
        for f in finds:
            for k in ('_cond', '_data', '_byte'):
                f.pop(k, None)
        # dedupe findings by (kind, what, detail-class, state)
        seen = {}
        for f in finds:
            k = (f['kind'], f['what'], f['detail'].split(' off=')[0] if f['kind'] == 'c03-mem' else f['detail'], f['pre']['state'], f['sym'])
            seen.setdefault(k, f)
        # replay
        for f in seen.values():
            f['label'] = job['label']; f['cname'] = job['cname']; f['flags'] = list(comp.flags)
            f['cfg_on'] = sorted(k for k, v in comp.cfg.items() if v and not k.startswith(('DEBUG', 'VERBOSE')))
            f['null_strs_with_default'] = [n for n, sv in f['pre']['strs'].items() if not sv.get('alloc', True) and comp.spec[n].default_value is not None]
            f['has_raw'] = any(o.type == l3mod.OST.RAW for o in comp.spec.values())
            f['replay'] = replay_finding(comp, L, m, f)
            out['findings'].append(f)
        st.d['cov']['programs'] = 1
        out['stats'] = st.d
    except Exception as e:
        out['status'] = 'harness-error:' + type(e).__name__ + ':' + str(e)[:300] + ' | ' + traceback.format_exc()[-600:]
    out['wall'] = time.time() - t0
    return out


def replay_finding(comp, L, m, f):
    """replays a one-step model on the gcc build (state forced: the model's pre-state) and on the concrete abstract machine"""
    if f['kind'] == 'c02-diff':
        bs = f['bytes']
        parts = f['parts']
        c1, d1 = replay.run_c(comp, L.layout, {'pre': f['pre'], 'calls': [('feed', bs)]})
        c2, d2 = replay.run_c(comp, L.layout, {'pre': f['pre'], 'calls': [('feed', bs[a:b]) for a, b in parts]})
        if c1 is None or c2 is None:
            return {'reproduced': None, 'note': 'replay build failed: ' + (d1 or d2)[:200]}
        t1 = replay.observable_trace(c1, [0]); t2 = replay.observable_trace(c2, [a for a, b in parts])
        diff = replay.traces_differ(t1, t2)
        if diff is None and t1 and t1[-1][0] == 'RET' and t1[-1][1] == 'OK':
            s1 = [e for e in c1 if e[0] == 'STATE']; s2 = [e for e in c2 if e[0] == 'STATE']
            if s1 and s2 and s1[0][1] != s2[0][1]:
                diff = f'control state after the chunk: whole {s1[0][1]} vs split {s2[0][1]}'
        return {'reproduced': diff is not None, 'diff': diff, 'whole': t1[-2:], 'split': t2[-2:]}
    if f['kind'] in ('c10-diff', 'c10-ok', 'c10-fail'):
        bs = f['bytes']
        calls = [('end',)] if str(f.get('calls', '')).startswith('end') else [('feed', bs)]
        if f['kind'] == 'c10-fail':
            calls.append(('end',) if f.get('next_call') == 'end' else ('feed', [f.get('next_byte', 0)]))
        sc = {'pre': f['pre'], 'calls': calls}
        clog, diag = replay.run_c(comp, L.layout, sc)
        if clog is None:
            return {'reproduced': None, 'note': 'replay build failed: ' + diag[:200]}
        if f['kind'] == 'c10-fail':
            rets = [e for e in clog if e[0] == 'RET']
            bad = len(rets) >= 2 and rets[-2][1] == 'FAIL' and rets[-1][1] != 'FAIL'
            return {'reproduced': bool(bad) or None, 'clog': rets[-2:], 'note': 'state/outputs change after FAIL is checked symbolically only' if not bad else ''}
        if f['kind'] == 'c10-ok':
            rets = [e for e in clog if e[0] == 'RET']
            bad = rets and rets[-1][1] == 'OK' and rets[-1][2] not in (-1, len(bs))
            return {'reproduced': bool(bad), 'clog': rets[-1:]}
        try:
            alog, ast = replay.run_absm(m, comp, sc)
        except Exception as e:
            return {'reproduced': None, 'note': 'abstract replay failed: ' + repr(e)[:200]}
        t1 = replay.observable_trace(clog, [0]); t2 = replay.observable_trace(alog, [0])
        diff = replay.traces_differ(t1, t2)
        return {'reproduced': diff is not None, 'diff': diff, 'c': t1[-2:], 'abstract': t2[-2:]}
    calls = [('end',)] if f['sym'] == 'end' else [('feed', [f.get('byte', 0)])]   # sym in ('byte', 'yield', ...)
    sc = {'pre': f['pre'], 'calls': calls}
    if f['kind'] in ('c03-mem', 'c03-inv'):
        if f['sym'] == 'start':
            sc = {'calls': []}
        elif f['sym'] == 'free':
            sc = {'calls': [('free',), ('free',)]}
        elif f.get('reach') is not None:
            sc = {'calls': [('feed', list(f['reach']) + ([f['byte']] if f['sym'] == 'byte' else []))] + ([('end',)] if f['sym'] == 'end' else [])}
        else:
            return {'reproduced': 'unreached', 'note': 'no input through the public API reaches the pre-state of the model within the search bound'}
        clog, diag = replay.run_c(comp, L.layout, sc, sanitize=True)
        if clog is None:
            return {'reproduced': None, 'note': 'replay build failed: ' + diag[:200]}
        crashed = any(e[0] in ('CRASH', 'TIMEOUT') for e in clog)
        res = {'reproduced': bool(crashed), 'sanitizer': diag[:400] if crashed else '', 'clog': clog[-3:]}
        if not crashed and f['kind'] == 'c03-mem' and 'out-of-bounds' not in f['what']:
            # a fault the sanitizer should see did not happen on the reached input: the model is not confirmed
            return {'reproduced': 'unreached', 'note': 'the reaching input does not fault under ASan/UBSan', 'clog': clog[-2:]}
        if not crashed and f['kind'] == 'c03-inv':
            # invariant violations are visible in the dumped outputs: re-evaluate on the concrete post-state
            res['reproduced'] = concrete_inv_violation(comp, L, clog, f)
        if not crashed and f['kind'] == 'c03-mem' and 'out-of-bounds' in f['what']:
            # sub-object overflow inside the struct is invisible to ASan: confirmed by reading the encoded access (reported as standard-level)
            res['note'] = 'not visible to ASan (sub-object or in-struct); standard-level finding'
        return res
    if f['kind'] == 'c04-unwind':
        clog, diag = replay.run_c(comp, L.layout, sc, timeout=10)
        if f['sym'] == 'yield':
            ys = [e for e in (clog or []) if e[0] == 'RET' and e[1].startswith('YIELD_')]
            return {'reproduced': len(ys) >= 1000 and len({e[2] for e in ys[-500:]}) == 1, 'yields_seen': len(ys)}
        return {'reproduced': bool(clog and any(e[0] == 'TIMEOUT' for e in clog)), 'clog': (clog or [])[-2:]}
    clog, diag = replay.run_c(comp, L.layout, sc)
    if clog is None:
        return {'reproduced': None, 'note': 'replay build failed: ' + diag[:200]}
    try:
        alog, ast = replay.run_absm(m, comp, sc)
    except Exception as e:
        return {'reproduced': None, 'note': 'abstract replay failed: ' + repr(e)[:200]}
    diff = replay.logs_differ(clog, alog)
    if diff is None:
        # compare stored state for non-terminal results
        cst = [e for e in clog if e[0] == 'STATE']
        last = [e for e in alog if e[0] == 'RET'][-1]
        if cst and last[1] in ('OK', 'FAIL') or last[1].startswith('YIELD_'):
            idx = comp.post.index.get(ast)
            if idx is not None and cst and cst[0][1] != idx:
                diff = f'stored state index: C {cst[0][1]} vs abstract {idx}'
    return {'reproduced': diff is not None, 'diff': diff, 'clog': clog[-3:], 'alog': alog[-3:]}


def concrete_inv_violation(comp, L, clog, f):
    rets = [e for e in clog if e[0] == 'RET']
    if not rets:
        return False
    outs = rets[-1][3] or {}
    for n, o in comp.spec.items():
        if n in L.layout.cap and n in outs:
            ln = outs[n].split(':')[0]
            try:
                if int(ln) > L.layout.cap[n]:
                    return True
            except ValueError:
                pass
            if '/' in outs[n] and 'NUL at counter' in f['detail'] and f['detail'].startswith(n + ':'):
                t = outs[n].split('/')[1]
                if t not in ('00', 'xx'):
                    return True
    return None  # cannot be observed through the dump (e.g. missing terminator): left to the standard-level argument


def run_jobs(jobs, nproc=None, progress=None):
    nproc = nproc or chk.ncpu()
    if chk.ONLY:
        jobs = [j for j in jobs if chk.ONLY in j.get('label', '')]
    nm.tmpdir()   # created before the fork: the workers put their scratch files under it and the parent removes it at exit
    ctx = mp.get_context('fork')
    with ctx.Pool(min(nproc, max(1, len(jobs))), maxtasksperchild=8) as pool:
        done = 0
        t0 = time.time()
        for r in pool.imap_unordered(work, jobs, chunksize=1):
            done += 1
            if r.get('wall', 0) > 60 or done % 50 == 0 or r['status'].startswith('harness'):
                print(f"  [{done}/{len(jobs)} t={time.time() - t0:.0f}s] {r['label']} [{r['cname']}] {r['status'][:80]} wall={r.get('wall', 0):.0f}s findings={len(r['findings'])}", file=sys.stderr, flush=True)
            yield r
