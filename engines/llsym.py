"""llsym: symbolic executor (z3) for the mem2reg'd LLVM IR (clang 14, typed pointers) of nmfu-emitted C.

Values: z3 bit-vectors; pointers are Ptr(object name, 64-bit offset, sub-object bounds). Memory: one byte-array per object,
plus typed pointer cells at concrete offsets. Paths fork at br/switch after a feasibility query. While executing, proof
obligations are generated for every memory access (inside a live object and inside the sub-object the pointer was derived
into; stores: writable object), for free() and memcpy(); a satisfiable negation is recorded as an obligation failure with
its path condition. Unsupported IR makes the encoding fail loudly (CannotEncode).
"""
import re, time
import z3


class CannotEncode(Exception):
    pass


# ------------------------------------------------------------------ types
class IntT:
    def __init__(s, b): s.bits = b
    def size(s): return max(1, (s.bits + 7) // 8)
    def align(s): return s.size()
    def __repr__(s): return f"i{s.bits}"


class PtrT:
    def __init__(s, to): s.to = to
    def size(s): return 8
    def align(s): return 8
    def __repr__(s): return f"{s.to}*"


class ArrT:
    def __init__(s, n, el): s.n = n; s.el = el
    def size(s): return s.n * s.el.size()
    def align(s): return s.el.align()
    def __repr__(s): return f"[{s.n} x {s.el}]"


class StructT:
    def __init__(s, fields, packed=False, name=None):
        s.fields = fields; s.name = name
        off = 0; s.offs = []; a = 1
        for f in fields:
            al = 1 if packed else f.align()
            a = max(a, al); off = (off + al - 1) // al * al; s.offs.append(off); off += f.size()
        s._al = a; s._sz = (off + a - 1) // a * a if fields else 0
    def size(s): return s._sz
    def align(s): return s._al
    def __repr__(s): return s.name or "{..}"


class FnT:
    def size(s): return 0
    def align(s): return 1
    def __repr__(s): return "fn"


class VoidT(IntT):
    def __init__(s): s.bits = 8


def split_top(x):
    out = []; d = 0; cur = ''
    for ch in x:
        if ch in '[{(<': d += 1
        elif ch in ']})>': d -= 1
        if ch == ',' and d == 0:
            out.append(cur.strip()); cur = ''
        else:
            cur += ch
    if cur.strip():
        out.append(cur.strip())
    return out


_ATTRS = {'noundef', 'zeroext', 'signext', 'noalias', 'nonnull', 'nocapture', 'readonly', 'writeonly', 'immarg', 'inbounds', 'returned', 'nofree'}


def split_typed(tok):
    """'i8* noundef %x' -> ('i8*', '%x');  handles constant expressions and attrs like align N"""
    tok = tok.strip()
    # type is a prefix: scan balanced
    i = 0; d = 0
    n = len(tok)
    while i < n:
        ch = tok[i]
        if ch in '[{(<': d += 1
        elif ch in ']})>': d -= 1
        elif ch == ' ' and d == 0:
            # a type may continue with '*' or '(' (function types) after space? no: 'i8 (i32)*' rare. stop here
            rest = tok[i + 1:].lstrip()
            if rest.startswith('('):  # function type
                i += 1; continue
            break
        i += 1
    ty = tok[:i]
    rest = tok[i:].strip()
    # strip attributes
    while True:
        m = re.match(r'(align \d+|dereferenceable\(\d+\)|[a-z_]+)\s+(.*)$', rest)
        if m and (m.group(1).split()[0] in _ATTRS or m.group(1).startswith('align') or m.group(1).startswith('dereferenceable')):
            rest = m.group(2)
        else:
            break
    return ty, rest


class Ins:
    __slots__ = ('op', 'dst', 'a', 'text')

    def __init__(s, op, dst, a, text):
        s.op, s.dst, s.a, s.text = op, dst, a, text


class Func:
    def __init__(s, mod, name, params, body):
        s.name = name; s.params = []
        for p in split_top(params):
            ty, rest = split_typed(p)
            s.params.append((ty, rest))
        s.blocks = {}; s.phis = {}
        cur = None; s.entry = None
        for line in body.split('\n'):
            st = line.strip()
            if not st or st.startswith(';'):
                continue
            m = re.match(r'^([\w.$-]+):', line)
            if m:
                cur = m.group(1); s.blocks[cur] = []; s.phis[cur] = []
                if s.entry is None: s.entry = cur
                continue
            if cur is None:
                cur = 'entry0'; s.blocks[cur] = []; s.phis[cur] = []; s.entry = cur
            st = re.sub(r'\s+;.*$', '', st) if '; preds' in st else st
            st = re.sub(r',\s*!\w+ !\d+', '', st)
            st = re.sub(r'\s+#\d+$', '', st)
            ins = mod.decode(st)
            if ins.op == 'phi': s.phis[cur].append(ins)
            else: s.blocks[cur].append(ins)


class Module:
    def __init__(s, text):
        text = re.sub(r'\[\n((?:\s+i\d+ -?\d+, label %[\w.$-]+\n)*)\s+\]', lambda m: '[ ' + ' '.join(m.group(1).split('\n')) + ' ]', text)
        s.structs = {}; s.funcs = {}; s.globals = {}; s._cache = {}; s.decls = set()
        for m in re.finditer(r'^(%[\w.]+) = type (<?\{.*\}>?)$', text, re.M):
            s.structs[m.group(1)] = m.group(2)
        for m in re.finditer(r'^(@[\w.]+) = .*?(?:constant|global) \[(\d+) x i8\] (c"((?:[^"\\]|\\[0-9A-Fa-f]{2}|\\\\)*)"|zeroinitializer)', text, re.M):
            n = int(m.group(2))
            if m.group(3) == 'zeroinitializer':
                bs = [0] * n
            else:
                raw = m.group(4); bs = []; i = 0
                while i < len(raw):
                    if raw[i] == '\\' and raw[i + 1] == '\\':
                        bs.append(92); i += 2
                    elif raw[i] == '\\':
                        bs.append(int(raw[i + 1:i + 3], 16)); i += 3
                    else:
                        bs.append(ord(raw[i])); i += 1
            if len(bs) != n:
                raise CannotEncode('global length mismatch ' + m.group(1))
            s.globals[m.group(1)] = bs
        for m in re.finditer(r'^declare [^@]*(@[\w.]+)\(', text, re.M):
            s.decls.add(m.group(1))
        for m in re.finditer(r'^define [^@]*(@[\w.]+)\((.*?)\)[^{\n]*\{\n(.*?)^\}', text, re.M | re.S):
            s.funcs[m.group(1)] = Func(s, m.group(1), m.group(2), m.group(3))

    def ty(s, t):
        t = t.strip()
        r = s._cache.get(t)
        if r is None:
            r = s._ty(t); s._cache[t] = r
        return r

    def _ty(s, t):
        if t.endswith('*'): return PtrT(s.ty(t[:-1]))
        if t.endswith(')'): return FnT()
        m = re.fullmatch(r'i(\d+)', t)
        if m: return IntT(int(m.group(1)))
        if t == 'void': return VoidT()
        m = re.fullmatch(r'\[(\d+) x (.*)\]', t)
        if m: return ArrT(int(m.group(1)), s.ty(m.group(2)))
        if t.startswith('<{'): return StructT([s.ty(x) for x in split_top(t[2:-2])], packed=True)
        if t.startswith('{'): return StructT([s.ty(x) for x in split_top(t[1:-1])])
        if t in s.structs:
            st = s.ty(s.structs[t]); st.name = t; return st
        if t in ('float', 'double'):
            return IntT(32 if t == 'float' else 64)
        raise CannotEncode("type " + t)

    def decode(s, st):
        text = st
        dst = None
        m = re.match(r'(%[\w.$-]+) = (.*)$', st)
        if m: dst, st = m.group(1), m.group(2)
        op = st.split()[0]
        if op == 'tail' or op == 'notail' or op == 'musttail':
            st = st.split(None, 1)[1]; op = 'call'
        if op == 'phi':
            m = re.match(r'phi (.+?) (\[.*)$', st)
            ty = s.ty(m.group(1))
            incs = re.findall(r'\[ (.+?), %([\w.$-]+) \]', m.group(2))
            return Ins('phi', dst, (ty, incs), text)
        if op == 'getelementptr':
            body = st[len('getelementptr'):].strip()
            if body.startswith('inbounds'): body = body[len('inbounds'):].strip()
            parts = split_top(body)
            bty, base = split_typed(parts[1])
            idxs = [split_typed(x) for x in parts[2:]]
            return Ins('gep', dst, (s.ty(parts[0]), base, [(s.ty(a), b) for a, b in idxs]), text)
        if op == 'load':
            body = st[len('load'):].strip()
            if body.startswith('volatile'): body = body[8:].strip()
            parts = split_top(body)
            if len(parts) < 2: raise CannotEncode(text)
            pty, ptok = split_typed(parts[1])
            return Ins('load', dst, (s.ty(parts[0]), ptok), text)
        if op == 'store':
            body = st[len('store'):].strip()
            if body.startswith('volatile'): body = body[8:].strip()
            parts = split_top(body)
            vty, v = split_typed(parts[0]); pty, p = split_typed(parts[1])
            return Ins('store', None, (s.ty(vty), v, p), text)
        if op in ('zext', 'sext', 'trunc', 'bitcast', 'inttoptr', 'ptrtoint'):
            m = re.match(r'\w+ (.+?) (\S+) to (.+)$', st)
            if not m: raise CannotEncode(text)
            return Ins(op, dst, (s.ty(m.group(1)), m.group(2), s.ty(m.group(3))), text)
        if op == 'icmp':
            m = re.match(r'icmp (\w+) (.+?) ([^, ]+), (.+)$', st)
            return Ins('icmp', dst, (m.group(1), s.ty(m.group(2)), m.group(3), m.group(4).strip()), text)
        if op in ('add', 'sub', 'mul', 'and', 'or', 'xor', 'shl', 'lshr', 'ashr', 'sdiv', 'udiv', 'srem', 'urem'):
            m = re.match(r'\w+ ((?:nsw |nuw |exact )*)(\S+) ([^,]+), (.+)$', st)
            return Ins('bin', dst, (op, m.group(1).split(), s.ty(m.group(2)), m.group(3).strip(), m.group(4).strip()), text)
        if op == 'select':
            parts = split_top(st[len('select'):])
            c = split_typed(parts[0]); a = split_typed(parts[1]); b = split_typed(parts[2])
            return Ins('select', dst, (c[1], s.ty(a[0]), a[1], b[1]), text)
        if op == 'br':
            m = re.match(r'br label %([\w.$-]+)$', st)
            if m: return Ins('br', None, (m.group(1),), text)
            m = re.match(r'br i1 (\S+), label %([\w.$-]+), label %([\w.$-]+)$', st)
            return Ins('cbr', None, (m.group(1), m.group(2), m.group(3)), text)
        if op == 'switch':
            m = re.match(r'switch (\S+) (\S+), label %([\w.$-]+) \[(.*)\]', st, re.S)
            cases = [(int(c), t) for c, t in re.findall(r'i\d+ (-?\d+), label %([\w.$-]+)', m.group(4))]
            return Ins('switch', None, (s.ty(m.group(1)), m.group(2), m.group(3), cases), text)
        if op == 'call':
            m = re.match(r'call (.+?) (@[\w.]+|%[\w.$-]+)\((.*)\)$', st)
            if not m: raise CannotEncode(text)
            args = [split_typed(a) for a in split_top(m.group(3))]
            rty = m.group(1).split()[-1] if not m.group(1).endswith(')') and not m.group(1).endswith(')*') else m.group(1)
            # strip return attributes
            rt = re.sub(r'^(?:(?:noalias|noundef|zeroext|signext|nonnull)\s+)*', '', m.group(1))
            rt = rt.split(' (')[0]
            return Ins('call', dst, (rt, m.group(2), args), text)
        if op == 'ret':
            if st == 'ret void': return Ins('ret', None, (None, None), text)
            m = re.match(r'ret (\S+) (.+)$', st)
            return Ins('ret', None, (s.ty(m.group(1)), m.group(2)), text)
        if op == 'unreachable':
            return Ins('unreachable', None, (), text)
        raise CannotEncode("instruction " + text)


# ------------------------------------------------------------------ runtime values
class Ptr:
    __slots__ = ('obj', 'off', 'lo', 'hi')

    def __init__(s, obj, off, lo=None, hi=None):
        s.obj, s.off, s.lo, s.hi = obj, off, lo, hi

    def __repr__(s):
        return f"Ptr({s.obj},{z3.simplify(s.off) if s.off is not None else None},[{s.lo},{s.hi}))"


class FuncRef:
    def __init__(s, name): s.name = name
    def __repr__(s): return f"Fn({s.name})"


def bv(v, b): return z3.BitVecVal(v, b)


NULL = Ptr(None, bv(0, 64))


class Obj:
    __slots__ = ('size', 'arr', 'live', 'writable', 'kind')

    def __init__(s, size, arr, live=True, writable=True, kind='mem'):
        s.size, s.arr, s.live, s.writable, s.kind = size, arr, live, writable, kind


class Mem:
    """objects + pointer cells; copied at forks"""

    def __init__(s):
        s.objs = {}
        s.cells = {}     # (obj, off:int) -> Ptr | FuncRef
        s.splits = {}    # (obj, off:int) -> name of the separate object modelling the array member at that offset
        s.nheap = 0

    def copy(s):
        m = Mem()
        m.objs = {k: Obj(o.size, o.arr, o.live, o.writable, o.kind) for k, o in s.objs.items()}
        m.cells = dict(s.cells)
        m.splits = s.splits
        m.nheap = s.nheap
        return m

    def new(s, name, size, writable=True, kind='mem', init=None):
        arr = z3.Array('m_' + name, z3.BitVecSort(64), z3.BitVecSort(8)) if init is None else init
        s.objs[name] = Obj(size, arr, True, writable, kind)
        return name


class Path:
    __slots__ = ('kind', 'pc', 'ret', 'mem', 'events', 'steps', 'why', 'assumed')

    def __init__(s, kind, pc, ret, mem, events, steps, why=None, assumed=None):
        s.kind, s.pc, s.ret, s.mem, s.events, s.steps, s.why, s.assumed = kind, pc, ret, mem, events, steps, why, assumed or []


class ObFail:
    def __init__(s, kind, detail, pc, cond, ins):
        s.kind, s.detail, s.pc, s.cond, s.ins = kind, detail, pc, cond, ins

    def __repr__(s):
        return f"<ObFail {s.kind} {s.detail} at {s.ins}>"


class Exec:
    """execute one function call symbolically over all feasible paths"""

    def __init__(s, mod, fn, args, mem, solver, base=(), hooks=None, max_steps=4000, stats=None, assume_nsw=True, hook_snapshot=None):
        s.mod = mod; s.fn = mod.funcs[fn]; s.solver = solver; s.base = list(base)
        s.max_steps = max_steps
        s.paths = []
        s.fails = []          # ObFail
        s.n_obl = 0           # obligations generated
        s.n_obl_solver = 0    # ... that needed the solver
        s.stats = stats if stats is not None else {}
        s.stats.setdefault('queries', 0); s.stats.setdefault('solver_time', 0.0)
        s.assume_nsw = assume_nsw
        s.hook_snapshot = hook_snapshot
        env = {}
        if len(args) != len(s.fn.params):
            raise CannotEncode('arity of ' + fn)
        for (ty, nm), a in zip(s.fn.params, args):
            env[nm] = a
        s._run(env, mem)

    # ---- solver
    def sat(s, pc, c):
        c = z3.simplify(c)
        if z3.is_false(c): return False
        s.stats['queries'] += 1
        t = time.time()
        s.solver.push(); s.solver.add(*s.base, *pc, c); r = s.solver.check(); s.solver.pop()
        s.stats['solver_time'] += time.time() - t
        if r == z3.unknown:
            raise CannotEncode('solver unknown in feasibility check')
        return r == z3.sat

    # ---- operands
    def val(s, env, tok, ty):
        tok = tok.strip()
        if tok.startswith('%'):
            try: return env[tok]
            except KeyError: raise CannotEncode('undefined value ' + tok)
        if tok == 'null': return NULL
        if tok == 'true': return bv(1, 1)
        if tok == 'false': return bv(0, 1)
        if tok in ('undef', 'poison'):
            if isinstance(ty, PtrT): return Ptr('UNDEF', bv(0, 64))
            return z3.FreshConst(z3.BitVecSort(ty.bits), 'undef')
        if tok.startswith('getelementptr'):
            m = re.match(r'getelementptr (?:inbounds )?\((.*)\)$', tok)
            parts = split_top(m.group(1))
            bty, base = split_typed(parts[1])
            p = s.val(env, base, None)
            return s.gep(env, s.mod.ty(parts[0]), p, [(s.mod.ty(a), b) for a, b in (split_typed(x) for x in parts[2:])])
        if tok.startswith('bitcast'):
            m = re.match(r'bitcast \((.+?) (\S+) to .+\)$', tok)
            return s.val(env, m.group(2), None)
        if tok.startswith('@'):
            if tok in s.mod.globals: return Ptr(tok, bv(0, 64), 0, len(s.mod.globals[tok]))
            return FuncRef(tok)
        if tok == 'zeroinitializer':
            return bv(0, ty.bits)
        try:
            return bv(int(tok), ty.bits)
        except (ValueError, AttributeError):
            raise CannotEncode('operand ' + tok)

    def gep(s, env, ty, base, idxs, mem=None):
        if not isinstance(base, Ptr):
            raise CannotEncode('gep on non-pointer')
        off = base.off; lo, hi = base.lo, base.hi
        first = True
        for ity, iv in idxs:
            v = s.val(env, iv, ity)
            if v.size() < 64: v = z3.SignExt(64 - v.size(), v)
            if first:
                first = False
                vs = z3.simplify(v)
                if not (z3.is_bv_value(vs) and vs.as_long() == 0):
                    off = off + v * ty.size()    # pointer arithmetic within the current (sub)object
                continue
            if isinstance(ty, StructT):
                vs = z3.simplify(v)
                k = vs.as_long()
                cur = z3.simplify(off)
                off = off + ty.offs[k]; ty = ty.fields[k]
                o2 = z3.simplify(off)
                if z3.is_bv_value(o2):
                    lo, hi = o2.as_long(), o2.as_long() + ty.size()
                    if mem is not None and isinstance(ty, ArrT) and (base.obj, lo) in mem.splits:
                        # array member modelled as its own object (accesses are confined to the member by the sub-object rule anyway)
                        base = Ptr(mem.splits[(base.obj, lo)], bv(0, 64)); off = bv(0, 64); lo, hi = 0, ty.size()
                else:
                    lo = hi = None
            elif isinstance(ty, ArrT):
                o2 = z3.simplify(off)
                if z3.is_bv_value(o2):
                    lo, hi = o2.as_long(), o2.as_long() + ty.size()
                off = off + v * ty.el.size(); ty = ty.el
            else:
                raise CannotEncode('gep into scalar')
        return Ptr(base.obj, off, lo, hi)

    # ---- memory obligations
    def check_access(s, mem, p, n, pc, ins, write):
        s.n_obl += 1
        if not isinstance(p, Ptr):
            raise CannotEncode('access through non-pointer ' + ins.text)
        if p.obj is None:
            s.fails.append(ObFail('null-deref', 'write' if write else 'read', list(pc), z3.BoolVal(True), ins.text)); return False
        if p.obj == 'INTTOPTR':
            s.fails.append(ObFail('inttoptr-access', 'pointer manufactured from an integer', list(pc), z3.BoolVal(True), ins.text)); return False
        if p.obj == 'UNDEF':
            s.fails.append(ObFail('undef-pointer', '', list(pc), z3.BoolVal(True), ins.text)); return False
        o = mem.objs.get(p.obj)
        if o is None:
            raise CannotEncode('unknown object ' + str(p.obj))
        if not o.live:
            s.fails.append(ObFail('use-after-free', p.obj, list(pc), z3.BoolVal(True), ins.text)); return False
        if write and not o.writable:
            s.fails.append(ObFail('write-to-readonly', p.obj, list(pc), z3.BoolVal(True), ins.text)); return False
        lo = 0 if p.lo is None else p.lo
        hi = o.size if p.hi is None else min(p.hi, o.size)
        off = z3.simplify(p.off)
        if z3.is_bv_value(off):
            v = off.as_long()
            if v >= (1 << 63): v -= 1 << 64
            if lo <= v and v + n <= hi: return True
            s.fails.append(ObFail('out-of-bounds', f'{p.obj} off={v} n={n} bounds=[{lo},{hi})', list(pc), z3.BoolVal(True), ins.text)); return False
        bad = z3.Or(off < lo, off + n > hi) if True else None
        s.n_obl_solver += 1
        if s.sat(pc, bad):
            s.fails.append(ObFail('out-of-bounds', f'{p.obj} off={off} n={n} bounds=[{lo},{hi})', list(pc), bad, ins.text))
            return False
        return True

    def load(s, mem, p, ty, pc, ins):
        n = ty.size()
        ok = s.check_access(mem, p, n, pc, ins, False)
        if not ok:
            raise _Abort(s.fails[-1])
        off = z3.simplify(p.off)
        if isinstance(ty, PtrT):
            if not z3.is_bv_value(off): raise CannotEncode('pointer load at symbolic offset')
            c = mem.cells.get((p.obj, off.as_long()))
            if c is None:
                return Ptr('UNDEF', bv(0, 64))
            return c
        arr = mem.objs[p.obj].arr
        bs = [z3.Select(arr, off + i) for i in range(n)]
        v = z3.Concat(*reversed(bs)) if n > 1 else bs[0]
        if v.size() != ty.bits: v = z3.Extract(ty.bits - 1, 0, v)
        return v

    def store(s, mem, p, v, ty, pc, ins):
        n = ty.size()
        ok = s.check_access(mem, p, n, pc, ins, True)
        if not ok:
            raise _Abort(s.fails[-1])
        off = z3.simplify(p.off)
        if isinstance(ty, PtrT):
            if not z3.is_bv_value(off): raise CannotEncode('pointer store at symbolic offset')
            mem.cells[(p.obj, off.as_long())] = v
            return
        if isinstance(v, (Ptr, FuncRef)): raise CannotEncode('pointer stored as integer')
        if v.size() < n * 8: v = z3.ZeroExt(n * 8 - v.size(), v)
        o = mem.objs[p.obj]
        arr = o.arr
        for i in range(n):
            arr = z3.Store(arr, off + i, z3.Extract(8 * i + 7, 8 * i, v))
        o.arr = arr

    # ---- main loop
    def _run(s, env0, mem0):
        stack = [(s.fn.entry, None, env0, mem0, [], [], 0, [])]
        while stack:
            blk, prev, env, mem, pc, ev, steps, assumed = stack.pop()
            try:
                while True:
                    steps += 1
                    if steps > s.max_steps:
                        s.paths.append(Path('UNWIND', pc, None, mem, ev, steps)); break
                    phis = s.fn.phis[blk]
                    if phis:
                        nv = {}
                        for ins in phis:
                            ty, incs = ins.a
                            for tok, frm in incs:
                                if frm == prev:
                                    nv[ins.dst] = s.val(env, tok, ty); break
                            else:
                                raise CannotEncode('phi without incoming for ' + str(prev))
                        env.update(nv)
                    nxt = None
                    for ins in s.fn.blocks[blk]:
                        r = s.step(ins, env, mem, pc, ev, assumed)
                        if r is None: continue
                        k = r[0]
                        if k == 'ret':
                            s.paths.append(Path('RET', pc, r[1], mem, ev, steps, assumed=assumed)); nxt = '__done__'; break
                        if k == 'br':
                            prev, blk = blk, r[1]; nxt = blk; break
                        if k == 'fork':
                            alts = [(c, t) for c, t in r[1] if s.sat(pc, c)]
                            if not alts:
                                nxt = '__done__'; break   # infeasible path (can happen after an assumption)
                            alts = [(z3.simplify(c), t) for c, t in alts]
                            for c, t in alts[1:]:
                                stack.append((t, blk, dict(env), mem.copy(), pc + [c], list(ev), steps, list(assumed)))
                            c, t = alts[0]
                            cs = z3.simplify(c)
                            if not z3.is_true(cs): pc = pc + [c]
                            prev, blk = blk, t; nxt = blk; break
                        if k == 'unreachable':
                            s.paths.append(Path('UNREACHABLE', pc, None, mem, ev, steps)); nxt = '__done__'; break
                    if nxt == '__done__': break
                    if nxt is None:
                        raise CannotEncode('block without terminator ' + blk)
            except _Abort as ab:
                why = ab.args[0] if ab.args else None
                s.paths.append(Path('ABORT', pc, None, mem, ev, steps, why=(why.kind + ' ' + why.detail + ' @ ' + why.ins) if why is not None else None))

    def step(s, ins, env, mem, pc, ev, assumed):
        op = ins.op; a = ins.a
        if op == 'gep':
            env[ins.dst] = s.gep(env, a[0], s.val(env, a[1], None), a[2], mem); return
        if op == 'load':
            env[ins.dst] = s.load(mem, s.val(env, a[1], None), a[0], pc, ins); return
        if op == 'store':
            s.store(mem, s.val(env, a[2], None), s.val(env, a[1], a[0]), a[0], pc, ins); return
        if op in ('zext', 'sext', 'trunc'):
            v = s.val(env, a[1], a[0]); tb = a[2].bits
            env[ins.dst] = z3.ZeroExt(tb - v.size(), v) if op == 'zext' else z3.SignExt(tb - v.size(), v) if op == 'sext' else z3.Extract(tb - 1, 0, v); return
        if op == 'bitcast':
            env[ins.dst] = s.val(env, a[1], a[0]); return
        if op == 'inttoptr':
            v = s.val(env, a[1], a[0])
            if v.size() < 64: v = z3.ZeroExt(64 - v.size(), v)
            env[ins.dst] = Ptr('INTTOPTR', v); return
        if op == 'ptrtoint':
            raise CannotEncode(ins.text)
        if op == 'icmp':
            pred, ty, x, y = a
            xv = s.val(env, x, ty); yv = s.val(env, y, ty)
            if isinstance(xv, (Ptr, FuncRef)) or isinstance(yv, (Ptr, FuncRef)):
                if isinstance(xv, FuncRef) or isinstance(yv, FuncRef):
                    c = z3.BoolVal(isinstance(xv, FuncRef) and isinstance(yv, FuncRef) and xv.name == yv.name)
                elif xv.obj == yv.obj:
                    c = {'eq': xv.off == yv.off, 'ne': xv.off != yv.off, 'ult': z3.ULT(xv.off, yv.off), 'ule': z3.ULE(xv.off, yv.off),
                         'ugt': z3.UGT(xv.off, yv.off), 'uge': z3.UGE(xv.off, yv.off)}.get(pred)
                    if c is None: raise CannotEncode(ins.text)
                    env[ins.dst] = z3.If(c, bv(1, 1), bv(0, 1)); return
                else:
                    if pred not in ('eq', 'ne'): raise CannotEncode('relational compare of pointers into different objects')
                    c = z3.BoolVal(False)
                if pred == 'ne': c = z3.Not(c)
                elif pred != 'eq': raise CannotEncode(ins.text)
            else:
                c = {'eq': lambda: xv == yv, 'ne': lambda: xv != yv, 'slt': lambda: xv < yv, 'sle': lambda: xv <= yv, 'sgt': lambda: xv > yv,
                     'sge': lambda: xv >= yv, 'ult': lambda: z3.ULT(xv, yv), 'ule': lambda: z3.ULE(xv, yv), 'ugt': lambda: z3.UGT(xv, yv),
                     'uge': lambda: z3.UGE(xv, yv)}[pred]()
            env[ins.dst] = z3.If(c, bv(1, 1), bv(0, 1)); return
        if op == 'bin':
            o, flags, ty, x, y = a
            xv = s.val(env, x, ty); yv = s.val(env, y, ty)
            ubc = []
            if 'nsw' in flags:
                if o == 'add': ubc += [z3.Not(z3.BVAddNoOverflow(xv, yv, True)), z3.Not(z3.BVAddNoUnderflow(xv, yv))]
                elif o == 'sub': ubc += [z3.Not(z3.BVSubNoOverflow(xv, yv)), z3.Not(z3.BVSubNoUnderflow(xv, yv, True))]
                elif o == 'mul': ubc += [z3.Not(z3.BVMulNoOverflow(xv, yv, True)), z3.Not(z3.BVMulNoUnderflow(xv, yv))]
                elif o == 'shl': pass
            if o in ('sdiv', 'udiv', 'srem', 'urem'):
                ubc.append(yv == 0)
                if o in ('sdiv', 'srem'):
                    ubc.append(z3.And(xv == bv(1 << (ty.bits - 1), ty.bits), yv == bv(-1, ty.bits)))
            if o in ('shl', 'lshr', 'ashr'):
                ubc.append(z3.UGE(yv, ty.bits))
            if ubc:
                # arithmetic UB stems from the user's expression: assumed away (C14 precondition), recorded
                c = z3.simplify(z3.Not(z3.Or(*ubc)))
                if not z3.is_true(c):
                    pc.append(c); assumed.append(c)
            r = {'add': lambda: xv + yv, 'sub': lambda: xv - yv, 'mul': lambda: xv * yv, 'and': lambda: xv & yv, 'or': lambda: xv | yv,
                 'xor': lambda: xv ^ yv, 'shl': lambda: xv << yv, 'lshr': lambda: z3.LShR(xv, yv), 'ashr': lambda: xv >> yv,
                 'sdiv': lambda: xv / yv, 'udiv': lambda: z3.UDiv(xv, yv), 'srem': lambda: z3.SRem(xv, yv), 'urem': lambda: z3.URem(xv, yv)}[o]()
            env[ins.dst] = r; return
        if op == 'select':
            c = s.val(env, a[0], IntT(1)); x = s.val(env, a[2], a[1]); y = s.val(env, a[3], a[1])
            if isinstance(x, (Ptr, FuncRef)) or isinstance(y, (Ptr, FuncRef)): raise CannotEncode('select on pointers')
            env[ins.dst] = z3.If(c == 1, x, y); return
        if op == 'br': return ('br', a[0])
        if op == 'cbr':
            c = s.val(env, a[0], IntT(1))
            cs = z3.simplify(c)
            if z3.is_bv_value(cs):
                return ('br', a[1] if cs.as_long() == 1 else a[2])
            return ('fork', [(c == 1, a[1]), (c == 0, a[2])])
        if op == 'switch':
            ty, v, dflt, cases = a
            x = s.val(env, v, ty)
            xs = z3.simplify(x)
            if z3.is_bv_value(xs):
                for cv, t in cases:
                    if (cv & ((1 << ty.bits) - 1)) == xs.as_long(): return ('br', t)
                return ('br', dflt)
            # one alternative per TARGET (case values are distinct, so their order does not matter): a 128-value class is one path, not 128
            by_t = {}
            for cv, t in cases:
                by_t.setdefault(t, []).append(cv)
            alts = [(z3.Or([x == cv for cv in cvs]) if len(cvs) > 1 else x == cvs[0], t) for t, cvs in by_t.items() if t != dflt]
            alts.append((z3.And([x != cv for cv, t in cases if t != dflt]) if any(t != dflt for _, t in cases) else z3.BoolVal(True), dflt))
            return ('fork', alts)
        if op == 'call':
            rty, callee, args = a
            if callee.startswith('%'):
                f = env[callee]
                if not isinstance(f, FuncRef):
                    if isinstance(f, Ptr) and f.obj == 'UNDEF':
                        s.n_obl += 1
                        s.fails.append(ObFail('call-through-undef-pointer', '', list(pc), z3.BoolVal(True), ins.text)); raise _Abort(s.fails[-1])
                    raise CannotEncode('indirect call through ' + repr(f))
                callee = f.name
            av = [s.val(env, tok, s.mod.ty(ty)) for ty, tok in args]
            if callee == '@malloc':
                n = z3.simplify(av[0])
                if not z3.is_bv_value(n): raise CannotEncode('malloc of symbolic size')
                mem.nheap += 1
                name = f'heap{mem.nheap}'
                # contents of fresh memory: a fixed unknown per allocation ordinal (the k-th malloc of any run sees the same garbage),
                # so that two runs performing the same allocations are comparable
                mem.new(name, n.as_long(), kind='heap', init=z3.Array('m_fresh_' + name + '_' + str(n.as_long()), z3.BitVecSort(64), z3.BitVecSort(8)))
                env[ins.dst] = Ptr(name, bv(0, 64)); return
            if callee == '@free':
                p = av[0]
                s.n_obl += 1
                if not isinstance(p, Ptr): raise CannotEncode('free of non-pointer')
                if p.obj is None: return
                o = mem.objs.get(p.obj)
                off = z3.simplify(p.off)
                if p.obj in ('UNDEF', 'INTTOPTR') or o is None or o.kind != 'heap' or not (z3.is_bv_value(off) and off.as_long() == 0):
                    s.fails.append(ObFail('invalid-free', repr(p), list(pc), z3.BoolVal(True), ins.text)); raise _Abort(s.fails[-1])
                if not o.live:
                    s.fails.append(ObFail('double-free', p.obj, list(pc), z3.BoolVal(True), ins.text)); raise _Abort(s.fails[-1])
                o.live = False; return
            if callee.startswith('@llvm.memcpy'):
                dst, src, n = av[0], av[1], z3.simplify(av[2])
                if not z3.is_bv_value(n): raise CannotEncode('memcpy of symbolic length')
                n = n.as_long()
                if n == 0: return
                ok1 = s.check_access(mem, src, n, pc, ins, False)
                ok2 = s.check_access(mem, dst, n, pc, ins, True)
                if not (ok1 and ok2): raise _Abort(s.fails[-1])
                sarr = mem.objs[src.obj].arr; o = mem.objs[dst.obj]; darr = o.arr
                for i in range(n):
                    darr = z3.Store(darr, dst.off + i, z3.Select(sarr, src.off + i))
                o.arr = darr; return
            if callee in s.mod.decls or callee not in s.mod.funcs:
                # hook (pure observer): record event
                ints = [z3.simplify(x) for x in av if not isinstance(x, (Ptr, FuncRef))]
                snap = s.hook_snapshot(mem) if s.hook_snapshot else None
                ev.append((callee, ints, snap)); return
            raise CannotEncode('call to defined function ' + callee)
        if op == 'ret':
            if a[0] is None: return ('ret', None)
            return ('ret', s.val(env, a[1], a[0]))
        if op == 'unreachable': return ('unreachable',)
        raise CannotEncode(ins.text)


class _Abort(Exception):
    pass
