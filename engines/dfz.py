"""dfz - data-free compiled machines: concrete stepping, z3 encoding of per-state step functions,
certificate (one-step simulation) verifier and bounded-model-checking unroller.

The machine is nm.Snap (structural copy of the real, optimised DFA of one real compilation).  Semantics of a step
(written from the meaning of the data structure, cf. DFState.__getitem__ / DFA.trace / `--dump dfa`):
  * dispatch of a symbol at a state takes the first listed transition naming the symbol, else the Else transition;
  * the transition's actions run in order (finish CODE terminates, hooks/yields are events);
  * a fall-through transition re-dispatches the same symbol at its target, any other transition consumes the symbol;
  * the generic fail state is FAIL; resting on an accepting state whose transitions are all error-handling is DONE;
  * eager normal form: after a consume, states whose only transition is a fall-through Else are passed through.
Only *data-free* machines are handled (no outputs, no condition points): anything else raises NotDataFree.

What z3 decides: the input.  `Machine.tree(s)` enumerates the paths of one dispatch from state s as conjunctions of
"byte b is / is not in on_values set" literals (fall-through chains followed structurally); `zcond` turns them into
z3 range constraints over one BitVec(8).  The certificate verifier asks, per related pair and per (machine path,
reference class) combination that is *not* compatible, whether a byte exists that takes both; the BMC unroller
builds both transition systems as ite-chains over symbolic bytes b0..bK-1 and a symbolic length.
"""
import time
import z3
from . import nm

End = nm.End
Else = nm.Else
N = nm.N


class NotDataFree(Exception):
    pass


class EncodingError(Exception):
    pass


# ---------------------------------------------------------------------------------------------------------------
# z3 helpers
# ---------------------------------------------------------------------------------------------------------------
def ranges(S):
    out = []
    lo = prev = None
    for v in sorted(S):
        if lo is None:
            lo = prev = v
        elif v == prev + 1:
            prev = v
        else:
            out.append((lo, prev))
            lo = prev = v
    if lo is not None:
        out.append((lo, prev))
    return out


def inset(b, S):
    """z3: byte b (BitVec 8) is a member of the concrete set S"""
    rs = ranges(S)
    if not rs:
        return z3.BoolVal(False)
    parts = []
    for lo, hi in rs:
        if lo == hi:
            parts.append(b == lo)
        elif lo == 0 and hi == 255:
            return z3.BoolVal(True)
        elif lo == 0:
            parts.append(z3.ULE(b, hi))
        elif hi == 255:
            parts.append(z3.UGE(b, lo))
        else:
            parts.append(z3.And(z3.UGE(b, lo), z3.ULE(b, hi)))
    return parts[0] if len(parts) == 1 else z3.Or(*parts)


def zcond(b, conds):
    """conds: list of (pos or None, [neg sets]) -> z3 Bool"""
    parts = []
    for pos, negs in conds:
        if pos is not None:
            parts.append(inset(b, pos))
        for n in negs:
            if n:
                parts.append(z3.Not(inset(b, n)))
    if not parts:
        return z3.BoolVal(True)
    return parts[0] if len(parts) == 1 else z3.And(*parts)


class Stats:
    def __init__(self):
        self.queries = 0
        self.time = 0.0
        self.obligations = 0
        self.discharged = 0
        self.unknown = []

    def check(self, solver, *assumptions):
        t = time.time()
        r = solver.check(*assumptions)
        self.time += time.time() - t
        self.queries += 1
        return r


def new_solver(timeout_ms=20000):
    s = z3.Solver()
    s.set('timeout', timeout_ms)
    s.set('random_seed', 0)
    return s


# ---------------------------------------------------------------------------------------------------------------
# the machine
# ---------------------------------------------------------------------------------------------------------------
def act_desc(a):
    if isinstance(a, N.CustomFinishAction):
        return ('FIN', a.result_code)
    if isinstance(a, N.FinishAction):
        return ('DONE', None)
    if isinstance(a, N.CustomYieldAction):
        return ('YIELD', a.result_code)
    if isinstance(a, N.CallHook):
        return ('HOOK', a.name)
    raise NotDataFree(type(a).__name__)


class Machine:
    LIMIT = 64

    def __init__(self, snap):
        self.m = snap
        self.idx = snap.index
        self.states = snap.states
        self.fail = snap.fail
        self.n = len(self.states)
        self.bytesets = {}
        for st in self.states:
            if isinstance(st, N.DFConditionPoint):
                raise NotDataFree('condition point')
            for t in snap.tr[st]:
                for a in t.actions:
                    act_desc(a)
                for v in t.on:
                    if isinstance(v, str) and ord(v) > 255:
                        raise NotDataFree('symbol above 0xff')
        self._tree = {}
        self._tab = {}

    def bs(self, t):
        r = self.bytesets.get(id(t))
        if r is None:
            r = frozenset(ord(v) for v in t.on if isinstance(v, str))
            self.bytesets[id(t)] = r
        return r

    def accepting(self, s):
        return self.states[s] in self.m.accept

    # -- concrete -------------------------------------------------------------------------------------------
    def select(self, st, sym):
        trs = self.m.tr.get(st)
        if trs is None:
            return None
        if sym is End:
            for t in trs:
                if End in t.on:
                    return t
        else:
            for t in trs:
                if sym in self.bs(t):
                    return t
        for t in trs:
            if Else in t.on:
                return t
        return None

    def _dummy(self, st):
        trs = self.m.tr.get(st)
        return trs is not None and len(trs) == 1 and trs[0].fall and Else in trs[0].on

    def rest(self, st, ev, log):
        """eager normalisation after a consume (or at start)"""
        for _ in range(self.LIMIT):
            if st is self.fail:
                return ('FAIL', None, True, tuple(ev))
            if st not in self.m.tr:
                return ('STUCK', None, True, tuple(ev))
            trs = self.m.tr[st]
            if st in self.m.accept and all(t.eh for t in trs):
                return ('DONE', None, True, tuple(ev))
            if self._dummy(st):
                t = trs[0]
                if log is not None:
                    log.append(('t', self.idx.get(t.target)))
                for a in t.actions:
                    d = act_desc(a)
                    if log is not None:
                        log.append(('a', d))
                    if d[0] in ('FIN', 'DONE'):
                        return (d[0], d[1], True, tuple(ev))
                    ev.append(d)
                st = t.target
                continue
            return ('OK', self.idx[st], True, tuple(ev))
        raise EncodingError('fall-through chain does not end (rest)')

    def start(self, log=None):
        return self.rest(self.m.start, [], log)

    def step(self, s, b, log=None):
        """dispatch byte b in resting state index s -> outcome (kind, arg, consumed, events)"""
        st = self.states[s]
        ev = []
        for _ in range(self.LIMIT):
            if st is self.fail:
                return ('FAIL', None, False, tuple(ev))
            t = self.select(st, b)
            if t is None:
                return ('DONE' if st in self.m.accept else 'STUCK', None, False, tuple(ev))
            if log is not None:
                log.append(('t', self.idx.get(t.target)))
            for a in t.actions:
                d = act_desc(a)
                if log is not None:
                    log.append(('a', d))
                if d[0] in ('FIN', 'DONE'):
                    return (d[0], d[1], not t.fall, tuple(ev))
                ev.append(d)
            st = t.target
            if not t.fall:
                return self.rest(st, ev, log)
        raise EncodingError('fall-through chain does not end (step)')

    def table(self, s):
        r = self._tab.get(s)
        if r is None:
            r = [self.step(s, b) for b in range(256)]
            self._tab[s] = r
        return r

    def step_end(self, s, log=None):
        """End dispatched in resting state s.  -> dict(kinds=[...], fin=code|None, events, verdict, as_data, reached_fail)"""
        st = self.states[s]
        kinds = []
        ev = []
        res = {'fin': None, 'as_data': False, 'reached_fail': False, 'consumed_by': None}
        for _ in range(self.LIMIT):
            if st is self.fail:
                res['reached_fail'] = True
                res['verdict'] = 'FAIL'
                break
            t = self.select(st, End)
            if t is None:
                res['verdict'] = 'DONE' if st in self.m.accept else 'INCOMPLETE'
                break
            lists_end = End in t.on
            only_end = lists_end and all(v is End for v in t.on)
            if t.eh:
                k = 'eh'
            elif only_end:
                k = 'end'
            elif t.fall and not lists_end:
                k = 'proxy'
            else:
                k = 'data'
            kinds.append(k)
            if log is not None:
                log.append(('t', self.idx.get(t.target)))
            if k == 'data':
                res['as_data'] = True
                res['consumed_by'] = sorted(self.bs(t))[:8] + (['Else'] if Else in t.on else []) + (['End'] if lists_end else [])
            stop = False
            for a in t.actions:
                d = act_desc(a)
                if log is not None:
                    log.append(('a', d))
                if d[0] in ('FIN', 'DONE'):
                    res['fin'] = d
                    res['verdict'] = 'FIN'
                    stop = True
                    break
                ev.append(d)
            if stop:
                break
            st = t.target
            if not t.fall:
                res['verdict'] = 'FAIL' if st is self.fail else ('DONE' if st in self.m.accept else 'INCOMPLETE')
                res['reached_fail'] = st is self.fail
                break
        else:
            raise EncodingError('fall-through chain does not end (end)')
        res['kinds'] = kinds
        res['events'] = tuple(ev)
        return res

    # -- symbolic ---------------------------------------------------------------------------------------------
    def tree(self, s):
        """paths of one byte dispatch from state s: list of (conds, outcome); conds = [(pos|None, [negs])]"""
        r = self._tree.get(s)
        if r is not None:
            return r
        paths = []

        def leaf(conds, out):
            paths.append((conds, out))

        def follow(t, conds, ev, depth):
            ev = list(ev)
            for a in t.actions:
                d = act_desc(a)
                if d[0] in ('FIN', 'DONE'):
                    leaf(conds, (d[0], d[1], not t.fall, tuple(ev)))
                    return
                ev.append(d)
            if t.fall:
                rec(t.target, conds, ev, depth + 1)
            else:
                leaf(conds, self.rest(t.target, ev, None))

        def rec(st, conds, ev, depth):
            if depth > self.n + 2:
                raise EncodingError('unwinding assertion: more than N+2 non-consuming moves for one symbol')
            if st is self.fail:
                leaf(conds, ('FAIL', None, False, tuple(ev)))
                return
            trs = self.m.tr.get(st)
            if trs is None:
                leaf(conds, ('STUCK', None, False, tuple(ev)))
                return
            seen = []
            for t in trs:
                S = self.bs(t)
                if S:
                    follow(t, conds + [(S, list(seen))], ev, depth)
                    seen.append(S)
            et = None
            for t in trs:
                if Else in t.on:
                    et = t
                    break
            c = conds + [(None, list(seen))]
            if et is not None:
                follow(et, c, ev, depth)
            else:
                leaf(c, ('DONE' if st in self.m.accept else 'STUCK', None, False, tuple(ev)))
        rec(self.states[s], [], [], 0)
        self._tree[s] = paths
        return paths


def conds_hold(conds, b):
    for pos, negs in conds:
        if pos is not None and b not in pos:
            return False
        for n in negs:
            if b in n:
                return False
    return True


# ---------------------------------------------------------------------------------------------------------------
# replay against the implementation's own walker
# ---------------------------------------------------------------------------------------------------------------
def run_machine(mach, syms):
    """concrete run of our stepper; syms: ints, optionally a final 'End'.  -> (outcomes list, log, consumed)"""
    log = []
    o = mach.start(log)
    outs = [o]
    consumed = 0
    for x in syms:
        if o[0] != 'OK':
            break
        if x == 'End':
            e = mach.step_end(o[1], log)
            outs.append(('END', e))
            break
        o = mach.step(o[1], x, log)
        if o[2]:
            consumed += 1
        outs.append(o)
    return outs, log, consumed


def impl_log(comp, syms):
    """nmfu's own DFA.trace on the compiled machine -> log in the same vocabulary"""
    chars = [End if x == 'End' else chr(x) for x in syms]
    idx = {s: i for i, s in enumerate(comp.dfa.states)}
    log = []
    first = True
    it = comp.dfa.trace(chars)
    while True:
        try:
            ch, pos, act = next(it)
        except StopIteration:
            break
        except Exception as e:  # e.g. NotImplementedError on condition points: nmfu's walker cannot pass them
            log.append(('x', 'DFA.trace raised ' + type(e).__name__))
            break
        if first:
            first = False
            continue
        if act is None:
            if isinstance(pos, N.Action):
                continue  # (char, action, None) marks termination by a finish action
            log.append(('t', idx.get(pos) if pos is not None else None))
        else:
            try:
                log.append(('a', act_desc(act)))
            except NotDataFree:
                log.append(('a', ('?', type(act).__name__)))
    return log


def fmt_log(log):
    return [[x[0], list(x[1]) if isinstance(x[1], tuple) else x[1]] for x in log]


def validate_against_impl(mach, comp, syms):
    """our stepper and nmfu's trace must walk the same transitions and actions (prefix-compatible: ours stops at
    FAIL/DONE/finish, and flushes input-independent transitions one symbol early).  -> (ok, detail)"""
    outs, mine, _ = run_machine(mach, syms)
    theirs = impl_log(comp, syms)
    n = min(len(mine), len(theirs))
    # nmfu's trace keeps walking after our terminal verdicts and stops on None targets; compare the common prefix,
    # and require that one is a prefix of the other
    if mine[:n] != theirs[:n]:
        return False, {'ours': mine, 'nmfu_trace': theirs}
    return True, None


# ---------------------------------------------------------------------------------------------------------------
# certificate: untrusted search + solver verification
# ---------------------------------------------------------------------------------------------------------------
def compat(mo, ro, R):
    if ro[0] == 'ANY':
        return True
    if mo[0] != ro[0]:
        return False
    if tuple(mo[3]) != tuple(ro[3]):
        return False
    if mo[0] == 'OK':
        return (mo[1], ro[1]) in R
    return mo[1] == ro[1] and mo[2] == ro[2]


def compat_any(mo, allowed, R):
    return any(compat(mo, ro, R) for ro in allowed)


def search_relation(mach, ref, max_pairs=20000):
    """UNTRUSTED product search.  -> dict(R, path, start_ok, fail)  (fail: first concrete mismatch found, with input)"""
    R = set()
    path = {}
    res = {'R': R, 'path': path, 'fail': None, 'start': None}
    mo, ro = mach.start(), ref.start()
    res['start'] = (mo, ro)
    if mo[0] != 'OK' or ro[0] != 'OK':
        same = (mo[0] == ro[0] and mo[1] == ro[1])
        if not same:
            res['fail'] = {'input': [], 'machine': mo, 'reference': [ro], 'at': 'start'}
        return res
    p0 = (mo[1], ro[1])
    R.add(p0)
    path[p0] = ()
    queue = [p0]
    while queue:
        nq = []
        for (s, cfg) in queue:
            tab = mach.table(s)
            for cl, allowed in ref.classes(cfg):
                seen = set()
                for b in sorted(cl):
                    m = tab[b]
                    if m in seen:
                        continue
                    seen.add(m)
                    hit = None
                    for ro in allowed:
                        if ro[0] == 'ANY':
                            hit = ro
                            break
                        if m[0] != ro[0] or tuple(m[3]) != tuple(ro[3]):
                            continue
                        if m[0] == 'OK' or (m[1] == ro[1] and m[2] == ro[2]):
                            hit = ro
                            break
                    if hit is not None and hit is not allowed[0]:
                        res['alt_used'] = res.get('alt_used', 0) + 1
                    if hit is None:
                        if res['fail'] is None:
                            res['fail'] = {'input': list(path[(s, cfg)]) + [b], 'machine': m, 'reference': allowed, 'at': (s, ref.describe(cfg))}
                        continue
                    if m[0] == 'OK' and hit[0] == 'OK':
                        p = (m[1], hit[1])
                        if p not in R:
                            if len(R) >= max_pairs:
                                raise EncodingError('relation too large')
                            R.add(p)
                            path[p] = path[(s, cfg)] + (b,)
                            nq.append(p)
        queue = nq
    return res


def verify_certificate(mach, ref, R, stats, solver=None, compare_accept=False):
    """Solver verification of the candidate relation R: for every pair and EVERY byte, one step of both sides gives
    compatible observables and successors again in R.  Also discharges, per machine state and per reference
    configuration, that the path conditions / byte classes are exhaustive and pairwise exclusive (the encoding is a
    function).  -> list of failures [{'pair', 'byte', ...}]  (a failure is NOT a violation)."""
    s = solver or new_solver()
    b = z3.BitVec('b', 8)
    fails = []
    mcache, rcache = {}, {}

    def mtree(st):
        r = mcache.get(st)
        if r is None:
            r = [(zcond(b, conds), out) for conds, out in mach.tree(st)]
            # encoding self-check: the symbolic path conditions denote exactly the bytes on which the concrete stepper
            # produces that outcome via that path (tree() and step() are two separate implementations)
            tab = mach.table(st)
            for (conds, out), (zc, _) in zip(mach.tree(st), r):
                S = frozenset(x for x in range(256) if conds_hold(conds, x))
                if any(tab[x] != out for x in S):
                    raise EncodingError('step tree and concrete stepper disagree at s%d' % st)
                stats.obligations += 1
                res = stats.check(s, z3.Xor(zc, inset(b, S)))
                if res == z3.unsat:
                    stats.discharged += 1
                else:
                    raise EncodingError('z3 path condition does not denote the concrete byte set at s%d (%s)' % (st, res))
            # the paths of one state partition the byte alphabet
            stats.obligations += 1
            res = stats.check(s, z3.Not(z3.Or(*[c for c, _ in r])))
            if res == z3.unsat:
                stats.discharged += 1
            else:
                stats.unknown.append('machine paths not exhaustive at s%d (%s)' % (st, res))
            mcache[st] = r
        return r

    def rtree(cfg):
        r = rcache.get(cfg)
        if r is None:
            r = [(inset(b, cl), allowed) for cl, allowed in ref.classes(cfg)]
            stats.obligations += 1
            res = stats.check(s, z3.Not(z3.Or(*[c for c, _ in r])))
            if res == z3.unsat:
                stats.discharged += 1
            else:
                stats.unknown.append('reference classes not exhaustive (%s)' % res)
            rcache[cfg] = r
        return r
    for (st, cfg) in sorted(R, key=lambda p: (p[0], repr(p[1][:2]))):
        if compare_accept:
            stats.obligations += 1
            if mach.accepting(st) == ref.accepting(cfg):
                stats.discharged += 1
            else:
                fails.append({'pair': (st, cfg), 'byte': None, 'why': 'accepting status differs',
                              'machine_accepting': mach.accepting(st), 'reference_accepting': ref.accepting(cfg)})
        bad = []
        for mc, mo in mtree(st):
            for rc, allowed in rtree(cfg):
                if not compat_any(mo, allowed, R):
                    bad.append(z3.And(mc, rc))
        stats.obligations += 1
        if not bad:
            # every combination is compatible: still a solver obligation would be trivially unsat; count as discharged
            # only after confirming that both encodings are total (done in mtree/rtree)
            stats.discharged += 1
            continue
        res = stats.check(s, z3.Or(*bad))
        if res == z3.unsat:
            stats.discharged += 1
        elif res == z3.sat:
            fails.append({'pair': (st, cfg), 'byte': s.model().eval(b, model_completion=True).as_long(), 'why': 'step differs'})
        else:
            stats.unknown.append('certificate step s%d: %s' % (st, res))
    return fails


# ---------------------------------------------------------------------------------------------------------------
# transition systems for BMC
# ---------------------------------------------------------------------------------------------------------------
class LTS:
    """explicit control, symbolic input.  locs: list of keys; step[i]: list of (cond builder b->z3 Bool, j) (a partition);
    terminals have no step entry and are absorbing; label[i]: hashable observation."""

    def __init__(self):
        self.locs = []
        self.index = {}
        self.step = {}
        self.label = []
        self.start = None

    def loc(self, key, label):
        i = self.index.get(key)
        if i is None:
            i = len(self.locs)
            self.index[key] = i
            self.locs.append(key)
            self.label.append(label)
        return i


def machine_lts(mach, compare_accept=False):
    """L.end[i]: result of dispatching End in resting state i (judged against the reference's expectation in bmc)"""
    L = LTS()
    L.end = {}

    def of(o):
        if o[0] == 'OK':
            if o[3]:
                raise EncodingError('events on a continuing step are not supported by the BMC labels')
            return L.loc(('S', o[1]), ('RUN', mach.accepting(o[1]) if compare_accept else None))
        return L.loc(('T', o), ('T', o))
    L.start = of(mach.start())
    todo = [k[1] for k in L.locs if k[0] == 'S']
    done = set()
    while todo:
        s = todo.pop()
        if s in done:
            continue
        done.add(s)
        i = L.index[('S', s)]
        L.end[i] = mach.step_end(s)
        row = []
        for conds, out in mach.tree(s):
            j = of(out)
            row.append(((lambda b, c=conds: zcond(b, c)), j))
            if out[0] == 'OK' and out[1] not in done:
                todo.append(out[1])
        L.step[i] = row
    return L


def ref_lts(ref, compare_accept=False, max_locs=3000):
    """locations: (configuration, set of terminal alternatives the reference also allows on entering it) | terminal sets | ANY"""
    L = LTS()
    L.end_exp = {}

    def of(allowed):
        if any(o[0] == 'ANY' for o in allowed):
            return L.loc(('ANY',), 'ANY')
        oks = [o for o in allowed if o[0] == 'OK']
        terms = frozenset(o for o in allowed if o[0] != 'OK')
        if oks:
            if len(oks) != 1 or oks[0][3]:
                raise EncodingError('reference step has two continuing alternatives')
            cfg = oks[0][1]
            return L.loc(('S', cfg, terms), ('RUN', ref.accepting(cfg) if compare_accept else None, terms))
        return L.loc(('TS', terms), ('TS', terms))
    L.start = of([ref.start()])
    todo = [k for k in L.locs if k[0] == 'S']
    done = set()
    rows = {}
    while todo:
        key = todo.pop()
        if key in done:
            continue
        done.add(key)
        cfg = key[1]
        i = L.index[key]
        L.end_exp[i] = ref.end_expect(cfg)
        row = []
        for cl, allowed in ref.classes(cfg):
            j = of(allowed)
            row.append(((lambda b, c=cl: inset(b, c)), j))
            k = L.locs[j]
            if k[0] == 'S' and k not in done:
                todo.append(k)
        if len(L.locs) > max_locs:
            raise EncodingError('reference automaton too large for BMC')
        L.step[i] = row
    return L


def label_compat(lm, lr):
    if lr == 'ANY':
        return True
    if lm[0] == 'RUN':
        return lr[0] == 'RUN' and lm[1] == lr[1]
    o = lm[1]
    alts = lr[2] if lr[0] == 'RUN' else lr[1]
    return any(o[0] == r[0] and o[1] == r[1] and o[2] == r[2] and tuple(o[3]) == tuple(r[3]) for r in alts)


def unroll(L, bs, solver, name):
    """-> list of BitVec(16) location terms l_0..l_K constrained in `solver`"""
    W = 16
    locs = [z3.BitVecVal(L.start, W)]
    for t, b in enumerate(bs):
        cur = locs[-1]
        nxt = cur
        for i, row in L.step.items():
            e = None
            for cond, j in reversed(row):
                jv = z3.BitVecVal(j, W)
                e = jv if e is None else z3.If(cond(b), jv, e)
            nxt = z3.If(cur == i, e, nxt)
        v = z3.BitVec('%s_%d' % (name, t + 1), W)
        solver.add(v == nxt)
        locs.append(v)
    return locs


def _minimise(solver, stats, bs, n, nvar):
    """shortest length first, then lexicographically smallest bytes (stable witnesses)"""
    solver.push()
    solver.add(nvar == n)
    fixed = []
    for i in range(n):
        val = 0
        for bit in range(7, -1, -1):
            mask = 0xff & ~((1 << bit) - 1)  # bits above and including `bit`
            want = val  # try with this bit = 0
            solver.push()
            solver.add((bs[i] & mask) == want)
            r = stats.check(solver)
            solver.pop()
            if r != z3.sat:
                val |= (1 << bit)
        solver.add(bs[i] == val)
        fixed.append(val)
    r = stats.check(solver)
    solver.pop()
    return fixed if r == z3.sat else None


def bmc(LM, LR, K, stats, name='bmc', end_policy=None, timeout_ms=60000):
    """Bounded run from the start: symbolic bytes b0..bK-1 and symbolic length n<=K.  Query: some position t<=n
    has incompatible observations (or End at position n misbehaves).
    -> ('unsat', None) | ('sat', {'input': [...], 'end': bool}) | ('unknown', reason)"""
    s = new_solver(timeout_ms)
    bs = [z3.BitVec('b%d' % i, 8) for i in range(K)]
    n = z3.BitVec('n', 8)
    s.add(z3.ULE(n, K))
    lm = unroll(LM, bs, s, 'm')
    lr = unroll(LR, bs, s, 'r')
    # incompatible label pairs, decided concretely on the (finite) label vocabulary
    badpairs = [(i, j) for i in range(len(LM.locs)) for j in range(len(LR.locs)) if not label_compat(LM.label[i], LR.label[j])]
    bym = {}
    for i, j in badpairs:
        bym.setdefault(i, []).append(j)
    mterm = [i for i, k in enumerate(LM.locs) if k[0] == 'T']
    endbad_flag = z3.Bool('endbad')
    endpairs = {}
    if end_policy is not None:
        for i, e in LM.end.items():
            for j, exp in LR.end_exp.items():
                if end_policy(e, exp) is not None:
                    endpairs.setdefault(i, []).append(j)
    disj = []
    for t in range(K + 1):
        parts = []
        for i, js in bym.items():
            parts.append(z3.And(lm[t] == i, z3.Or(*[lr[t] == j for j in js])))
        here = z3.Or(*parts) if parts else z3.BoolVal(False)
        if t > 0 and mterm:
            # a terminal verdict is compared at the step that produces it; afterwards the machine has stopped
            here = z3.And(here, z3.And(*[lm[t - 1] != i for i in mterm]))
        disj.append(z3.And(z3.ULE(t, n), here))
        if endpairs:
            # End after exactly n bytes: judged only where both sides still run (the reference expectation is per configuration)
            g = z3.And(n == t, z3.Or(*[z3.And(lm[t] == i, z3.Or(*[lr[t] == j for j in js])) for i, js in endpairs.items()]))
            disj.append(z3.And(g, endbad_flag))
    s.add(z3.Or(*disj))
    stats.obligations += 1
    r = stats.check(s)
    if r == z3.unsat:
        stats.discharged += 1
        return 'unsat', None
    if r != z3.sat:
        stats.unknown.append('%s K=%d: %s' % (name, K, s.reason_unknown()))
        return 'unknown', s.reason_unknown()
    # shortest witness
    best = None
    for k in range(K + 1):
        s.push()
        s.add(n == k)
        rr = stats.check(s)
        s.pop()
        if rr == z3.sat:
            best = k
            break
    if best is None:
        best = s.model().eval(n, model_completion=True).as_long()
    # prefer a byte-level difference over an End difference when both exist at that length
    s.push()
    s.add(z3.Not(endbad_flag))
    s.add(n == best)
    noend = stats.check(s) == z3.sat
    if not noend:
        s.pop()
        s.push()
        s.add(endbad_flag)
    inp = _minimise(s, stats, bs, best, n)
    s.pop()
    if inp is None:
        return 'unknown', 'witness minimisation failed'
    return 'sat', {'input': inp, 'end': not noend}


def reach(LM, K, stats, target, name='reach', timeout_ms=60000):
    """reachability on one LTS: is there an input of length <= K after which the location satisfies target(key,label)?
    -> ('unsat', None) | ('sat', input) | ('unknown', reason)"""
    s = new_solver(timeout_ms)
    bs = [z3.BitVec('b%d' % i, 8) for i in range(K)]
    n = z3.BitVec('n', 8)
    s.add(z3.ULE(n, K))
    lm = unroll(LM, bs, s, 'm')
    tg = [i for i, k in enumerate(LM.locs) if target(k, LM.label[i])]
    stats.obligations += 1
    if not tg:
        # no such location exists in the explored transition system at all
        stats.discharged += 1
        return 'unsat', None
    s.add(z3.Or(*[z3.And(z3.ULE(t, n), z3.Or(*[lm[t] == i for i in tg])) for t in range(K + 1)]))
    r = stats.check(s)
    if r == z3.unsat:
        stats.discharged += 1
        return 'unsat', None
    if r != z3.sat:
        stats.unknown.append('%s: %s' % (name, s.reason_unknown()))
        return 'unknown', s.reason_unknown()
    best = None
    for k in range(K + 1):
        s.push()
        s.add(n == k)
        rr = stats.check(s)
        s.pop()
        if rr == z3.sat:
            best = k
            break
    inp = _minimise(s, stats, bs, best, n)
    return 'sat', inp


# ---------------------------------------------------------------------------------------------------------------
# concrete replay of a witness on both sides
# ---------------------------------------------------------------------------------------------------------------
def run_reference(ref, syms):
    """-> list of allowed-outcome lists per position (position 0 = start)"""
    o = ref.start()
    outs = [[o]]
    for x in syms:
        if o[0] != 'OK' or x == 'End':
            break
        allowed = ref.step(o[1], x)
        outs.append(allowed)
        oks = [a for a in allowed if a[0] == 'OK']
        if any(a[0] == 'ANY' for a in allowed) or not oks:
            break
        o = oks[0]
    return outs


def replay_difference(mach, ref, syms, compare_accept=False, end_policy=None):
    """walk both sides concretely; -> None if they agree on this input, else a description of the first difference"""
    mouts, log, consumed = run_machine(mach, syms)
    routs = run_reference(ref, [x for x in syms if x != 'End'])
    for t in range(len(mouts)):
        mo = mouts[t]
        if mo[0] == 'END':
            prev = mouts[t - 1]
            if end_policy is not None and prev[0] == 'OK':
                if t - 1 >= len(routs) or any(a[0] == 'ANY' for a in routs[t - 1]):
                    return None
                oks = [a for a in routs[t - 1] if a[0] == 'OK']
                if not oks:
                    return None
                why = end_policy(mo[1], ref.end_expect(oks[0][1]))
                if why:
                    return {'position': t - 1, 'symbol': 'End', 'machine_end': _js(mo[1]), 'why': why}
            return None
        if t >= len(routs):
            return {'position': t, 'why': 'reference stopped earlier', 'machine': _js(mo)}
        allowed = routs[t]
        if any(a[0] == 'ANY' for a in allowed):
            return None
        ok = False
        for ro in allowed:
            if mo[0] != ro[0] or tuple(mo[3]) != tuple(ro[3]):
                continue
            if mo[0] == 'OK':
                if compare_accept and mach.accepting(mo[1]) != ref.accepting(ro[1]):
                    continue
                ok = True
            elif mo[1] == ro[1] and mo[2] == ro[2]:
                ok = True
            if ok:
                break
        if not ok:
            return {'position': t, 'symbol': (syms[t - 1] if t > 0 else None), 'machine': _js(mo),
                    'machine_accepting': mach.accepting(mo[1]) if mo[0] == 'OK' else None,
                    'reference_allows': [_js(a) for a in allowed],
                    'reference_accepting': [ref.accepting(a[1]) for a in allowed if a[0] == 'OK'] if compare_accept else None,
                    'why': 'observable differs'}
    return None


def _js(o):
    if isinstance(o, dict):
        return {k: _js(v) for k, v in o.items()}
    if isinstance(o, (list, tuple)):
        if len(o) == 4 and o and o[0] == 'OK' and not isinstance(o[1], int):
            return ['OK', '<cfg %s@%s>' % (o[1][0], o[1][1]), o[2], list(o[3])]
        return [_js(x) for x in o]
    if isinstance(o, (frozenset, set)):
        return sorted(_js(x) for x in o)
    return o


def hexs(bs):
    return ' '.join('%02x' % b if isinstance(b, int) else str(b) for b in bs)


# ---------------------------------------------------------------------------------------------------------------
# one program, end to end: compile (real compiler), reference, certificate, BMC, replay
# ---------------------------------------------------------------------------------------------------------------
def end_policy_nodata(e, expect):
    """End must never be consumed by a data transition (a byte class, wildcard or inverted set, or a plain Else)"""
    if e['as_data']:
        return 'End is consumed by a non-error transition that does not name End alone (on=%s)' % (e['consumed_by'],)
    return None


def end_policy_wait(e, expect):
    """C16: additionally, End arriving inside a wait runs no marker / handler action, does not enter FAIL, and the parse is incomplete"""
    w = end_policy_nodata(e, expect)
    if w or expect != 'wait':
        return w
    if e['fin'] is not None:
        return 'End inside a wait runs %s' % (e['fin'],)
    if e['events']:
        return 'End inside a wait runs %s' % (e['events'],)
    if e['reached_fail']:
        return 'End inside a wait enters the FAIL state'
    if e['verdict'] != 'INCOMPLETE':
        return 'End inside a wait gives %s instead of an incomplete parse' % e['verdict']
    return None


def analyse(src, flags=(), slack=True, compare_accept=False, end_policy=end_policy_nodata, K=8, do_bmc=True, nvalidate=24,
            obligation='step', extra=None, post=None):
    """-> result dict (plain data).  'violations' are replayed (our stepper == nmfu's DFA.trace on the witness, and the
    reference disagrees); everything undecided goes to 'inconclusive' / 'harness'."""
    from . import refre
    res = {'src': src, 'flags': list(flags), 'verdict': None, 'violations': [], 'inconclusive': [], 'harness': [],
           'pairs': 0, 'steps': 0, 'mstates': 0, 'rstates': 0, 'bmc': 'skipped', 'validated': 0, 'queries': 0, 'solver_time': 0.0,
           'obligations': 0, 'discharged': 0, 'cert': None, 'any_states': 0}
    comp = nm.compile_src(src, flags, want_c=False, timeout=30)
    res['compile'] = comp.verdict
    if comp.verdict != 'ok':
        res['verdict'] = {'error': 'rejected', 'crash': 'crash', 'timeout': 'timeout'}[comp.verdict]
        res['error'] = comp.error
        return res
    try:
        ref, builder = refre.prog_from_tree(comp.tree, slack=slack)
        mach = Machine(comp.post)
    except (refre.Unsupported, NotDataFree) as e:
        res['verdict'] = 'unsupported'
        res['error'] = (type(e).__name__, str(e))
        return res
    st = Stats()
    try:
        _analyse(res, comp, ref, mach, st, compare_accept, end_policy, K, do_bmc, nvalidate, obligation, extra)
        if post is not None:
            post(res, comp, ref, mach, st)
    except (EncodingError, refre.Unsupported, NotDataFree) as e:
        res['verdict'] = 'unsupported'
        res['error'] = (type(e).__name__, str(e))
    res['queries'] = st.queries
    res['solver_time'] = st.time
    res['obligations'] = st.obligations
    res['discharged'] = st.discharged
    for u in st.unknown:
        res['inconclusive'].append(u)
    if res['verdict'] is None:
        res['verdict'] = 'violation' if res['violations'] else ('inconclusive' if (res['inconclusive'] or res['harness']) else 'verified')
    return res


def _witness(res, comp, mach, ref, syms, diff, extra_fields=None):
    w = {'src': res['src'], 'flags': res['flags'], 'input': list(syms), 'input_hex': hexs(syms), 'n': len([x for x in syms if x != 'End']),
         'ends_with_End': bool(syms) and syms[-1] == 'End', 'difference': diff}
    outs, log, consumed = run_machine(mach, syms)
    w['machine_outcomes'] = [_js(o) for o in outs]
    w['machine_consumed'] = consumed
    w['nmfu_trace'] = fmt_log(impl_log(comp, syms))
    if extra_fields:
        w.update(extra_fields)
    return w


def _analyse(res, comp, ref, mach, st, compare_accept, end_policy, K, do_bmc, nvalidate, obligation, extra):
    sr = search_relation(mach, ref)
    R = sr['R']
    res['pairs'] = len(R)
    res['mstates'] = len({p[0] for p in R})
    res['rstates'] = len({p[1] for p in R})
    res['any_states'] = sum(1 for p in R if any(o[0] == 'ANY' for _, al in ref.classes(p[1]) for o in al))
    res['alt_used'] = sr.get('alt_used', 0)
    candidates = []
    if sr['fail'] is not None:
        candidates.append(('search', sr['fail']['input']))
    # --- start states related
    mo, ro = sr['start']
    st.obligations += 1
    if mo[0] == ro[0] and (mo[0] == 'OK' or mo[1] == ro[1]):
        st.discharged += 1
    else:
        candidates.append(('start', []))
    # --- solver verification of every step
    fails = verify_certificate(mach, ref, R, st, compare_accept=compare_accept)
    res['steps'] = sum(len(mach.tree(s)) * len(ref.classes(c)) for s, c in R)
    for f in fails:
        p = sr['path'].get(f['pair'], ())
        candidates.append(('certificate', list(p) + ([f['byte']] if f['byte'] is not None else [])))
    # --- End, separately (one concrete symbol): per related pair
    for (s, cfg) in R:
        if end_policy is None:
            break
        st.obligations += 1
        if any(o[0] == 'ANY' for _, al in ref.classes(cfg) for o in al):
            st.discharged += 1
            continue
        why = end_policy(mach.step_end(s), ref.end_expect(cfg))
        if why is None:
            st.discharged += 1
        else:
            candidates.append(('end', list(sr['path'][(s, cfg)]) + ['End']))
    res['cert'] = 'verified' if not candidates else 'failed'
    # --- bounded run from the start (independent verdict, and the only source of violations)
    need = bool(candidates)
    kk = K
    if need:
        longest = max(len([x for x in c[1] if x != 'End']) for c in candidates)
        kk = max(K, min(longest, 14))
    if do_bmc or need:
        LM = machine_lts(mach, compare_accept)
        LR = ref_lts(ref, compare_accept)
        res['bmc_locs'] = [len(LM.locs), len(LR.locs)]
        r, model = bmc(LM, LR, kk, st, name='bmc:' + res['src'][:60], end_policy=end_policy)
        res['bmc'] = r
        res['bmc_K'] = kk
        if r == 'sat':
            syms = list(model['input']) + (['End'] if model['end'] else [])
            _report(res, comp, mach, ref, syms, compare_accept, end_policy, obligation, extra, 'bmc')
        elif r == 'unsat':
            if need and all(len([x for x in c[1] if x != 'End']) <= kk for c in candidates):
                res['harness'].append('certificate failed (%s) but the bounded run to K=%d found no difference' % (candidates[0][0], kk))
            elif need:
                res['inconclusive'].append('certificate step failed beyond the BMC bound')
        # 'unknown' already recorded in st.unknown
    # --- validation of our stepper against nmfu's own walker
    paths = sorted(sr['path'].values(), key=lambda p: (len(p), p))[:nvalidate]
    for p in paths:
        for syms in (list(p), list(p) + ['End']):
            ok, detail = validate_against_impl(mach, comp, syms)
            if ok:
                res['validated'] += 1
            else:
                res['harness'].append('stepper differs from nmfu DFA.trace on %s: %s' % (hexs(syms), str(detail)[:300]))


def _report(res, comp, mach, ref, syms, compare_accept, end_policy, obligation, extra, source):
    diff = replay_difference(mach, ref, syms, compare_accept, end_policy)
    ok, detail = validate_against_impl(mach, comp, syms)
    if diff is None:
        res['harness'].append('solver model %s does not reproduce concretely' % hexs(syms))
        return
    if not ok:
        res['harness'].append('witness %s: our stepper and nmfu DFA.trace disagree: %s' % (hexs(syms), str(detail)[:300]))
        return
    w = _witness(res, comp, mach, ref, syms, diff, extra)
    w['found_by'] = source
    kind = 'end' if diff.get('symbol') == 'End' else obligation
    res['violations'].append({'obligation': kind, 'witness': w, 'what': diff.get('why', 'observable differs') + ' at position %s' % diff.get('position')})


# ---------------------------------------------------------------------------------------------------------------
# helpers shared by the checks: process pool, merging a result into chk.Run
# ---------------------------------------------------------------------------------------------------------------
def _guard(arg):
    fn, item = arg
    try:
        return fn(item)
    except Exception as e:
        import traceback
        return {'verdict': 'harness', 'src': str(item)[:300], 'kind': 'harness', 'harness': ['worker exception %s: %s | %s' % (type(e).__name__, e, traceback.format_exc()[-600:])],
                'inconclusive': [], 'violations': [], 'obligations': 0, 'discharged': 0, 'queries': 0, 'solver_time': 0.0, 'pairs': 0, 'steps': 0, 'validated': 0,
                'mstates': 0, 'rstates': 0, 'cert': None, 'bmc': 'skipped', 'nq': 0, 'sat': 0, 'replayed': 0, 'states': 0, 'transitions': 0,
                'expr': str(item)[:80], 'form': '?', 'tag': 'harness', 'greedy': False, 'pat': str(item)[:80], 'info': {}}


def pool_map(fn, items, chunksize=4):
    """fork pool over chk.ncpu() workers; yields results as they finish (order not preserved).  A worker exception
    becomes a result with verdict 'harness' (reported as a harness error by the check), never a lost item."""
    import multiprocessing as mp
    from . import chk
    n = max(1, min(chk.ncpu(), len(items)))
    args = [(fn, it) for it in items]
    if n == 1 or len(items) < 4:
        for a in args:
            yield _guard(a)
        return
    from . import nm as _nm
    _nm.tmpdir()   # created before the fork: workers' scratch files live under it and the parent removes it at exit
    ctx = mp.get_context('fork')
    with ctx.Pool(n) as pool:
        for r in pool.imap_unordered(_guard, args, chunksize=chunksize):
            yield r


def absorb(run, r, key, label, obligation_prefix, counters):
    """merge one analyse() result into the run; returns the verdict string"""
    d = {'obligations': r['obligations'], 'discharged': r['discharged'], 'queries': r['queries'], 'solver_time': r['solver_time'],
         'nontrivial': [key] if r['queries'] else [], 'inconclusive': [], 'harness_errors': [], 'cov': {}}
    v = r['verdict']
    counters[v] = counters.get(v, 0) + 1
    cov = d['cov']
    cov['states'] = r['pairs']
    cov['transitions'] = r['steps']
    cov['traces_validated_against_impl'] = r['validated']
    if v in ('verified', 'violation', 'inconclusive'):
        cov['machine_states'] = r['mstates']
        cov['reference_states'] = r['rstates']
        if r['cert'] == 'verified':
            cov['certificates_verified'] = 1
        else:
            cov['certificates_failed'] = 1
        if r['bmc'] != 'skipped':
            cov['bmc_runs'] = 1
            cov['bmc_' + r['bmc']] = 1
        if r.get('any_states'):
            cov['reference_states_not_judged_ambiguous'] = r['any_states']
        if r.get('alt_used'):
            cov['steps_matching_a_slack_alternative'] = r['alt_used']
            cov['programs_using_a_slack_alternative'] = 1
    if v == 'crash':
        cov['compiler_crashes'] = [{'src': r['src'], 'error': r.get('error')}]
    if v == 'timeout':
        cov['compiler_timeouts'] = [r['src']]
    if v == 'unsupported':
        cov['unsupported'] = [{'src': r['src'][:200], 'why': r.get('error')}]
        d['inconclusive'].append('%s: accepted program outside the oracle/encoding subset: %s' % (label, r.get('error')))
        d['obligations'] += 1
    for i in r['inconclusive']:
        d['inconclusive'].append('%s: %s' % (label, i))
    # obligations that were generated but neither discharged nor reported are inconclusive
    for h in r['harness']:
        d['harness_errors'].append('%s: %s' % (label, h))
    run.merge_stats(d)
    for viol in r['violations']:
        run.violation(obligation_prefix + viol['obligation'], viol['witness'], viol['what'])
    return v


# ---------------------------------------------------------------------------------------------------------------
def selftest():
    """positive: a regex machine is certified and BMC-clean; negative: the machine of /ab?/ against the reference of
    /ab/ must fail the certificate, give a BMC model, and the model must replay."""
    from . import refre
    ok = True
    refre.reset()
    r = analyse('parser { /a[^ab]*b?/; }', (), slack=False, compare_accept=True)
    ok = ok and r['verdict'] == 'verified' and r['bmc'] == 'unsat' and r['validated'] > 0
    comp = nm.compile_src('parser { /ab?/; }', (), want_c=False)
    other = nm.compile_src('parser { /ab/; }', (), want_c=False)
    ref, _ = refre.prog_from_tree(other.tree, slack=False)
    mach = Machine(comp.post)
    st = Stats()
    sr = search_relation(mach, ref)
    fails = verify_certificate(mach, ref, sr['R'], st, compare_accept=True)
    res, model = bmc(machine_lts(mach, True), ref_lts(ref, True), 4, st)
    ok = ok and bool(sr['fail'] is not None or fails) and res == 'sat' and replay_difference(mach, ref, model['input'], True) is not None
    ok = ok and validate_against_impl(mach, comp, model['input'])[0]
    return bool(ok)
