import sys
sys.path.insert(0, '/repo')
import nmfu
from typing import List, FrozenSet

_pctx = nmfu.ParseCtx(None)
_cg = nmfu.CodegenCtx.__new__(nmfu.CodegenCtx)

def _c_unescape(s: str) -> bytes:
    # independent decoder of the C string-literal subset _escape_string may emit
    out = bytearray(); i = 0
    while i < len(s):
        if s[i] == chr(92):
            if s[i+1] == 'x':
                out.append(int(s[i+2:i+4], 16)); i += 4
            else:
                out.append(ord(s[i+1])); i += 2
        else:
            out.append(ord(s[i])); i += 1
    return bytes(out)

def escape_roundtrip(b: List[int]) -> bool:
    """
    pre: len(b) <= 3 and all(0 <= x <= 255 for x in b)
    post: _
    """
    s = "".join(chr(x) for x in b)
    return _c_unescape(_cg._escape_string(s)) == bytes(b)

def char_const_nul(dummy: int) -> int:
    """
    post: _ == 0
    """
    return ord(_pctx._convert_char_const("'" + chr(92) + "0'"))

def convert_int_dec(n: int) -> int:
    """
    pre: -10**6 <= n <= 10**6
    post: _ == n
    """
    return _pctx._convert_int(str(n))

def integer_containing_unsigned(maxval: int) -> str:
    """
    pre: 0 <= maxval < 2**40
    post: maxval < 2 ** {"uint8_t": 8, "uint16_t": 16, "uint32_t": 32, "uintmax_t": 64}[_]
    """
    return _cg._integer_containing(maxval, signed=False)

def integer_containing_width(width: int, signed: bool) -> str:
    """
    pre: 1 <= width <= 16
    post: True
    """
    return _cg._integer_containing(signed=signed, width=width)

def convert_string_total(body: str) -> str:
    """
    pre: len(body) <= 3 and '"' not in body and not body.endswith(chr(92))
    post: True
    """
    return _pctx._convert_string('"' + body + '"')
