"""Probe: concrete abstract machine over real nmfu DFA objects (+ eager normal form);
differential pre- vs post-optimisation on random inputs over each program's byte classes."""
import sys, glob, shlex, random, os
sys.path.insert(0, '/repo')
import nmfu
from collections import defaultdict
N = nmfu
End = N.DFTransition.End; Else = N.DFTransition.Else

class Snap:  # structural copy of a DFA (optimisation mutates transitions in place)
    def __init__(s, dfa, fail):
        s.states = list(dfa.states); s.start = dfa.starting_state; s.fail = fail
        s.accept = set(dfa.accepting_states)
        s.tr = {st: [(list(t.on_values), t.target, t.is_fallthrough, list(t.actions), getattr(t, 'condition', None), t.error_handling) for t in st.transitions] for st in s.states}

def compile_both(path, flags):
    src = open(path).read(); lines = src.splitlines()
    sa = shlex.split(lines[0][len("// args: "):]) if lines[0].startswith("// args: ") else []
    N.ProgramData.load_commandline_flags((*sa, *flags, path)); N.ProgramData.load_source(src)
    p = N.ParseCtx(N.parser.parse(src, start="start")); p.parse()
    d = N.DfaCompileCtx(p)
    d.dfa = d.ast.convert(defaultdict(lambda: d.generic_fail_state)); d.dfa.add(d.generic_fail_state)
    pre = Snap(d.dfa, d.generic_fail_state)
    while d._optimize_remove_inaccessible() + d._optimize_simplify_transition_matches() + d._optimize_shortcircuit_fallthroughs(): pass
    d._verify_fallthrough_loop()
    return pre, Snap(d.dfa, d.generic_fail_state), p

def wrap(v, spec):
    if spec.type == N.OutputStorageType.BOOL: return 1 if v else 0
    if spec.type != N.OutputStorageType.INT: return v
    w = {1:8,2:16,4:32,8:64}.get(spec.int_width, 32); v &= (1<<w)-1
    if spec.int_signed and v >> (w-1): v -= 1<<w
    return v

class Stop(Exception): pass
class Machine:
    def __init__(s, snap, pctx, eager):
        s.m = snap; s.eager = eager; s.spec = pctx.state_object_spec
        s.out = {}
        for n, o in s.spec.items():
            if o.holds_buflike(): s.out[n] = bytearray((o.default_value.encode('latin-1') if isinstance(o.default_value, str) else o.default_value) or b'')
            elif o.default_value is not None: s.out[n] = s.ev(o.default_value, 0)
            else: s.out[n] = 0
        s.st = snap.start; s.trace = []; s.done = None; s.consumed = 0
        for a in pctx.start_actions: s.act(a, 0, None)
    def ev(s, e, last):
        T = type(e).__name__
        if T == 'LiteralIntegerExpr':
            v = e.value
            if e.typ == N.OutputStorageType.ENUM: return e.model_ref.enum_values.index(v)
            return int(v)
        if T == 'OutIntegerExpr': return s.out[e.ref.name]
        if T == 'StringLengthIntegerExpr': return len(s.out[e.ref.name])
        if T == 'StringRefIntegerExpr':
            i = s.ev(e.index, last); b = s.out[e.ref.name]; return b[i] if 0 <= i < len(b) else 0
        if T == 'LastCharIntegerExpr': return last
        if T == 'SumIntegerExpr':
            t = s.ev(e.children[0], last)
            for c, n in zip(e.children[1:], e.negate[1:]): t = t - s.ev(c, last) if n else t + s.ev(c, last)
            return t
        if T == 'MulIntegerExpr':
            t = s.ev(e.children[0], last)
            for c, o in zip(e.children[1:], e.divide[1:]):
                v = s.ev(c, last)
                if o.value == '*': t *= v
                elif v == 0: raise Stop('div0')
                elif o.value == '/': t = int(t / v)
                else: t = t - v*int(t / v)
            return t
        if T == 'CompareIntegerExpr':
            a, b = s.ev(e.left, last), s.ev(e.right, last)
            return int({'<':a<b,'>':a>b,'<=':a<=b,'>=':a>=b,'==':a==b,'!=':a!=b}[e.op.value])
        if T == 'BitShiftIntegerExpr':
            a, b = s.ev(e.left, last), s.ev(e.right, last); return a << b if e.towards_left else a >> b
        if T == 'BitwiseIntegerExpr':
            t = s.ev(e.children[0], last)
            for c in e.children[1:]:
                v = s.ev(c, last); t = t | v if e.op.value == '|' else t ^ v if e.op.value == '^' else t & v
            return t
        if T == 'DisjunctionIntegerExpr': return int(any(s.ev(c, last) for c in e.children))
        if T == 'ConjunctionIntegerExpr': return int(all(s.ev(c, last) for c in e.children))
        raise NotImplementedError(T)
    def cond(s, c, last):
        if isinstance(c, N.ConstantCondition): return c.value
        return bool(s.ev(c.expr, last))
    def snap(s): return tuple((k, bytes(v) if isinstance(v, bytearray) else v) for k, v in sorted(s.out.items()))
    def act(s, a, last, ctx):
        """returns None | ('goto', state) | ('skip', state)"""
        if isinstance(a, N.CustomFinishAction): s.trace.append(('FINISH', a.result_code, s.snap())); s.done = 'FINISH_'+a.result_code; raise Stop()
        if isinstance(a, N.FinishAction): s.trace.append(('DONE', s.snap())); s.done = 'DONE'; raise Stop()
        if isinstance(a, N.CustomYieldAction): s.trace.append(('YIELD', a.result_code, s.snap())); return
        if isinstance(a, N.CallHook): s.trace.append(('HOOK', a.name, s.snap())); return
        if isinstance(a, N.SetTo): s.out[a.into_storage.name] = wrap(s.ev(a.value_expr, last), a.into_storage); return
        if isinstance(a, N.SetToStr): s.out[a.into_storage.name] = bytearray(a.value_expr.encode('latin-1')); return
        if isinstance(a, N.DeleteBuf): s.out[a.into_storage.name] = bytearray(); return
        if isinstance(a, (N.AppendTo, N.AppendCharTo)):
            o = a.into_storage; cap = o.effective_string_size() if o.type == N.OutputStorageType.STR else 8
            if len(s.out[o.name]) >= cap: return ('goto', a.end_target)
            s.out[o.name].append((last if isinstance(a, N.AppendTo) else s.ev(a.append_value, last)) & 255); return
        if isinstance(a, N.ConditionalAction):
            for c in a.conditions:
                if s.cond(c, last):
                    for sub in a.sub_actions[c]:
                        r = s.act(sub, last, ctx)
                        if r: return r
                    return
            return
        if isinstance(a, N.BreakAction):
            for sub in a.replacement_actions():
                r = s.act(sub, last, ctx)
                if r: return r
            return ('skip', a.refers_to.end_state)
        raise NotImplementedError(a)
    def select(s, st, sym):
        trs = s.m.tr[st]
        if isinstance(st, N.DFConditionPoint):
            for t in trs:
                if s.cond(t[4], sym if isinstance(sym, int) else 255): return t
            return None
        key = chr(sym) if isinstance(sym, int) else sym
        for t in trs:
            if key in t[0]: return t
        for t in trs:
            if Else in t[0]: return t
        return None
    def dummy(s, st):
        trs = s.m.tr.get(st)
        return trs is not None and not isinstance(st, N.DFProxyState.__mro__[0]) and len(trs) == 1 and Else in trs[0][0] and trs[0][2] and type(st) is not N.DFConditionPoint
    def flush(s, last):
        # eager normal form: take input-independent pending transitions now
        n = 0
        while s.done is None and s.st in s.m.tr and s.dummy(s.st) and n < 50:
            t = s.m.tr[s.st][0]; n += 1
            if s.follow(t, last) == 'consumed': break
    def follow(s, t, last):
        on, tgt, fall, acts, cond, eh = t
        s.st = tgt
        for a in acts:
            r = s.act(a, last, t)
            if r:
                s.st = r[1]
                if r[0] == 'goto': return 'redispatch'
                break
        if fall: return 'redispatch'
        return 'consumed'
    def feed(s, sym):
        """dispatch one symbol; returns when consumed or terminated"""
        last = sym if isinstance(sym, int) else 255
        try:
            for _ in range(200):
                if s.st is s.m.fail or s.st is None or s.st not in s.m.tr:
                    if s.st is s.m.fail: s.trace.append(('FAIL', s.consumed)); s.done = 'FAIL'
                    else: s.done = 'TERM'
                    return
                t = s.select(s.st, sym)
                if t is None:
                    if s.st in s.m.accept: s.trace.append(('DONE', s.snap())); s.done = 'DONE'
                    else: s.done = 'STUCK'
                    return
                if s.follow(t, last) == 'consumed':
                    s.consumed += 1
                    if s.st in s.m.accept and all(x[5] for x in s.m.tr.get(s.st, [])): s.trace.append(('DONE', s.snap())); s.done = 'DONE'; return
                    if s.eager: s.flush(last)
                    return
            s.done = 'LOOP'
        except Stop: pass

def classes(snap):
    vals = set()
    for st, trs in snap.tr.items():
        for t in trs:
            for v in t[0]:
                if isinstance(v, str): vals.add(ord(v))
    reps = sorted(vals)
    other = next((b for b in range(256) if b not in vals), None)
    return reps + ([other] if other is not None else [])

def run(snap, pctx, inp, eager):
    m = Machine(snap, pctx, eager)
    for b in inp:
        if m.done: break
        m.feed(b)
    return m

if __name__ == '__main__':
    random.seed(1)
    files = sorted(glob.glob('/repo/example/*.nmfu') + glob.glob('/repo/example/test/*.ok.nmfu'))
    tot = 0; bad = 0; badfiles = set()
    for f in files:
        try: pre, post, pctx = compile_both(f, ("-O3",))
        except Exception as e: print("skip", os.path.basename(f), type(e).__name__); continue
        cl = classes(pre)
        for mode in (False, True):
            nb = 0
            for trial in range(300):
                n = random.randint(0, 14); inp = [random.choice(cl) for _ in range(n)]
                try:
                    a = run(pre, pctx, inp, mode); b = run(post, pctx, inp, mode)
                except Stop: continue
                same = a.trace == b.trace and a.done == b.done and (a.done is not None or (a.snap() == b.snap() and a.st is b.st))
                if not mode: same = a.trace[:len(b.trace)] == b.trace[:len(a.trace)]  # non-eager: only prefix-compatibility expected
                tot += 1
                if not same:
                    nb += 1
                    if nb == 1: print("DIFF", os.path.basename(f), "eager" if mode else "plain", bytes(inp), "\n   pre ", a.done, a.trace[-3:], "\n   post", b.done, b.trace[-3:])
            if nb: bad += nb; badfiles.add((os.path.basename(f), mode))
    print("runs", tot, "diffs", bad, sorted(badfiles))
