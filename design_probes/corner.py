import sys, tempfile, os
sys.path.insert(0, __import__('os').path.dirname(__import__('os').path.abspath(__file__))); sys.path.insert(0,'/repo')
from absm_probe import compile_both, run as run_m
from refsem_probe import run_ref
import nmfu
def both(src, inp, flags=("-O1",)):
    f=tempfile.mktemp(suffix='.nmfu'); open(f,'w').write(src)
    pre,post,pctx=compile_both(f, flags); os.unlink(f)
    m=run_m(post,pctx,list(inp),True); r=run_ref(nmfu.parser.parse(src,start='start'), list(inp))
    print(repr(src[:70]), inp, "\n   mach:", m.done or 'INCOMPLETE', m.consumed, [e[:2] for e in m.trace], "\n   ref :", r.result, r.pos, [e[:2] for e in r.trace])
both('finishcode H, X; parser { try { /\\d+/; } catch (nomatch) { finish H; } "x"; finish X; }', b'12y')
both('finishcode H, X; parser { try { /\\d+/; } catch (nomatch) { finish H; } "x"; finish X; }', b'12x')
both('parser { /\\d+/; }', b'12x')
both('parser { "ab"; }', b'abx')
both('finishcode H; parser { try { "a"; optional { "b"; } } catch (nomatch) { finish H; } "c"; }', b'ad')
both('finishcode H, O; parser { try { "a"; } catch (nomatch) { finish H; } try { "c"; } catch (nomatch) { finish O; } }', b'ad')
