import sys
sys.path.insert(0, '/repo')
import nmfu
from typing import FrozenSet
U = frozenset(range(6))
def den(c):  # denotation over the small universe
    return (U - c.chars) if isinstance(c, nmfu.InvertedRegexCharClass) else (c.chars & U)
def mk(inv, s):
    return nmfu.InvertedRegexCharClass(s) if inv else nmfu.RegexCharClass(s)

def split_ok(i1: bool, s1: FrozenSet[int], i2: bool, s2: FrozenSet[int]) -> bool:
    """
    pre: s1 <= U and s2 <= U
    post: _
    """
    a, b = mk(i1, s1), mk(i2, s2)
    ov, ra, rb = a.split(b)
    return den(ov) == (den(a) & den(b)) and den(ra) == den(a) - den(b) and den(rb) == den(b) - den(a)

def disjoint_ok(i1: bool, s1: FrozenSet[int], i2: bool, s2: FrozenSet[int]) -> bool:
    """
    pre: s1 <= U and s2 <= U
    post: _
    """
    a, b = mk(i1, s1), mk(i2, s2)
    # inverted/inverted uses the >=256 threshold: over the real universe two inverted sets with small chars are never disjoint
    if i1 and i2: return a.isdisjoint(b) == False
    return a.isdisjoint(b) == (len(den(a) & den(b)) == 0)
