import sys, glob, os, random
sys.path.insert(0, __import__('os').path.dirname(__import__('os').path.abspath(__file__))); sys.path.insert(0,'/repo')
import nmfu
from absm_probe import compile_both, run as run_m, classes, Stop
from refsem_probe import run_ref, Unsupported
random.seed(int(sys.argv[1]) if len(sys.argv)>1 else 1)
files = sorted(glob.glob('/repo/example/test/*.ok.nmfu')+glob.glob('/repo/example/*.nmfu'))
tot=0; nd=0
from collections import Counter
dist=Counter(); inc=[]
for f in files:
    src=open(f).read()
    if 'eof-support' in src.splitlines()[0] or 'macro' in src: continue
    try: pre, post, pctx = compile_both(f, ("-O1",))
    except Exception as e: print("skip", os.path.basename(f), type(e).__name__); continue
    tree=nmfu.parser.parse(src, start='start'); cl=classes(post); shown=0; inc.append(os.path.basename(f))
    for trial in range(400):
        inp=[random.choice(cl) for _ in range(random.randint(0,12))]
        try:
            r=run_ref(tree, inp); m=run_m(post, pctx, inp, True)
        except Unsupported as e: print("UNSUP", os.path.basename(f), e); break
        except Stop: continue
        tot+=1; dist[r.result.split('_')[0]]+=1; dist['events']+=len(r.trace)
        mt=[e for e in m.trace if e[0] in ('HOOK','YIELD')]; rt=r.trace
        mres=m.done or 'INCOMPLETE'
        ok=True; why=''
        if r.result=='INCOMPLETE':
            ok = mres=='INCOMPLETE' and mt==rt[:len(mt)]; why='inc'
        elif r.result=='FAIL':
            ok = mres=='FAIL' and mt==rt[:len(mt)]; why='fail'
        else:
            fin=[e for e in m.trace if e[0] in ('DONE','FINISH')]
            msnap=fin[-1][-1] if fin else None
            ok = mres==r.result and mt==rt and msnap==r.snap(); why='done'
        if not ok:
            nd+=1
            if shown<2:
                shown+=1; print("DIFF", os.path.basename(f), why, bytes(inp), "\n   ref ", r.result, r.pos, rt[-2:], r.snap(), "\n   mach", mres, m.consumed, mt[-2:], m.snap())
print("runs",tot,"diffs",nd, dict(dist)); print(len(inc), inc)
