import sys, traceback
sys.path.insert(0,'/repo')
import nmfu
from collections import defaultdict
def comp(src, flags=("-O1",), name="t"):
    nmfu.ProgramData.load_commandline_flags((*flags, "x.nmfu"))
    nmfu.ProgramData.load_source(src)
    pt = nmfu.parser.parse(src, start="start")
    p = nmfu.ParseCtx(pt); p.parse()
    d = nmfu.DfaCompileCtx(p); d.compile()
    g = nmfu.CodegenCtx(d, name)
    return g.generate_header(), g.generate_source(), d
def tryc(label, src, flags=("-O1",), show=None):
    try:
        h, s, d = comp(src, flags)
        print("OK  ", label, "states", len(d.dfa.states))
        if show:
            for l in (h+s).splitlines():
                if any(x in l for x in show): print("      |", l.strip())
    except nmfu.NMFUError as e:
        print("DIAG", label, type(e).__name__, str(e).splitlines()[0][:90])
    except BaseException as e:
        print("CRASH", label, type(e).__name__, str(e)[:90])
tryc("utf8 escape", 'out str[3] s; parser { "a"; s = "\\xff\\xff"; }', show=["memcpy","s_counter ="])
tryc("char const \\0", "out int x; parser { \"a\"; x = '\\0'; }", show=["c.x ="])
tryc("int size 16 unsigned (doc example)", 'out int{unsigned, size 16} x = 32; parser { "a"; }')
tryc("int size 3 signed", 'out int{signed, size 3} x; parser { "a"; }', show=["x;"])
tryc("unknown escape", 'parser { "a\\q"; }')
tryc("bad hex escape", 'parser { "a\\xZZ"; }')
tryc("trailing backslash-x", 'parser { "a\\x4"; }')
tryc("uescape", 'parser { "a\\u1234"; }')
tryc("loop yield only", 'yieldcode A; parser { loop { yield A; } }', flags=("-O1","-fyield-support"))
tryc("loop optional", 'parser { loop { optional { "a"; } } }')
tryc("str[0]", 'out str[0] s; parser { s += "a"; }', show=["s[", "counter"])
tryc("str[1]", 'out str[1] s; parser { s += "a"; }', show=["s[", "counter"])
tryc("huge repeat", 'parser { /a{0,3000}/; }')
tryc("raw default", 'out raw{uint32_t} r = 5; parser { "a"; }')
tryc("enum default", 'out enum{A,B} e = B; parser { "a"; }', show=["c.e ="])
tryc("bool assign int", 'out bool b; parser { "a"; b = 5; }')
tryc("str index sign", 'out str[4] s; out int x; parser { s += /./; x = [s[0]]; }', show=["c.x ="])
tryc("raw assign", 'out raw{uint32_t} r; parser { "a"; r = 5; }')
tryc("hook no method", 'hook h; parser { "a"; h(); }', flags=("-O1","-fno-hook-global"))
tryc("break outside", 'parser { "a"; break; }')
tryc("macro recursion", 'macro m() { m(); } parser { m(); }')
tryc("lit too long", 'out str[2] s; parser { "a"; s = "abc"; }')
tryc("default too long", 'out str[2] s = "abcdef"; parser { "a"; }', show=["memcpy","counter ="])
for args in (["-O4","x"],["-Ofoo","x"],["-dfoo","x"],["--flag","a=b=c","x"],["-","x"],["--flag","strings-as-u8=maybe","x"],["-fnonexistent","x"], ["-ofoo.bar","x"]):
    try:
        r = nmfu.ProgramData.load_commandline_flags(args); print("ARGS OK  ", args, r)
    except RuntimeError as e: print("ARGS DIAG", args, e)
    except BaseException as e: print("ARGS CRASH", args, type(e).__name__, e)
print(nmfu.ProgramData.load_commandline_flags(["-oX","in.nmfu"]), nmfu.ProgramData.load_commandline_flags(["in.nmfu","-oX"]))
