"""Probe: minimal symbolic executor for the mem2reg'd LLVM IR of nmfu-generated C.
One feed() call on a 1-byte chunk from each concrete control state, struct data symbolic."""
import re, sys, time, z3

# ---------- types ----------
class Ty: pass
class IntT(Ty):
    def __init__(s, b): s.bits=b
    def size(s): return max(1,(s.bits+7)//8)
    def align(s): return s.size()
class PtrT(Ty):
    def __init__(s, to): s.to=to
    def size(s): return 8
    def align(s): return 8
class ArrT(Ty):
    def __init__(s, n, el): s.n=n; s.el=el
    def size(s): return s.n*s.el.size()
    def align(s): return s.el.align()
class StructT(Ty):
    def __init__(s, fields):
        s.fields=fields; off=0; s.offs=[]; a=1
        for f in fields:
            al=f.align(); a=max(a,al); off=(off+al-1)//al*al; s.offs.append(off); off+=f.size()
        s._al=a; s._sz=(off+a-1)//a*a
    def size(s): return s._sz
    def align(s): return s._al
class FnT(Ty):
    def size(s): return 0
    def align(s): return 1

class Module:
    def __init__(s, text):
        s.structs={}; s.funcs={}; s.globals={}
        for m in re.finditer(r'^(%[\w.]+) = type (\{.*\})$', text, re.M): s.structs[m.group(1)]=m.group(2)
        s._cache={}
        for m in re.finditer(r'^(@[\w.]+) = .*constant \[(\d+) x i8\] c"((?:[^"\\]|\\[0-9A-Fa-f]{2}|\\\\)*)"', text, re.M):
            raw=m.group(3); bs=[]; i=0
            while i<len(raw):
                if raw[i]=='\\':
                    if raw[i+1]=='\\': bs.append(92); i+=2
                    else: bs.append(int(raw[i+1:i+3],16)); i+=3
                else: bs.append(ord(raw[i])); i+=1
            s.globals[m.group(1)]=bs
        for m in re.finditer(r'^define [^@]*(@[\w.]+)\((.*?)\)[^{]*\{\n(.*?)^\}', text, re.M|re.S):
            s.funcs[m.group(1)]=Func(s, m.group(1), m.group(2), m.group(3))
    def ty(s, t):
        t=t.strip()
        if t in s._cache: return s._cache[t]
        r=s._ty(t); s._cache[t]=r; return r
    def _ty(s, t):
        if t.endswith('*'): return PtrT(s.ty(t[:-1]))
        if t.endswith(')'): return FnT()
        m=re.fullmatch(r'i(\d+)', t)
        if m: return IntT(int(m.group(1)))
        if t=='void': return IntT(8)
        m=re.fullmatch(r'\[(\d+) x (.*)\]', t)
        if m: return ArrT(int(m.group(1)), s.ty(m.group(2)))
        if t.startswith('{'): return StructT([s.ty(x) for x in split_top(t[1:-1])])
        if t in s.structs: return s.ty(s.structs[t])
        raise NotImplementedError("type "+t)
def split_top(x):
    out=[]; d=0; cur=''
    for ch in x:
        if ch in '[{(<': d+=1
        if ch in ']})>': d-=1
        if ch==',' and d==0: out.append(cur.strip()); cur=''
        else: cur+=ch
    if cur.strip(): out.append(cur.strip())
    return out

class Func:
    def __init__(s, mod, name, params, body):
        s.name=name; s.params=[]
        for p in split_top(params):
            toks=p.split(); s.params.append((toks[0], toks[-1]))
        s.blocks={}; cur=str(len(s.params)); s.entry=cur; s.blocks[cur]=[]
        for line in body.split('\n'):
            line=line.split(' ;')[0].rstrip() if not line.strip().startswith(';') else ''
            if not line.strip(): continue
            m=re.match(r'^([\w.]+):', line)
            if m: cur=m.group(1); s.blocks[cur]=[]; continue
            s.blocks[cur].append(line.strip())

# ---------- symbolic state ----------
class Ptr:
    def __init__(s, obj, off): s.obj=obj; s.off=off   # off: z3 BV64
def bv(v,b): return z3.BitVecVal(v,b)
class Abort(Exception): pass

class Exec:
    def __init__(s, mod, fn, objs, args, solver, maxsteps=4000):
        s.mod=mod; s.fn=mod.funcs[fn]; s.solver=solver; s.maxsteps=maxsteps
        s.results=[]; s.obls=0; s.obl_fail=[]; s.nq=0
        # objs: name -> (size, z3 Array BV64->BV8)
        env={ '%'+str(i): a for i,a in enumerate(args) }
        s.run(env, {k:v for k,v in objs.items()}, [])
    def feasible(s, pc, c):
        s.nq+=1; s.solver.push(); s.solver.add(*pc, c); r=s.solver.check(); s.solver.pop(); return r==z3.sat
    def val(s, env, tok, ty):
        tok=tok.strip()
        if tok.startswith('%'): return env[tok]
        if tok=='null': return Ptr(None, bv(0,64))
        if tok in ('true','false'): return bv(1 if tok=='true' else 0,1)
        if tok.startswith('getelementptr'):
            m=re.match(r'getelementptr inbounds \((.*)\)$', tok); parts=split_top(m.group(1))
            base=parts[1].split()[-1]; return Ptr(base, bv(0,64))
        if tok.startswith('@'): return Ptr(tok, bv(0,64))
        return bv(int(tok), ty.bits)
    def load(s, mem, sizes, p, nbytes, pc):
        s.check_bounds(p, nbytes, sizes, pc)
        arr=mem[p.obj]; bs=[z3.Select(arr, p.off+i) for i in range(nbytes)]
        return z3.Concat(*reversed(bs)) if nbytes>1 else bs[0]
    def store(s, mem, sizes, p, v, nbytes, pc):
        s.check_bounds(p, nbytes, sizes, pc)
        arr=mem[p.obj]
        for i in range(nbytes): arr=z3.Store(arr, p.off+i, z3.Extract(8*i+7,8*i,v))
        mem[p.obj]=arr
    def check_bounds(s, p, n, sizes, pc):
        s.obls+=1
        if p.obj is None: s.obl_fail.append(("null", pc)); raise Abort()
        bad=z3.Or(z3.UGT(p.off+n, bv(sizes[p.obj],64)), z3.UGT(p.off, bv(sizes[p.obj],64)))
        if s.feasible(pc, bad): s.obl_fail.append((p.obj, z3.simplify(p.off)))
    def run(s, env0, mem0, pc0):
        sizes=SIZES
        stack=[(s.fn.entry, None, env0, mem0, pc0, [], 0)]
        while stack:
            blk, prev, env, mem, pc, ev, steps = stack.pop()
            env=dict(env); mem=dict(mem); ev=list(ev)
            try:
              while True:
                steps+=1
                if steps>s.maxsteps: s.results.append(('UNWIND',pc,None,mem,ev)); break
                insns=s.fn.blocks[blk]
                # phis first (parallel)
                newvals={}
                nxt=None
                for ins in insns:
                    m=re.match(r'(%[\w.]+) = phi (\S+) (.*)', ins)
                    if not m: break
                    ty=s.mod.ty(m.group(2))
                    for inc in re.findall(r'\[ ([^,]+), %([\w.]+) \]', m.group(3)):
                        if inc[1]==prev: newvals[m.group(1)]=s.val(env, inc[0], ty)
                env.update(newvals)
                for ins in insns:
                    if ' = phi ' in ins: continue
                    r=s.step(ins, env, mem, sizes, pc, ev)
                    if r is None: continue
                    kind=r[0]
                    if kind=='ret': s.results.append(('RET',pc,r[1],mem,ev)); nxt='__done__'; break
                    if kind=='br': prev,blk=blk,r[1]; nxt=blk; break
                    if kind=='fork':
                        alts=[(c,t) for c,t in r[1] if s.feasible(pc,c)]
                        for c,t in alts[1:]: stack.append((t, blk, dict(env), dict(mem), pc+[c], list(ev), steps))
                        c,t=alts[0]; pc=pc+[c]; prev,blk=blk,t; nxt=blk; break
                if nxt=='__done__': break
            except Abort:
                s.results.append(('ABORT',pc,None,mem,ev))
    def step(s, ins, env, mem, sizes, pc, ev):
        m=re.match(r'(%[\w.]+) = (.*)', ins); dst=None
        if m: dst, ins = m.group(1), m.group(2)
        op=ins.split()[0]
        if op=='getelementptr':
            parts=split_top(ins[len('getelementptr'):].replace(' inbounds','',1))
            ty=s.mod.ty(parts[0]); base=s.val(env, parts[1].split()[-1], None); off=base.off
            idxs=[x.strip().rsplit(' ',1) for x in parts[2:]]
            first=True
            for ity, iv in idxs:
                iv_=s.val(env, iv, s.mod.ty(ity)); 
                if iv_.size()<64: iv_=z3.SignExt(64-iv_.size(), iv_)
                if first: off=off+iv_*ty.size(); first=False; continue
                if isinstance(ty, StructT):
                    k=int(iv); off=off+ty.offs[k]; ty=ty.fields[k]
                elif isinstance(ty, ArrT): off=off+iv_*ty.el.size(); ty=ty.el
                else: raise NotImplementedError(ins)
            env[dst]=Ptr(base.obj, off); return
        if op=='load':
            mm=re.match(r'load (.+), (.+)\* (%[\w.]+|@[\w.]+), align', ins); ty=s.mod.ty(mm.group(1)); p=s.val(env, mm.group(3), None)
            if isinstance(ty, PtrT):
                env[dst]=PTRCELLS[(p.obj, z3.simplify(p.off).as_long())] if (p.obj, z3.simplify(p.off).as_long()) in PTRCELLS else (_ for _ in ()).throw(NotImplementedError(ins))
                if isinstance(env[dst], tuple): env[dst]=mem.get(('cell',)+env[dst], None) or Ptr(*mem[('cellinit',)+env[dst]])
            else:
                v=s.load(mem, sizes, p, ty.size(), pc); env[dst]=z3.Extract(ty.bits-1,0,v) if v.size()!=ty.bits else v
            return
        if op=='store':
            mm=re.match(r'store (\S+) (.+), (.+)\* (%[\w.]+), align', ins); ty=s.mod.ty(mm.group(1)); p=s.val(env, mm.group(4), None)
            v=s.val(env, mm.group(2), ty)
            if isinstance(ty, PtrT):
                key=(p.obj, z3.simplify(p.off).as_long()); cell=PTRCELLS[key]; mem[('cell',)+cell]=v
            else:
                if v.size()<ty.size()*8: v=z3.ZeroExt(ty.size()*8-v.size(), v)
                s.store(mem, sizes, p, v, ty.size(), pc)
            return
        if op in ('zext','sext','trunc'):
            mm=re.match(r'\w+ (\S+) (\S+) to (\S+)', ins); a=s.val(env, mm.group(2), s.mod.ty(mm.group(1))); tb=s.mod.ty(mm.group(3)).bits
            env[dst]= z3.ZeroExt(tb-a.size(),a) if op=='zext' else z3.SignExt(tb-a.size(),a) if op=='sext' else z3.Extract(tb-1,0,a); return
        if op=='icmp':
            mm=re.match(r'icmp (\w+) (\S+) ([^,]+), (.+)', ins); ty=s.mod.ty(mm.group(2)); a=s.val(env,mm.group(3),ty); b=s.val(env,mm.group(4),ty)
            if isinstance(a,Ptr):
                c = z3.And(z3.BoolVal(a.obj==b.obj), a.off==b.off)
                if mm.group(1)=='ne': c=z3.Not(c)
            else:
                c={'eq':a==b,'ne':a!=b,'slt':a<b,'sle':a<=b,'sgt':a>b,'sge':a>=b,'ult':z3.ULT(a,b),'ule':z3.ULE(a,b),'ugt':z3.UGT(a,b),'uge':z3.UGE(a,b)}[mm.group(1)]
            env[dst]=z3.If(c,bv(1,1),bv(0,1)); return
        if op in ('add','sub','mul','and','or','xor','shl','lshr','ashr'):
            mm=re.match(r'\w+ (?:nsw |nuw |exact )*(\S+) ([^,]+), (.+)', ins); ty=s.mod.ty(mm.group(1)); a=s.val(env,mm.group(2),ty); b=s.val(env,mm.group(3),ty)
            env[dst]={'add':lambda:a+b,'sub':lambda:a-b,'mul':lambda:a*b,'and':lambda:a&b,'or':lambda:a|b,'xor':lambda:a^b,'shl':lambda:a<<b,'lshr':lambda:z3.LShR(a,b),'ashr':lambda:a>>b}[op](); return
        if op=='br':
            mm=re.match(r'br label %([\w.]+)', ins)
            if mm: return ('br', mm.group(1))
            mm=re.match(r'br i1 (\S+), label %([\w.]+), label %([\w.]+)', ins); c=s.val(env,mm.group(1),IntT(1))
            return ('fork', [(c==1, mm.group(2)), (c==0, mm.group(3))])
        if op=='switch':
            mm=re.match(r'switch (\S+) (\S+), label %([\w.]+) \[(.*)\]', ins, re.S); ty=s.mod.ty(mm.group(1)); v=s.val(env,mm.group(2),ty)
            cases=re.findall(r'i\d+ (\d+), label %([\w.]+)', mm.group(4))
            alts=[(v==int(c), t) for c,t in cases]; alts.append((z3.And([v!=int(c) for c,_ in cases]), mm.group(3)))
            return ('fork', alts)
        if op=='call':
            mm=re.match(r'call \S+ (@[\w.]+)\((.*)\)', ins); args=split_top(mm.group(2))
            ev.append((mm.group(1), [z3.simplify(s.val(env,a.split()[-1],IntT(8))) if not a.split()[0].endswith('*') else 'state' for a in args])); return
        if op=='ret':
            mm=re.match(r'ret (\S+) (.+)', ins); return ('ret', s.val(env, mm.group(2), s.mod.ty(mm.group(1))))
        raise NotImplementedError(ins)

if __name__=='__main__':
    path=sys.argv[1]; pfx=sys.argv[2]
    text=open(path).read()
    # join multi-line switch
    text=re.sub(r'\[\n((?:\s+i\d+ \d+, label %[\w.]+\n)+)\s+\]', lambda m: '[ '+' '.join(m.group(1).split('\n'))+' ]', text)
    mod=Module(text); st=mod.ty('%struct.'+pfx+'_state')
    print("struct size", st.size(), "offs", st.offs, "funcs", list(mod.funcs))
    csrc=open(sys.argv[3]).read(); nstates=len(re.findall(r'^\s+case \d+:', csrc[:csrc.find('_end(') if '_end(' in csrc[csrc.find('_feed('):] else len(csrc)], re.M)); indirect='const uint8_t **start' in csrc
    SIZES={'state':st.size(), 'chunk':1}
    # indirect start ptr: arg0 = pointer to cell holding Ptr(chunk,0); model cells specially
    PTRCELLS={('startcell',0):('startcell',)}
    tot_paths=0; t0=time.time(); totq=0; fails=0
    for sidx in range(nstates):
        solver=z3.Solver()
        A=z3.Array('st', z3.BitVecSort(64), z3.BitVecSort(8)); C=z3.Array('ch', z3.BitVecSort(64), z3.BitVecSort(8))
        stoff=st.offs[-1]
        A=z3.Store(A, bv(stoff,64), bv(sidx,8)) if st.fields[-1].size()==1 else z3.Store(z3.Store(A, bv(stoff,64), bv(sidx&255,8)), bv(stoff+1,64), bv(sidx>>8,8))
        mem={'state':A,'chunk':C, ('cellinit','startcell'):('chunk',bv(0,64))}
        e=Exec(mod, '@'+pfx+'_feed', mem, ([Ptr('startcell',bv(0,64))] if indirect else [Ptr('chunk',bv(0,64))])+[Ptr('chunk',bv(1,64)), Ptr('state',bv(0,64))], solver)
        tot_paths+=len(e.results); totq+=e.nq; fails+=len(e.obl_fail)
        if False:
            for k,pc,ret,m,ev in e.results: print(" state",sidx,k,"ret",z3.simplify(ret) if ret is not None else None,"st'",z3.simplify(z3.Select(m['state'],bv(stoff,64))),"ev",ev, "|pc|",len(pc))
        if False: print(" state",sidx,"OBL FAIL",e.obl_fail[:2])
    print("states",nstates,"paths",tot_paths,"queries",totq,"obl-fails",fails,"time %.2fs"%(time.time()-t0))
