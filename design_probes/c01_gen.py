import sys, os, random, tempfile
sys.path.insert(0, __import__('os').path.dirname(__import__('os').path.abspath(__file__))); sys.path.insert(0,'/repo')
import nmfu
from absm_probe import compile_both, Machine, classes, Stop
from refsem_probe import run_ref, Unsupported
from c01_guided import guided
from collections import Counter
random.seed(int(sys.argv[1]) if len(sys.argv)>1 else 1)
PATS=['"a"','"ab"','"ba"','"c"','/a+/','/[ab]/','/b*c/','/[^c]/','/a?b/','"A"i','/(ab|c)/','/\\d+/','/./']
def pat(): return random.choice(PATS)
def stmts(d, inloop):
    n=random.randint(1,3); return ' '.join(stmt(d, inloop) for _ in range(n))
def stmt(d, inloop):
    k=random.random()
    if d<=0 or k<0.30: return pat()+';'
    if k<0.38: return 's += '+pat()+';'
    if k<0.44: return 'n = [n + 1];'
    if k<0.50: return 'h();'
    if k<0.54: return 'n = [$last];' 
    if k<0.58 and inloop: return 'break;'
    if k<0.62: return 'finish '+random.choice('XYZ')+';'
    if k<0.70: return 'optional { '+stmts(d-1,inloop)+' }'
    if k<0.78: return 'loop { '+stmts(d-1,True)+' }'
    if k<0.86:
        cls=[]; 
        for i in range(random.randint(1,3)): cls.append(pat()+' -> { '+(stmts(d-1,inloop) if random.random()<0.7 else '')+' }')
        if random.random()<0.5: cls.append('else -> { '+(stmts(d-1,inloop) if random.random()<0.6 else '')+' }')
        return 'case { '+' '.join(cls)+' }'
    if k<0.93: return 'try { '+stmts(d-1,inloop)+' } catch'+random.choice(['',' (nomatch)',' (outofspace)'])+' { '+(stmts(d-1,inloop) if random.random()<0.7 else '')+' }'
    if k<0.97: return 'if n > 1 { '+stmts(d-1,inloop)+' } else { '+stmts(d-1,inloop)+' }'
    return 'foreach { '+pat()+'; } do { n = [n + $last]; }'
HDR='out str[3] s; out int n; hook h; finishcode X, Y, Z;\n'
acc=Counter(); nd=0; tot=0; shown=0
for it in range(int(sys.argv[2]) if len(sys.argv)>2 else 300):
    src=HDR+'parser { '+stmts(3,False)+' }'
    f=tempfile.mktemp(suffix='.nmfu'); open(f,'w').write(src)
    try: pre,post,pctx=compile_both(f,("-O1",)); acc['accepted']+=1
    except nmfu.NMFUError as e: acc['rej:'+type(e).__name__]+=1; continue
    except RecursionError: acc['RecursionError']+=1; continue
    except Exception as e:
        acc['CRASH:'+type(e).__name__]+=1
        if acc['CRASH:'+type(e).__name__]<=2: print("CRASH", type(e).__name__, str(e)[:80], "\n   ", src[len(HDR):])
        continue
    finally: os.unlink(f)
    tree=nmfu.parser.parse(src,start='start'); cl=classes(post); pd=0
    for trial in range(60):
        inp=guided(post,pctx,cl,random.randint(1,10))
        try:
            r=run_ref(tree,inp)
            try: m=Machine(post,pctx,True)
            except Stop: acc['start-finish']+=1; break
            for b in inp:
                if m.done: break
                m.feed(b)
        except Unsupported as e: acc['unsup']+=1; break
        except Stop: continue
        except RecursionError: acc['ref-recursion']+=1; break
        tot+=1
        mt=[e for e in m.trace if e[0] in ('HOOK','YIELD')]; rt=r.trace; mres=m.done or 'INCOMPLETE'
        if mres in ('LOOP','STUCK','TERM'): ok=False
        elif r.result=='INCOMPLETE': ok = mres=='INCOMPLETE' and mt==rt[:len(mt)]
        elif r.result=='FAIL': ok = mres=='FAIL' and mt==rt[:len(mt)]
        else:
            fin=[e for e in m.trace if e[0] in ('DONE','FINISH')]; msnap=fin[-1][-1] if fin else None
            ok = mres==r.result and mt==rt and msnap==r.snap()
            if not ok and r.result=='DONE' and mres=='FAIL' and r.pos<len(inp) and mt==rt: ok=True
        if not ok:
            pd+=1
            if pd==1 and shown<14:
                shown+=1; print("DIFF", src[len(HDR):], "\n   input", bytes(inp), "\n   ref ", r.result, r.pos, [e[:2] for e in rt[-3:]], r.snap(), "\n   mach", mres, m.consumed, [e[:2] for e in mt[-3:]], m.snap())
    if pd: nd+=1
print(dict(acc), "runs", tot, "programs-with-diff", nd)
