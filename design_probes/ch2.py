import sys
sys.path.insert(0, '/repo')
import nmfu
from typing import List
PF = nmfu.ProgramFlag
REL = [f for f in PF if f.implies or f.exclusive_with or any(f.value in g.implies or f.value in g.exclusive_with for g in PF)]
REL = [f for f in REL if f.value < 100 or f.value==400]

def consistent(tri: List[int], level: int) -> bool:
    """
    pre: len(tri) == len(REL) and all(0 <= t <= 2 for t in tri) and 0 <= level <= 3
    post: _
    """
    argv = ["-O%d" % level]
    for f, t in zip(REL, tri):
        n = f.name.lower().replace("_", "-")
        if t == 1: argv.append("-f" + n)
        elif t == 2: argv.append("-fno-" + n)
    argv.append("in.nmfu")
    try:
        nmfu.ProgramData.load_commandline_flags(argv)
    except RuntimeError:
        return True
    do = nmfu.ProgramData.do
    for f in PF:
        if do(f):
            for i in f.implies:
                if not do(PF(i)): return False
            for x in f.exclusive_with:
                if do(PF(x)): return False
    return True
if __name__ == "__main__":
    print(len(REL), [f.name for f in REL])
