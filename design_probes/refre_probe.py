"""Probe: independent regex semantics (Brzozowski derivatives over byte sets) vs nmfu's compiled regex DFA."""
import sys, random, string, time
sys.path.insert(0, '/repo')
import nmfu, lark
from collections import defaultdict
ALL = frozenset(range(256))
# --- regex AST: ('set', frozenset) | ('eps',) | ('empty',) | ('cat', a, b) | ('alt', a, b) | ('star', a)
EPS=('eps',); EMPTY=('empty',)
def cat(a,b):
    if a==EMPTY or b==EMPTY: return EMPTY
    if a==EPS: return b
    if b==EPS: return a
    return ('cat',a,b)
def alt(a,b):
    if a==EMPTY: return b
    if b==EMPTY: return a
    if a==b: return a
    return ('alt',)+tuple(sorted((a,b),key=repr))
def star(a): return EPS if a in (EPS,EMPTY) else a if a[0]=='star' else ('star',a)
def nullable(r):
    t=r[0]
    return t in ('eps','star') or (t=='cat' and nullable(r[1]) and nullable(r[2])) or (t=='alt' and (nullable(r[1]) or nullable(r[2])))
def deriv(r,c):
    t=r[0]
    if t in ('eps','empty'): return EMPTY
    if t=='set': return EPS if c in r[1] else EMPTY
    if t=='cat':
        d=cat(deriv(r[1],c), r[2])
        return alt(d, deriv(r[2],c)) if nullable(r[1]) else d
    if t=='alt': return alt(deriv(r[1],c), deriv(r[2],c))
    if t=='star': return cat(deriv(r[1],c), r)
CLS={'n':{10},'t':{9},'r':{13},' ':{32},'d':set(range(48,58)),'w':set(map(ord,string.ascii_letters+string.digits+'_')),'s':set(map(ord,' \t\n\r\x0b\x0c'))}
def cls(ch):
    if ch in 'DWS': return ALL-frozenset(CLS[ch.lower()])
    return frozenset(CLS[ch])
def raw(tok):
    v=tok.value; return ord(v[1]) if v[0]=='\\' else ord(v[0])
def conv(t):
    """own reading of docs/user-ref/parser.md 'NMFU Regexes' on lark's syntax tree"""
    if isinstance(t, lark.Token): return ('set', frozenset([raw(t)]))
    d=t.data
    if d in ('regex','regex_group'):
        r=EPS
        for c in t.children: r=cat(r,conv(c))
        return r
    if d=='regex_alternation':
        r=EMPTY
        for c in t.children: r=alt(r,conv(c))
        return r
    if d=='regex_raw_match': return ('set', frozenset([raw(t.children[0])]))
    if d=='regex_char_class': return ('set', cls(t.children[0].value[0]))
    if d=='regex_any': return ('set', ALL)
    if d in ('regex_set','regex_inverted_set'):
        s=set()
        for c in t.children:
            if isinstance(c, lark.Token): s.add(raw(c))
            elif c.data=='regex_set_range': s|=set(range(raw(c.children[0]), raw(c.children[1])+1))
            else: s|=cls(c.children[0].value[0])
        return ('set', frozenset(s) if d=='regex_set' else ALL-frozenset(s))
    if d=='regex_operation':
        a=conv(t.children[0]); op=t.children[1].value
        return {'*':star(a),'+':cat(a,star(a)),'?':alt(a,EPS)}[op]
    if d=='regex_exact_repeat':
        a=conv(t.children[0]); n=int(t.children[1].value); r=EPS
        for _ in range(n): r=cat(r,a)
        return r
    if d=='regex_at_least_repeat':
        a=conv(t.children[0]); n=int(t.children[1].value); r=star(a)
        for _ in range(n): r=cat(a,r)
        return r
    if d=='regex_range_repeat':
        a=conv(t.children[0]); n=int(t.children[1].value); m=int(t.children[2].value); r=EPS
        for _ in range(m-n): r=alt(EPS, cat(a,r))
        for _ in range(n): r=cat(a,r)
        return r
    raise NotImplementedError(d)
def ref_run(r, bs):
    """returns 'acc' | 'live' | ('dead', i)  (i = index of first byte after which nothing is reachable)"""
    for i,b in enumerate(bs):
        r=deriv(r,b)
        if r==EMPTY: return ('dead', i)
    return 'acc' if nullable(r) else 'live'
def is_empty_lang(r, seen=None):  # EMPTY is canonical thanks to smart constructors only if no set is empty
    return r==EMPTY
def nm_run(dfa, err, bs):
    st=dfa.starting_state
    for i,b in enumerate(bs):
        for _ in range(10):
            t=st[chr(b)]
            if t is None: return ('stuck', i)
            st=t.target
            if st is err: return ('dead', i)
            if not t.is_fallthrough: break
    return 'acc' if st in dfa.accepting_states else 'live'
# --- generator of regex source text
ATOMS=['a','b','c',r'\d',r'\w',r'\s',r'\S','.','[ab]','[^a]','[^bc]','[a-c]',r'[^\d]',r'\.',r'\ ','[a\-]']
def gen(depth):
    if depth==0 or random.random()<0.3: return random.choice(ATOMS)
    k=random.random()
    if k<0.35: return gen(depth-1)+gen(depth-1)
    if k<0.55: return '('+gen(depth-1)+'|'+gen(depth-1)+')'
    if k<0.85: return '('+gen(depth-1)+')'+random.choice(['*','+','?','{2}','{1,2}','{0,2}','{2,}','{0}','{2,1}'])
    return '('+gen(depth-1)+')'
if __name__=='__main__':
    random.seed(int(sys.argv[1]) if len(sys.argv)>1 else 1)
    nmfu.ProgramData.load_commandline_flags(("-O1","x"))
    stats=defaultdict(int); shown=0; t0=time.time()
    alpha=[97,98,99,100,48,32,10,45,46,255,0,65]
    for it in range(400):
        src=gen(4)
        try: tree=nmfu.parser.parse('/'+src+'/', start="regex")
        except Exception as e: stats['syntax']+=1; continue
        try:
            err=nmfu.DFState(); m=nmfu.RegexMatch(tree); dfa=m.convert(defaultdict(lambda: err))
        except nmfu.NMFUError as e: stats['nmfu-reject:'+type(e).__name__]+=1; continue
        except Exception as e:
            stats['CRASH:'+type(e).__name__]+=1
            if shown<12: shown+=1; print("CRASH", src, type(e).__name__, str(e)[:60])
            continue
        r=conv(tree); stats['ok']+=1
        for _ in range(60):
            bs=[random.choice(alpha) for _ in range(random.randint(0,7))]
            a=ref_run(r,bs); b=nm_run(dfa,err,bs)
            if a!=b:
                stats['DIFF']+=1
                if shown<12: shown+=1; print("DIFF", src, bytes(bs), "ref",a,"nmfu",b)
                break
    print(dict(stats), "%.1fs"%(time.time()-t0))
