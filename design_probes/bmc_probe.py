"""Probe: encode pre-/post-optimisation DFA as z3 transition systems (control + event log),
miter over k symbolic bytes. Data conditions = shared free booleans per (step, condition id)."""
import sys, time, shlex
sys.path.insert(0, '/repo')
import nmfu, z3
from collections import defaultdict

def compile_both(path, flags):
    src = open(path).read()
    lines = src.splitlines()
    sa = shlex.split(lines[0][len("// args: "):]) if lines[0].startswith("// args: ") else []
    nmfu.ProgramData.load_commandline_flags((*flags, *sa, path))
    nmfu.ProgramData.load_source(src)
    pt = nmfu.parser.parse(src, start="start")
    p = nmfu.ParseCtx(pt); p.parse()
    d = nmfu.DfaCompileCtx(p)
    d.dfa = d.ast.convert(defaultdict(lambda: d.generic_fail_state))
    d.dfa.add(d.generic_fail_state)
    pre = snapshot(d.dfa, d.generic_fail_state)
    while d._optimize_remove_inaccessible() + d._optimize_simplify_transition_matches() + d._optimize_shortcircuit_fallthroughs():
        pass
    d._verify_fallthrough_loop()
    post = snapshot(d.dfa, d.generic_fail_state)
    return pre, post

class M: pass
def snapshot(dfa, fail):
    m = M(); idx = {s: i for i, s in enumerate(dfa.states)}
    m.n = len(dfa.states); m.start = idx[dfa.starting_state]; m.fail = idx[fail]
    m.accept = {idx[s] for s in dfa.accepting_states if s in idx}
    m.states = []
    for s in dfa.states:
        ts = []
        for t in s.transitions:
            cond = getattr(t, 'condition', None)
            ts.append(dict(on=list(t.on_values), tgt=idx.get(t.target, -1), fall=t.is_fallthrough, acts=list(t.actions), cond=cond))
        m.states.append(dict(cp=isinstance(s, nmfu.DFConditionPoint), ts=ts))
    m.idx = idx
    return m

SB = 10  # state bits
EVB = 16
def encode(m, bytes_, k, condvar, D=8, E=6):
    """returns per-step event slot lists + final state; control state as BitVec(SB)."""
    FAIL, DONE = m.n, m.n+1   # pseudo states: terminated
    st = z3.BitVecVal(m.start, SB)
    alldone = z3.BoolVal(False)
    steps = []
    actid = {}
    def aid(a):
        return actid.setdefault(id(a), len(actid)+1)
    for i in range(k):
        b = bytes_[i]
        evs = [z3.BitVecVal(0, EVB) for _ in range(E)]; cnt = z3.BitVecVal(0, 4)
        consumed = z3.BoolVal(False)
        def emit(g, code, evs, cnt):
            nevs = [z3.If(z3.And(g, cnt == j), z3.BitVecVal(code, EVB), evs[j]) for j in range(E)]
            return nevs, z3.If(g, cnt+1, cnt)
        for d in range(D):
            active = z3.And(z3.Not(consumed), z3.ULT(st, m.n))
            nst = st; ncons = consumed
            for si, s in enumerate(m.states):
                here = z3.And(active, st == si)
                if si == m.fail:
                    nst = z3.If(here, z3.BitVecVal(FAIL, SB), nst); ncons = z3.If(here, True, ncons); continue
                taken = z3.BoolVal(False)
                # selection: first transition in order whose set contains byte; else the Else transition
                explicit = []
                for t in s['ts']:
                    if s['cp']:
                        c = t['cond']
                        if isinstance(c, nmfu.ElseCondition) or (isinstance(c, nmfu.ConstantCondition) and c.value): g = z3.BoolVal(True)
                        elif isinstance(c, nmfu.ConstantCondition): g = z3.BoolVal(False)
                        else: g = condvar(i, d, c)
                    else:
                        vals = [ord(v) for v in t['on'] if isinstance(v, str)]
                        g = z3.Or([b == v for v in vals]) if vals else z3.BoolVal(False)
                    explicit.append(g)
                elseidx = None
                if not s['cp']:
                    for ti, t in enumerate(s['ts']):
                        if nmfu.DFTransition.Else in t['on']: elseidx = ti; break
                none_explicit = z3.Not(z3.Or(explicit)) if explicit else z3.BoolVal(True)
                prior = z3.BoolVal(False)
                for ti, t in enumerate(s['ts']):
                    g = z3.And(z3.Not(prior), explicit[ti]); prior = z3.Or(prior, explicit[ti])
                    if ti == elseidx: g = z3.Or(g, none_explicit)
                    g = z3.And(here, g)
                    tgt = t['tgt']; fall = t['fall']; term = None
                    for a in t['acts']:
                        evs, cnt = emit(g, aid(a), evs, cnt)
                        if isinstance(a, nmfu.FinishAction): term = DONE
                    if term is not None or tgt < 0:
                        nst = z3.If(g, z3.BitVecVal(DONE, SB), nst); ncons = z3.If(g, True, ncons)
                    else:
                        nst = z3.If(g, z3.BitVecVal(tgt, SB), nst)
                        if not fall: ncons = z3.If(g, True, ncons)
                    taken = z3.Or(taken, g)
                # no transition: accept -> DONE else OK(stuck) -> treat as FAIL pseudo
                stuck = z3.And(here, z3.Not(taken))
                nst = z3.If(stuck, z3.BitVecVal(DONE if si in m.accept else FAIL, SB), nst); ncons = z3.If(stuck, True, ncons)
            st, consumed = nst, ncons
        steps.append((evs, cnt, consumed, st))
    return steps

def main(path, flags, k):
    t0 = time.time()
    pre, post = compile_both(path, flags)
    print("states pre/post", pre.n, post.n, "compile %.2fs" % (time.time()-t0))
    bs = [z3.BitVec(f"b{i}", 8) for i in range(k)]
    cv = {}
    def condvar(i, d, c):
        return cv.setdefault((i, id(c)), z3.Bool(f"c_{i}_{id(c)}"))
    t0 = time.time()
    A = encode(pre, bs, k, condvar); B = encode(post, bs, k, condvar)
    print("encode %.2fs" % (time.time()-t0))
    s = z3.Solver()
    diffs = []
    for (e1, c1, u1, s1), (e2, c2, u2, s2) in zip(A, B):
        diffs.append(z3.Or(c1 != c2, *[a != b for a, b in zip(e1, e2)]))
    unw = z3.Or([z3.Not(u) for (_,_,u,_) in A] + [z3.Not(u) for (_,_,u,_) in B])
    for name, q in (("unwinding", unw), ("trace-diff", z3.Or(diffs))):
        s.push(); s.add(q); t0 = time.time(); r = s.check(); print(name, r, "%.2fs" % (time.time()-t0))
        if r == z3.sat:
            mdl = s.model(); print("  bytes", [mdl.eval(b, model_completion=True) for b in bs])
        s.pop()
main(sys.argv[1], sys.argv[2].split(), int(sys.argv[3]))
