import sys, os, glob, shlex, subprocess, re, collections
sys.path.insert(0, '/repo')
import nmfu
files = sorted(glob.glob('/repo/example/*.nmfu') + glob.glob('/repo/example/test/*.ok.nmfu'))
combos = [("-O0",), ("-O3",), ("-O2","-fallocate-str-space-dynamic-on-demand","-fhook-per-state","-fuse-packed-enums","-fdelete-string-free-memory","-fstrings-as-u8","-findirect-start-ptr","-fstrict-done-token-generation","-feof-support","-fyield-support")]
ops = collections.Counter(); calls = collections.Counter(); nstates = []
os.makedirs('out', exist_ok=True)
for f in files:
    src = open(f).read()
    lines = src.splitlines()
    sa = shlex.split(lines[0][len("// args: "):]) if lines[0].startswith("// args: ") else []
    for ci, c in enumerate(combos):
        try:
            nmfu.ProgramData.load_commandline_flags((*c, *sa, f))
            nmfu.ProgramData.load_source(src)
            pt = nmfu.parser.parse(src, start="start")
            p = nmfu.ParseCtx(pt); p.parse()
            d = nmfu.DfaCompileCtx(p); d.compile()
            g = nmfu.CodegenCtx(d, "ut")
            h = g.generate_header(); s = g.generate_source()
        except Exception as e:
            print("ERR", os.path.basename(f), ci, type(e).__name__, str(e)[:80].replace("\n"," ")); continue
        nstates.append((os.path.basename(f), ci, len(d.dfa.states)))
        dd = f"out/{os.path.basename(f)}.{ci}"; os.makedirs(dd, exist_ok=True)
        open(dd+"/ut.h","w").write(h); open(dd+"/ut.c","w").write(s)
        r = subprocess.run(["clang","-O0","-Xclang","-disable-O0-optnone","-Wall","-Werror","-Wno-unused-label","-S","-emit-llvm","ut.c","-o","ut.ll"],cwd=dd,capture_output=True,text=True)
        if r.returncode: print("CLANGERR", dd, r.stderr[:300]); continue
        subprocess.run(["opt","-S","-mem2reg","ut.ll","-o","ut.m.ll"],cwd=dd,check=True)
        for line in open(dd+"/ut.m.ll"):
            m = re.match(r'\s+(?:%[\w.]+ = )?(\w+)', line)
            if m and not line.startswith(('define','declare','}','attributes','!','target','source','@','%')):
                ops[m.group(1)] += 1
                if m.group(1) == 'call':
                    cm = re.search(r'@([\w.]+)\(', line); calls[cm.group(1) if cm else 'INDIRECT'] += 1
print(ops); print(calls)
print(sorted(nstates, key=lambda x:-x[2])[:12])
