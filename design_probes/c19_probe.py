import sys, time, itertools
sys.path.insert(0,'/repo')
import nmfu, z3
PF = nmfu.ProgramFlag
FL = list(PF)
def resolve(level, present, value, rank, tag):
    """hand transcription of nmfu.py:1453-1488 with state merging"""
    flags = {f: z3.BoolVal(f.default) for f in FL}
    for j in range(level+1):
        for f in nmfu.ProgramData._OPTIMIZE_LEVELS[j]: flags[f] = z3.BoolVal(True)
    for f in FL: flags[f] = z3.If(present[f], value[f], flags[f])
    for it in range(len(FL)+1):
        did = z3.BoolVal(False)
        for k in FL:
            for x in k.implies:
                x = PF(x)
                did = z3.Or(did, z3.And(flags[k], z3.Not(flags[x])))
                flags[x] = z3.Or(flags[x], flags[k])   # note: sequential within one pass, as in the code
    unwound = did
    err = z3.BoolVal(False)
    def aux(flag, g):
        nonlocal err
        for c in flag.exclusive_with:
            c = PF(c)
            raise_c = z3.And(g, z3.Not(err), present[c], value[c])
            setf = z3.And(g, z3.Not(err), z3.Not(z3.And(present[c], value[c])), flags[c])
            err = z3.Or(err, raise_c)
            flags[c] = z3.If(setf, False, flags[c])
        for i in flag.implies: aux(PF(i), g)
    n = len(FL)
    for p in range(n):
        for f in FL:
            if not (f.implies or f.exclusive_with): continue  # aux is a no-op otherwise
            g = z3.And(present[f], rank[f] == p, flags[f])
            aux(f, g)
    return flags, err, unwound
present = {f: z3.Bool(f"p_{f.name}") for f in FL}; value = {f: z3.Bool(f"v_{f.name}") for f in FL}
r1 = {f: z3.Int(f"r1_{f.name}") for f in FL}; r2 = {f: z3.Int(f"r2_{f.name}") for f in FL}
def rk(r): return [z3.Distinct(*r.values())] + [z3.And(0 <= x, x < len(FL)) for x in r.values()]
for level in range(4):
    t0=time.time()
    f1, e1, u1 = resolve(level, present, value, r1, 1); f2, e2, u2 = resolve(level, present, value, r2, 2)
    s = z3.Solver(); s.add(rk(r1)); s.add(rk(r2))
    def q(name, c):
        s.push(); s.add(c); r = s.check(); out = str(r)
        if r == z3.sat:
            m = s.model(); out += " " + str({f.name: bool(m.eval(value[f], model_completion=True)) for f in FL if z3.is_true(m.eval(present[f], model_completion=True))})
            out += " order1=" + str(sorted((m.eval(r1[f]).as_long(), f.name) for f in FL if z3.is_true(m.eval(present[f], model_completion=True))))
        s.pop(); print(f"O{level} {name}: {out}")
    q("unwinding", u1)
    q("implied-off", z3.And(z3.Not(e1), z3.Or([z3.And(f1[f], z3.Not(f1[PF(i)])) for f in FL for i in f.implies])))
    q("exclusive-both-on", z3.And(z3.Not(e1), z3.Or([z3.And(f1[f], f1[PF(x)]) for f in FL for x in f.exclusive_with])))
    q("explicit-both-no-error", z3.And(z3.Not(e1), z3.Or([z3.And(present[f], value[f], present[PF(x)], value[PF(x)]) for f in FL for x in f.exclusive_with])))
    q("order-dependence", z3.Or(e1 != e2, z3.And(z3.Not(e1), z3.Or([f1[f] != f2[f] for f in FL]))))
    print("  %.1fs" % (time.time()-t0))
