import sys, re as pyre
sys.path.insert(0, '/repo')
import nmfu
from typing import List
from collections import defaultdict

def build(regex):
    nmfu.ProgramData.load_commandline_flags(("-O1", "x"))
    m = nmfu.RegexMatch(nmfu.parser.parse('/' + regex + '/', start="regex"))
    err = nmfu.DFState()
    dfa = m.convert(defaultdict(lambda: err))
    # canonicalise into range tables: state -> [(lo,hi,target)], else target
    idx = {s: i for i, s in enumerate(dfa.states)}; idx[err] = -1
    tab = []
    for s in dfa.states:
        rs = []; els = None
        for t in s.transitions:
            vals = sorted(ord(v) for v in t.on_values if isinstance(v, str))
            tg = idx[t.target]
            if nmfu.DFTransition.Else in t.on_values: els = tg
            i = 0
            while i < len(vals):
                j = i
                while j+1 < len(vals) and vals[j+1] == vals[j]+1: j += 1
                rs.append((vals[i], vals[j], tg)); i = j+1
        tab.append((rs, els))
    return tab, idx[dfa.starting_state], {idx[s] for s in dfa.accepting_states}

TAB, START, ACC = build(r'ab+c|a[0-9x]*d')

def run(inp: List[int]) -> int:
    st = START
    for b in inp:
        rs, els = TAB[st]
        nxt = els
        for lo, hi, tg in rs:
            if lo <= b <= hi:
                nxt = tg; break
        if nxt is None or nxt < 0: return -1
        st = nxt
    return 1 if st in ACC else 0

def ref(inp: List[int]) -> int:
    # independent oracle: hand-written matcher for ab+c|a[0-9x]*d with prefix-liveness
    s = inp; n = len(s)
    def live_or_acc():
        if n == 0: return 0
        if s[0] != 97: return -1
        if n == 1: return 0
        # branch 1: b+ c
        if s[1] == 98:
            i = 1
            while i < n and s[i] == 98: i += 1
            if i == n: return 0
            if s[i] == 99 and i == n-1: return 1
            return -1
        i = 1
        while i < n and (48 <= s[i] <= 57 or s[i] == 120): i += 1
        if i == n: return 0
        if s[i] == 100 and i == n-1: return 1
        return -1
    return live_or_acc()

def agree(inp: List[int]) -> bool:
    """
    pre: len(inp) <= K and all(0 <= x <= 255 for x in inp)
    post: _
    """
    return run(inp) == ref(inp)
K = 6
