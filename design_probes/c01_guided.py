import sys, glob, os, random
sys.path.insert(0, __import__('os').path.dirname(__import__('os').path.abspath(__file__))); sys.path.insert(0,'/repo')
import nmfu
from absm_probe import compile_both, Machine, classes, Stop, Else, End
from refsem_probe import run_ref, Unsupported
from collections import Counter
random.seed(int(sys.argv[1]) if len(sys.argv)>1 else 1)
files = sorted(glob.glob('/repo/example/test/*.ok.nmfu')+glob.glob('/repo/example/*.nmfu'))
def guided(post, pctx, cl, n):
    try: m=Machine(post,pctx,True)
    except Stop: return []
    inp=[]
    for _ in range(n):
        if m.done: break
        st=m.st; trs=post.tr.get(st, [])
        cands=[]
        for on,tgt,fall,acts,cond,eh in trs:
            vs=[ord(v) for v in on if isinstance(v,str)]
            if vs and not eh: cands.append(random.choice(vs))
        b = random.choice(cands) if cands and random.random()<0.85 else random.choice(cl)
        inp.append(b)
        try: m.feed(b)
        except Stop: break
    return inp
if __name__=='__main__':
    tot=0; nd=0; dist=Counter()
    for f in files:
        src=open(f).read()
        if 'eof-support' in src.splitlines()[0] or 'macro' in src: continue
        try: pre, post, pctx = compile_both(f, ("-O1",))
        except Exception as e: continue
        tree=nmfu.parser.parse(src, start='start'); cl=classes(post); shown=0
        for trial in range(300):
            inp=guided(post,pctx,cl,random.randint(1,40))
            try:
                r=run_ref(tree, inp); m=Machine(post,pctx,True)
                for b in inp:
                    if m.done: break
                    m.feed(b)
            except Unsupported as e: print("UNSUP", os.path.basename(f), e); break
            except Stop: continue
            tot+=1; dist[r.result.split('_')[0]]+=1; dist['events']+=len(r.trace)
            mt=[e for e in m.trace if e[0] in ('HOOK','YIELD')]; rt=r.trace; mres=m.done or 'INCOMPLETE'
            if r.result=='INCOMPLETE': ok = mres=='INCOMPLETE' and mt==rt[:len(mt)]
            elif r.result=='FAIL': ok = mres=='FAIL' and mt==rt[:len(mt)]
            else:
                fin=[e for e in m.trace if e[0] in ('DONE','FINISH')]; msnap=fin[-1][-1] if fin else None
                ok = mres==r.result and mt==rt and msnap==r.snap()
                if not ok and r.result=='DONE' and mres=='FAIL' and r.pos<len(inp) and mt==rt: ok=True; dist['trailing-byte-after-open-ended-end']+=1
            if not ok:
                nd+=1
                if shown<2:
                    shown+=1; print("DIFF", os.path.basename(f), bytes(inp), "\n   ref ", r.result, r.pos, rt[-2:], r.snap(), "\n   mach", mres, m.consumed, mt[-2:], m.snap())
    print("runs",tot,"diffs",nd, dict(dist))
