"""Probe: concrete reference interpreter of the nmfu statement language on the lark parse tree
(own semantics; uses only nmfu.parser for syntax) -- validated on the '// ok|bad|finish-' annotations."""
import sys, glob, os, shlex, random
sys.path.insert(0, '/repo'); sys.path.insert(0, __import__('os').path.dirname(__import__('os').path.abspath(__file__)))
import nmfu, lark
from refre_probe import conv as re_conv, deriv, nullable, EMPTY, EPS, cat, alt, star, ALL
import string as _s

class NoMatch(Exception): pass
class OutOfSpace(Exception): pass
class Incomplete(Exception): pass
class Finish(Exception):
    def __init__(s, code): s.code = code
class Break(Exception):
    def __init__(s, name): s.name = name
class Unsupported(Exception): pass
END = 'END'

def unescape(tok):
    c = tok[1:-1]; out = []; i = 0
    while i < len(c):
        if c[i] != '\\': out.append(ord(c[i])); i += 1
        else:
            i += 1
            if c[i] == 'x': out.append(int(c[i+1:i+3], 16)); i += 3
            else: out.append({'n':10,'r':13,'t':9,'b':8,'0':0,'"':34,'\\':92}[c[i]]); i += 1
    return out
def charconst(tok):
    if len(tok) == 3: return ord(tok[1])
    return {'n':10,'r':13,'t':9,'b':8,'0':0,"'":39,'\\':92}.get(tok[2], ord(tok[2]))
def intlit(t):
    t = t.replace('+','') if t[0] == '+' else t
    neg = t.startswith('-'); t = t.lstrip('-')
    v = int(t[2:], 16) if t.startswith('0x') else int(t[2:], 2) if t.startswith('0b') else int(t)
    return -v if neg else v
def lit(bs): 
    r = EPS
    for b in reversed(bs): r = cat(('set', frozenset([b])), r)
    return r
def casei(bs):
    r = EPS
    for b in reversed(bs):
        ch = chr(b); s = {b}
        if ch in _s.ascii_letters: s = {ord(ch.lower()), ord(ch.upper())}
        r = cat(('set', frozenset(s)), r)
    return r
def binre(t):
    d = t.data.replace('binary_', '') if not isinstance(t, lark.Token) else None
    byte = lambda tok: int(tok.value, 16)
    if isinstance(t, lark.Token): return ('set', frozenset([byte(t)]))
    if d in ('regex', 'regex_group'):
        r = EPS
        for c in t.children: r = cat(r, binre(c))
        return r
    if d == 'regex_alternation':
        r = EMPTY
        for c in t.children: r = alt(r, binre(c))
        return r
    if d == 'regex_raw_match': return ('set', frozenset([byte(t.children[0])]))
    if d == 'regex_any': return ('set', ALL)
    if d in ('regex_set', 'regex_inverted_set'):
        s = set()
        for c in t.children:
            if isinstance(c, lark.Token): s.add(byte(c))
            else: s |= set(range(byte(c.children[0]), byte(c.children[1]) + 1))
        return ('set', frozenset(s) if d == 'regex_set' else ALL - frozenset(s))
    a = binre(t.children[0])
    if d == 'regex_operation': return {'*': star(a), '+': cat(a, star(a)), '?': alt(a, EPS)}[t.children[1].value]
    n = int(t.children[1].value)
    if d == 'regex_exact_repeat':
        r = EPS
        for _ in range(n): r = cat(r, a)
        return r
    if d == 'regex_at_least_repeat':
        r = star(a)
        for _ in range(n): r = cat(a, r)
        return r
    m = int(t.children[2].value); r = EPS
    for _ in range(m - n): r = alt(EPS, cat(a, r))
    for _ in range(n): r = cat(a, r)
    return r

def first(r):
    t=r[0]
    if t in ('eps','empty'): return frozenset()
    if t=='set': return r[1]
    if t=='cat': return first(r[1]) | (first(r[2]) if nullable(r[1]) else frozenset())
    if t=='alt': return first(r[1]) | first(r[2])
    if t=='star': return first(r[1])
class Ref:
    def __init__(s, tree, inp, end=False):
        s.inp = list(inp); s.end = end; s.pos = 0; s.trace = []; s.last = 0
        s.outs = {}; s.spec = {}; s.hooks = set(); s.each = []; s.pending_mark = 0
        for d in tree.find_data('out_decl'): s.decl(d)
        for h in tree.find_data('hook_decl'): s.hooks.add(h.children[0].value)
        if list(tree.find_data('macro_decl')): raise Unsupported('macro')
        s.body = next(tree.find_data('parser_decl')).children
    def decl(s, d):
        ty = d.children[0]; name = d.children[1].value; sp = {'kind': ty.data}
        if ty.data in ('str_type', 'unterm_str_type'):
            n = intlit(ty.children[0].value); sp['cap'] = n - 1 if ty.data == 'str_type' else n; v = bytearray()
            if len(d.children) == 3:
                a = d.children[2]
                v = bytearray(unescape(a.children[0].value)) if a.data == 'string_const' else bytearray(int(x, 16) for x in a.children[0].value[1:-1].split())
        elif ty.data == 'raw_type': sp['cap'] = {'uint64_t':8,'int64_t':8,'uint32_t':4,'int32_t':4,'uint16_t':2,'uint8_t':1}.get(ty.children[0].value, 4); v = bytearray()
        elif ty.data == 'enum_type': sp['vals'] = [c.value for c in ty.children]; v = 0
        else:
            sp['signed'] = True; sp['w'] = 4
            for a in ty.children:
                if a.data == 'signed_attr': sp['signed'] = a.children[0].value == 'signed'
                else: sp['w'] = int(a.children[0].value)
            v = 0
        s.spec[name] = sp; s.outs[name] = v
        if len(d.children) == 3 and not isinstance(v, bytearray): s.outs[name] = s.store(name, s.expr(d.children[2], name))
    def store(s, name, v):
        sp = s.spec[name]
        if sp['kind'] == 'bool_type': return 1 if v else 0
        if sp['kind'] == 'int_type':
            w = sp['w'] * 8; v &= (1 << w) - 1
            if sp['signed'] and v >> (w - 1): v -= 1 << w
        return v
    # ---- expressions (own evaluator on the parse tree, C precedence given by the tree)
    def expr(s, e, target=None):
        d = e.data; ch = e.children
        if d in ('number_const', 'math_num'): return intlit(ch[0].value)
        if d in ('char_const', 'math_char_const'): return charconst(ch[0].value)
        if d == 'bool_const': return 1 if ch[0].value == 'true' else 0
        if d in ('identifier_const', 'math_var'):
            n = ch[0].value
            if target and s.spec.get(target, {}).get('kind') == 'enum_type' and n in s.spec[target]['vals']: return s.spec[target]['vals'].index(n)
            if n in s.outs: return s.outs[n]
            raise Unsupported('ident ' + n)
        if d == 'math_str_len': return len(s.outs[ch[0].value])
        if d == 'math_str_index':
            i = s.expr(ch[1]); b = s.outs[ch[0].value]; return b[i] if 0 <= i < len(b) else 0
        if d == 'builtin_math_var': return s.last
        if d == 'not_expr': return int(not s.expr(ch[0], target))
        if d == 'negate_expr': return -s.expr(ch[0], target)
        if d == 'sum_expr':
            t = s.expr(ch[0], target)
            for op, c in zip(ch[1::2], ch[2::2]): t = t + s.expr(c, target) if op.value == '+' else t - s.expr(c, target)
            return t
        if d == 'mul_expr':
            t = s.expr(ch[0], target)
            for op, c in zip(ch[1::2], ch[2::2]):
                v = s.expr(c, target)
                if op.value == '*': t *= v
                elif v == 0: raise Unsupported('div0')
                elif op.value == '/': t = int(t / v)
                else: t = t - v * int(t / v)
            return t
        if d == 'comp_expr':
            a = s.expr(ch[0]); tn = ch[0].children[0].value if ch[0].data == 'math_var' else None
            b = s.expr(ch[2], tn); o = ch[1].value
            return int({'<': a < b, '>': a > b, '<=': a <= b, '>=': a >= b, '==': a == b, '!=': a != b}[o])
        if d == 'shift_expr':
            a, b = s.expr(ch[0], target), s.expr(ch[2], target); return a << b if ch[1].value == '<<' else a >> b
        if d in ('bit_or_expr', 'bit_xor_expr', 'bit_and_expr'):
            t = s.expr(ch[0], target)
            for c in ch[1:]:
                v = s.expr(c, target); t = t | v if d == 'bit_or_expr' else t ^ v if d == 'bit_xor_expr' else t & v
            return t
        if d == 'conjunction_expr': return int(all(s.expr(c, target) for c in ch))
        if d == 'disjunction_expr': return int(any(s.expr(c, target) for c in ch))
        raise Unsupported('expr ' + d)
    # ---- patterns
    def pat(s, e):
        d = e.data
        if d == 'string_const': return lit(unescape(e.children[0].value))
        if d == 'string_case_const': return casei(unescape(e.children[0].value))
        if d == 'binary_string_const': return lit([int(a + b, 16) for a, b in zip(*[iter([c for c in e.children[0].value[1:-1] if c in _s.hexdigits])] * 2)])
        if d == 'regex': return re_conv(e)
        if d == 'binary_regex': return binre(e)
        if d == 'concat_expr':
            r = EPS
            for c in e.children:
                if c.data == 'end_expr': raise Unsupported('end in concat')
                r = cat(r, s.pat(c))
            return r
        raise Unsupported('pattern ' + d)
    def peek(s):
        if s.pos < len(s.inp): return s.inp[s.pos]
        if s.end: return END
        raise Incomplete()
    def consume(s, on_byte=None):
        b = s.inp[s.pos]; s.pos += 1; s.last = b
        for acts in s.each:
            for a in acts: s.stmt(a)
        if on_byte: on_byte(b)
    def snap(s): return tuple((k, bytes(v) if isinstance(v, bytearray) else v) for k, v in sorted(s.outs.items()))
    def match(s, r, on_byte=None):
        """greedy with one byte of look-ahead"""
        while True:
            if not first(r):
                if nullable(r): return
                raise NoMatch()
            c = s.peek()
            d = deriv(r, c) if c != END else EMPTY
            if d == EMPTY:
                if nullable(r): return
                raise NoMatch()
            s.consume(on_byte); r = d
    def appender(s, name):
        def f(b):
            if len(s.outs[name]) >= s.spec[name]['cap']:
                s.pos -= 1  # the byte that does not fit is not consumed (each-actions have run: known imprecision of this probe)
                raise OutOfSpace()
            s.outs[name].append(b)
        return f
    # ---- statements
    def block(s, stmts):
        for st in stmts: s.stmt(st)
    def stmt(s, st):
        d = st.data; ch = st.children
        if d == 'match_stmt':
            if ch[0].data == 'end_expr':
                if s.peek() == END: s.pos += 0; s.end = False; s.ended = True; return
                raise NoMatch()
            return s.match(s.pat(ch[0]))
        if d == 'wait_stmt':
            if ch[0].data == 'end_expr':
                while s.peek() != END: s.consume()
                s.end = False; return
            r0 = s.pat(ch[0]); r = r0
            while True:
                if r == EPS: return
                c = s.peek()
                if c == END: raise Incomplete()
                dd = deriv(r, c)
                if dd == EMPTY:
                    if nullable(r): return
                    if r is r0 or r == r0: s.consume()
                    r = r0; continue
                s.consume(); r = dd
        if d in ('assign_stmt', 'append_stmt'):
            name = ch[0].value; sp = s.spec[name]; e = ch[1]
            if d == 'append_stmt':
                if e.data in ('string_const','string_case_const','binary_string_const','regex','binary_regex','concat_expr'): return s.match(s.pat(e), s.appender(name))
                v = s.expr(e) & 255
                if len(s.outs[name]) >= sp['cap']: raise OutOfSpace()
                s.outs[name].append(v); return
            if 'cap' in sp: s.outs[name] = bytearray(unescape(e.children[0].value)); return
            s.outs[name] = s.store(name, s.expr(e, name)); return
        if d == 'delete_stmt': s.outs[ch[0].value] = bytearray(); return
        if d == 'call_stmt':
            if ch[0].value in s.hooks: s.trace.append(('HOOK', ch[0].value, s.snap())); return
            raise Unsupported('macro call')
        if d == 'finish_stmt': raise Finish(None)
        if d == 'custom_finish_stmt': raise Finish(ch[0].value)
        if d == 'custom_yield_stmt': s.trace.append(('YIELD', ch[0].value, s.snap())); return
        if d == 'break_stmt': raise Break(ch[0].value if ch else None)
        if d == 'loop_stmt':
            name = None; body = ch
            if isinstance(ch[0], lark.Token): name = ch[0].value; body = ch[1:]
            while True:
                try: s.block(body)
                except Break as b:
                    if b.name is None or b.name == name: return
                    raise
        if d == 'optional_stmt':
            save = (s.pos, {k: (bytearray(v) if isinstance(v, bytearray) else v) for k, v in s.outs.items()}, len(s.trace), s.last)
            try: s.block(ch)
            except NoMatch:
                if s.pos == save[0]:
                    s.pos, s.outs, s.last = save[0], save[1], save[3]; del s.trace[save[2]:]; return
                raise
            return
        if d == 'try_stmt':
            cb = ch[-1]; hs = {'nomatch', 'outofspace'}; hb = cb.children
            if hb and isinstance(hb[0], lark.Tree) and hb[0].data == 'catch_options': hs = {t.value for t in hb[0].children}; hb = hb[1:]
            try: s.block(ch[:-1])
            except NoMatch:
                if 'nomatch' not in hs: raise
                s.block(hb)
            except OutOfSpace:
                if 'outofspace' not in hs: raise
                s.block(hb)
            return
        if d == 'foreach_stmt':
            s.each.append(ch[-1].children)
            try: s.block(ch[:-1])
            finally: s.each.pop()
            return
        if d == 'if_stmt':
            for c in ch:
                if c.data == 'else_condition': return s.block(c.children)
                if s.expr(c.children[0]): return s.block(c.children[1:])
            return
        if d in ('case_stmt', 'greedy_case_stmt'): return s.case(st, d == 'greedy_case_stmt')
        raise Unsupported('stmt ' + d)
    def case(s, st, greedy):
        clauses = []  # (prio, [patterns], has_else, has_end, body)
        def add(cl, prio):
            pats = []; els = False; hend = False; body = []
            for c in cl.children:
                if isinstance(c, lark.Tree) and c.data == 'else_predicate': els = True
                elif isinstance(c, lark.Tree) and c.data == 'expr_predicate':
                    if c.children[0].data == 'end_expr': hend = True
                    else: pats.append(s.pat(c.children[0]))
                else: body.append(c)
            clauses.append((prio, pats, els, hend, body))
        for b in st.children:
            if b.data == 'case_clause': add(b, 0)
            else:
                for cl in b.children[1:]: add(cl, int(b.children[0].value))
        live = [(i, r) for i, cl in enumerate(clauses) for r in cl[1]]
        start = s.pos
        while True:
            if live and not any(first(r) for i, r in live) and any(nullable(r) for i, r in live):
                acc = [(clauses[i][0], i) for i, r in live if nullable(r)]
                return s.block(clauses[max(acc)[1]][4])
            c = s.peek()
            nxt = [(i, deriv(r, c)) for i, r in live] if c != END else []
            nxt = [(i, r) for i, r in nxt if r != EMPTY]
            if not nxt:
                acc = [(clauses[i][0], i) for i, r in live if nullable(r)]
                if c == END and s.pos == start:
                    for i, cl in enumerate(clauses):
                        if cl[3]: s.end = False; return s.block(cl[4])
                if acc and s.pos > start or (acc and False):
                    return s.block(clauses[max(acc)[1]][4])
                for cl in clauses:
                    if cl[2]: return s.block(cl[4])
                raise NoMatch()
            s.consume(); live = nxt

def run_ref(tree, inp, end=False):
    r = Ref(tree, inp, end)
    try:
        r.block(r.body); r.result = 'DONE'
    except Finish as f:
        r.result = 'FINISH_' + f.code if f.code else 'DONE'; r.fin = True
    except (NoMatch, OutOfSpace): r.result = 'FAIL'
    except Incomplete: r.result = 'INCOMPLETE'
    except Break: r.result = 'BREAK?'
    return r

if __name__ == '__main__':
    files = sorted(glob.glob('/repo/example/test/*.ok.nmfu'))
    good = bad = 0
    for f in files:
        src = open(f).read(); lines = src.splitlines()
        tree = nmfu.parser.parse(src, start='start')
        cases = []
        for l in lines:
            if l.startswith('// ok: '): cases.append(('ok', l[7:]))
            elif l.startswith('// bad: '): cases.append(('bad', l[8:]))
            elif l.startswith('// finish-'): cases.append((l[10:l.index(':')], l[l.index(' ', 3) + 1:]))
        for kind, text in cases:
            try: r = run_ref(tree, text.encode('latin-1'))
            except Unsupported as e: print('UNSUP', os.path.basename(f), e); break
            okish = r.result == 'DONE' or r.result.startswith('FINISH') 
            full = r.pos == len(text) or r.result.startswith('FINISH') or (r.result=='DONE' and getattr(r,'fin',False))
            verdict = ('ok' if okish and full else 'bad') if kind in ('ok', 'bad') else (r.result[7:] if r.result.startswith('FINISH_') and full else r.result)
            if verdict == kind: good += 1
            else: bad += 1; print('MISMATCH', os.path.basename(f), kind, repr(text), '->', r.result, 'pos', r.pos, '/', len(text))
    print('annotation cases agree', good, 'disagree', bad)
