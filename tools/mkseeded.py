#!/usr/bin/env python3
"""Collects confirmed seeded changes into /verif/seeded/<id>/ (patch.diff, demo.sh, notes.md, meta.json).
usage: mkseeded.py <matrix json dir> — reads /tmp/wt/<P>/_seed/m<k>.* and /tmp/mutB_<P>_m<k>.json (results of tools/seedtest.py)."""
import os, sys, json, shutil, re, glob

V = os.path.dirname(os.path.dirname(os.path.abspath(__file__)))
NEEDS = {
 'C01-m1': '-O3 (shortcircuit-fallthroughs) + a loop whose body starts with `wait` / an inverted-class regex after a plain match + an input where the next match starts right after a completed iteration (abab)',
 'C01-m2': 'an action-only `if cond { break; }` on a consuming transition + the condition true on that byte + at least one more byte in the same feed call',
 'C02-m1': 'a conditional break inside an action-only if on a character-consuming transition and a chunk cut exactly after the breaking byte (whole-chunk run misbehaves, split run does not)',
 'C02-m2': '-O3 -fyield-support without zero-length support, every yield following a fixed-length match, and a chunk cut right after a yielding byte (re-invocation with start == end reads past end)',
 'C03-m1': 'an unterminated str[256] (or str[65536]) and at least 256 appended bytes: the length counter wraps, the out-of-space test never fires; no out-of-bounds access, so sanitizers stay silent',
 'C03-m2': '-fallocate-str-space-dynamic-on-demand, a terminated string first allocated by an append, filled to exact capacity (terminator one past the block)',
 'C04-m1': 'a zero-width loop path whose only exit is an action-only `if .. { break; }` in a nomatch handler + a data state making the condition false + a non-matching byte',
 'C04-m2': '-O3 -fyield-support + a case arm with an action before the yield on a self-looping state: the yield is returned for ever from the same offset',
 'C05-m1': 'collapse-transition-ranges on (-O2/-O3) + a class with a short run, a gap and a long run (e.g. [A-Za-z_]) + a gap byte (0x60)',
 'C05-m2': 'shortcircuit-fallthroughs on + a loop whose body starts with a consuming else (wait) + two adjacent separators',
 'C06-m1': 'same mechanism as C01-m2 seen at the C level: conditional break followed by more bytes in the same feed call',
 'C06-m2': 'range collapsing on + short run / gap / long run class + a gap byte',
 'C07-m1': 'a bracket set containing two negated escapes ([\\\\W\\\\D]) + a byte in exactly one of them',
 'C07-m2': 'a regex made only of wildcards + -feof-support + end() arriving exactly one byte short',
 'C08-m1': 'greedy case + action-only/empty clause with prio P>0 + competing clause with a consuming body and 0<Q<P + an input matching both',
 'C08-m2': 'two clause patterns with partially overlapping classes at the same offset + a byte from the non-shared part',
 'C09-m1': 'a statement with >= 2 accepting states, the ambiguous byte continuing only a non-first accepting state, followed by a statement starting with a negated class or `.`',
 'C09-m2': 'greedy case where one string finishes >= 3 clauses, the two highest tie and a third is lower',
 'C10-m1': '-O3 -fyield-support + yield as the last statement of a case arm into an accept state that still has live transitions (program-ending optional)',
 'C10-m2': '-O3 -fyield-support + `if cond { break; } yield T;` in a loop, break actually taken (pointer advanced twice)',
 'C12-m1': 'range collapsing with different thresholds + short run / gap / long run class + gap byte',
 'C12-m2': 'a string element read in an integer expression + a stored byte >= 0x80 + char (not u8) strings',
 'C13-m1': 'a nested macro call forwarding the caller\'s parameters in a different order under the same names',
 'C13-m2': 'an `expr` macro argument bound to a bare enum constant and assigned to an enum output (directly or forwarded)',
 'C14-m1': 'a character append whose top-level operator is / % or >> with a left operand outside char range',
 'C14-m2': '`!` applied to an integer operand in a condition + operand value other than 0/1',
 'C15-m1': 'a case-insensitive literal containing one of [ \\\\ ] ^ _ ` + the bogus partner byte in the input',
 'C15-m2': 'a stored string literal with a control byte immediately followed by a digit 0-7',
 'C16-m1': '-O3 + wait on a literal whose second byte equals its first (aab) + input aaaab',
 'C16-m2': 'wait on a regex with a negated class whose excluded byte is also the pattern\'s first byte + that byte after a partial match',
 'C17-m1': '-O3 + an `end` pattern reachable only through a fallthrough into a state with both an End arm and a consuming Else (wait end in a handler) + end() inside the try body',
 'C17-m2': 'a regex made only of wildcards + end() exactly one byte short of the record',
 'C18-m1': 'a flag implying another + an explicit "off" for the implied flag: flag resolution never returns',
 'C18-m2': 'a case-insensitive constant containing a non-ASCII alphabetic character (\\\\xe9): internal ValueError',
 'C19-m1': '-fallocate-str-space-in-struct given before -fallocate-str-space-dynamic-on-demand: order-dependent, inconsistent configuration accepted',
 'C19-m2': 'a negative -O level (-O-1) is silently accepted',
 'C20-m1': 'greedy case with a 3-way finish where the two best tie: winner depends on set iteration order (hash seed / addresses)',
 'C20-m2': '-O3 + inverted class inside a try whose handler starts by matching an excluded byte: rewrite depends on which symbol list(set) yields first',
}


def main():
    out = os.path.join(V, 'seeded')
    os.makedirs(out, exist_ok=True)
    table = []
    for p in sorted(glob.glob('/tmp/wt/C*/_seed/m?.patch.diff')):
        P = p.split('/')[3]
        m = os.path.basename(p).split('.')[0]
        sid = f'{P}-{m}'
        res_f = f'/tmp/mutB_{P}_{m}.json'
        res = json.load(open(res_f)) if os.path.exists(res_f) and os.path.getsize(res_f) else {}
        d = os.path.join(out, sid)
        os.makedirs(d, exist_ok=True)
        shutil.copy(p, os.path.join(d, 'patch.diff'))
        demo = f'/tmp/wt/{P}/_seed/{m}.demo.sh'
        if sid == 'C13-m1' and os.path.exists('/tmp/c13m1/demo.sh'):
            demo = '/tmp/c13m1/demo.sh'
        shutil.copy(demo, os.path.join(d, 'demo.sh'))
        os.chmod(os.path.join(d, 'demo.sh'), 0o755)
        notes = f'/tmp/wt/{P}/_seed/{m}.notes.md'
        if os.path.exists(notes):
            shutil.copy(notes, os.path.join(d, 'notes.md'))
        caught = sorted(k for k, v in res.items() if isinstance(v, dict) and v.get('exit') == 1 and v.get('violations', 0) > 0)
        missed = sorted(k for k, v in res.items() if isinstance(v, dict) and not (v.get('exit') == 1 and v.get('violations', 0) > 0))
        meta = {'id': sid, 'property': P, 'breaks': P, 'needs_to_manifest': NEEDS.get(sid, 'see notes.md'),
                'origin': 'independent sub-agent given only the property text and a scratch worktree',
                'confirmed': {'patch_applies_to_current_repo': True, 'test_suite_with_change': '138 passed', 'demo_with_change': 'exit 1', 'demo_on_unmodified_tree': 'exit 0',
                              'how': 'scratch copy of /repo: git apply patch.diff; /venv/bin/python -m pytest -q -n 3; sh demo.sh <copy>; sh demo.sh /repo'},
                'checks_run': {k: {'exit': v.get('exit'), 'violations': v.get('violations'), 'first': (v.get('first') or [''])[0][:240]} for k, v in res.items() if isinstance(v, dict)},
                'caught_by': caught, 'not_caught_by': missed,
                'ran': f'python3 tools/seedtest.py seeded/{sid}/patch.diff ' + ' '.join(res.keys()) + '   (copies /repo, applies the patch, runs ./check <id> --tier quick with VERIF_REPO pointing at the copy)'}
        if sid == 'C13-m1':
            meta['confirmed']['note'] = 'the sub-agent\'s own demo no longer fails after the repo\'s macro-forwarding fix changed the patched function; demo.sh here is our replacement demonstration (same change, verified exit 1 / exit 0)'
        json.dump(meta, open(os.path.join(d, 'meta.json'), 'w'), indent=1)
        table.append((sid, caught, missed))
    for t in table:
        print(t)


if __name__ == '__main__':
    main()
