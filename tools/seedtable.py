#!/usr/bin/env python3
"""prints the DESIGN §12 table rows for the seeded changes given on the command line (ids), from their meta.json"""
import sys, json, os
V = os.path.dirname(os.path.dirname(os.path.abspath(__file__)))
for sid in sys.argv[1:]:
    m = json.load(open(os.path.join(V, 'seeded', sid, 'meta.json')))
    after = m.get('caught_only_after_strengthening', [])
    caught = ', '.join(c + ('*' if c in after else '') for c in m['caught_by'])
    print(f"| {sid} | {m['property']} | {caught} | {', '.join(m['not_caught_by'])} | {m['needs_to_manifest']} |")
