#!/usr/bin/env python3
"""Run checks against a seeded change: copies /repo to a scratch directory, applies the patch there, runs the given checks
with VERIF_REPO pointing at the copy, prints exit codes and VIOLATION lines, removes the copy.
usage: tools/seedtest.py <patch.diff> [--tier quick|thorough] C01 C02 ...        (or: --all)
       tools/seedtest.py --seeded            run every /verif/seeded/<id>/ against the checks named in its meta.json"""
import sys, os, subprocess, tempfile, shutil, json, time, glob

V = os.path.dirname(os.path.dirname(os.path.abspath(__file__)))
ALL = ['C01', 'C02', 'C03', 'C04', 'C05', 'C06', 'C07', 'C08', 'C09', 'C10', 'C12', 'C13', 'C14', 'C15', 'C16', 'C17', 'C18', 'C19', 'C20']


def run(patch, checks, tier='quick', keep=False):
    d = tempfile.mkdtemp(prefix='seedrepo-')
    repo = os.path.join(d, 'repo')
    shutil.copytree('/repo', repo, ignore=shutil.ignore_patterns('__pycache__', '.pytest_cache'))
    r = subprocess.run(['git', '-C', repo, 'apply', os.path.abspath(patch)], capture_output=True, text=True)
    if r.returncode != 0:
        shutil.rmtree(d, ignore_errors=True)
        return {'error': 'patch does not apply: ' + r.stderr[:300]}
    res = {}
    env = dict(os.environ, VERIF_REPO=repo, VERIF_EVIDENCE_DIR=os.path.join(d, 'evidence'), VERIF_REPLAYS_DIR=os.path.join(d, 'replays'))
    for c in checks:
        t = time.time()
        p = subprocess.run([os.path.join(V, 'check'), c, '--tier', tier], cwd=V, env=env, capture_output=True, text=True)
        lines = [l for l in p.stdout.splitlines() if l.startswith(('VIOLATION', '  ' + c, 'KNOWN'))]
        res[c] = {'exit': p.returncode, 'wall': round(time.time() - t, 1), 'violations': sum(1 for l in lines if l.startswith('VIOLATION')),
                  'first': [l[:300] for l in lines if l.startswith('  ' + c)][:2], 'harness': [l[:200] for l in p.stderr.splitlines() if 'HARNESS' in l or 'INCONCL' in l][:2]}
    if not keep:
        shutil.rmtree(d, ignore_errors=True)
    return res


def main():
    a = sys.argv[1:]
    tier = 'quick'
    if '--tier' in a:
        i = a.index('--tier'); tier = a[i + 1]; del a[i:i + 2]
    if a and a[0] == '--seeded':
        out = {}
        for m in sorted(glob.glob(os.path.join(V, 'seeded', '*', 'meta.json'))):
            meta = json.load(open(m))
            sid = os.path.basename(os.path.dirname(m))
            checks = a[1:] or meta.get('expected_to_catch') or [meta['property']]
            r = run(os.path.join(os.path.dirname(m), 'patch.diff'), checks, tier)
            out[sid] = r
            print(sid, json.dumps(r)[:600], flush=True)
        return
    patch = a[0]
    checks = ALL if '--all' in a else a[1:]
    r = run(patch, checks, tier)
    print(json.dumps(r, indent=1))


if __name__ == '__main__':
    main()
