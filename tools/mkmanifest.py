#!/usr/bin/env python3
"""Regenerates /verif/MANIFEST.json from the table below (only checks whose module exists are claimed)."""
import json, os, subprocess
V = os.path.dirname(os.path.dirname(os.path.abspath(__file__)))

# id: (level category, technique, level text, level note, design ref)
T = {
 'C01': ('model_checking', 'bounded symbolic execution (z3 path enumeration) of a reference interpreter and of the compiled DFA; trace-inequality queries',
         'For each enumerated program the solver decides, for ALL inputs up to K bytes (+ end of input), that the event trace of the abstract machine over the real compiled DFA is an allowed variant of the reference interpreter\'s trace.',
         'Programs are enumerated (corpus + generator), not symbolic; inputs, lengths and all data are symbolic up to K. Trusted: refsem oracle (validated on the repo\'s annotated examples every run), absm, z3.', '§4 C01'),
 'C02': ('model_checking', 'LLVM-IR symbolic execution of emitted <p>_feed over all chunk compositions from an arbitrary invariant pre-state; z3 equality queries',
         'From every control state with arbitrary data within the representation invariant, all compositions of a symbolic chunk of L bytes give the same struct, events, codes and offsets as the single call (solver-decided for all bytes/data).',
         'Programs (corpus + seeded generated family engines/gen_l3) x configs enumerated; chunk <= L bytes; longer chunks follow by the induction argument of DESIGN §4 C02 (not a solver claim). malloc never fails; hooks are pure observers.', '§4 C02'),
 'C03': ('model_checking', 'LLVM-IR symbolic execution with memory-safety proof obligations (in-bounds, live, writable, no UB) + representation-invariant induction; CrossHair on size/type kernels',
         'From every control state and arbitrary invariant data, one feed of 1-2 symbolic bytes / one end / free generates only dischargeable safety obligations and re-establishes the invariant; start() establishes it.',
         'Programs x storage configs enumerated. Stubs: malloc returns fresh live object, never NULL; hooks do not touch the struct. Sub-object bounds as in DESIGN §2/E3.', '§4 C03'),
 'C04': ('model_checking', 'unwinding assertions on the re-dispatch loop of emitted C (LLVM-IR symbolic execution) and of the abstract machine, all states x symbolic byte/data',
         'No feasible path performs more than N+2 non-consuming moves for one symbol, for every (state, byte|end, data); yield re-invocations bounded likewise.',
         'Programs x configs enumerated; data within Inv. Compile-time clause: corpus/cycle/*.nmfu (syntactic non-consuming-cycle candidates) must be rejected by the compiler, any accepted one must pass the unwinding assertions; yield clause: a 1-byte chunk driven with re-invocation after each yield must stop yielding within N+1 calls.', '§4 C04'),
 'C05': ('translation_validation', 'solver-checked one-step simulation (identity relation) between the pre- and post-optimisation DFA of one real compilation, eager normal form',
         'For every state present in both machines, every byte/End and all data, one normalised step yields equal events, outputs, consumption and successor: equality of behaviour on inputs of every length by induction.',
         'Programs x optimisation-flag subsets x thresholds enumerated; on a step difference a bounded run from start() decides (only replayed differences are violations).', '§4 C05'),
 'C06': ('translation_validation', 'LLVM-IR symbolic execution of emitted C vs abstract machine over the same DFA object; per-state z3 equivalence queries over symbolic byte and data',
         'For every control-state index, a fully symbolic byte (and End) and all data within Inv, the emitted C takes the same transition with the same effects, consumption and result code as the abstract machine over the DFA it was generated from.',
         'Programs (corpus + seeded generated family engines/gen_l3) x codegen configs enumerated; one symbol per query; expressions restricted to C-defined behaviour.', '§4 C06'),
 'C07': ('model_checking', 'z3-verified bisimulation certificate between the compiled regex machine and a Brzozowski-derivative automaton, byte symbolic; if-converted class algebra as 256-bit vectors',
         'For each regex the solver verifies for every related state pair and EVERY byte/End that acceptance, death and successor agree (language equality, no length bound); class algebra methods proved for all member sets.',
         'Regexes enumerated (all ASTs up to a size bound + generated). Oracle: own derivative automaton (refre).', '§4 C07'),
 'C08': ('model_checking', 'z3-verified certificate + BMC between the compiled case machine and a parallel product of derivative automata',
         'For each clause set, for every input the marker reached is that of the clause whose pattern equals the consumed bytes; else/no-match exactly when all patterns are dead, at the offending byte; greedy = longest then priority.',
         'Clause sets enumerated (generated); byte symbolic.', '§4 C08'),
 'C09': ('model_checking', 'z3 ambiguity-witness queries (bounded length) over derivative automata against the compiler\'s accept verdict',
         'For every accepted generated clause set / statement pair the solver finds no ambiguity witness up to K bytes.',
         'Programs enumerated; witness length <= K. Converse (unambiguous but rejected) not checked.', '§4 C09'),
 'C10': ('model_checking', 'LLVM-IR symbolic execution of feed/end call sequences from arbitrary invariant pre-state vs abstract machine consumed count',
         'OK => whole chunk consumed; FAIL absorbing (after feed and after end(): one more feed of any byte / one more end() return FAIL); DONE/FINISH iff abstract machine finishes; indirect pointer positions per code; solver-decided for all bytes/data within bounds.',
         'Programs x configs enumerated; <= 3 calls x <= 3 bytes (quick: 2 bytes; the two programs with heavy multi-byte arithmetic always 2 bytes from a seeded subset of states).', '§4 C10'),
 'C12': ('translation_validation', 'relational LLVM-IR symbolic execution of two builds differing only in representation options, inductive alpha-related step',
         'From alpha-related arbitrary pre-states one symbolic byte / end gives equal codes, alpha-related post-states and equal hook sequences.',
         'Programs x option pairs enumerated; states of the two builds are paired by a structural correspondence (state numbering is not stable across compilations) which the solver then verifies step by step; inputs on which the program reads unspecified buffer content or has undefined arithmetic are excluded. A memory fault in only one of the two builds is reported when the engine finds an input through the public API that reaches the pre-state (both builds are then replayed from start()); faults in both builds are left to C03.', '§4 C12'),
 'C13': ('translation_validation', 'two real compilations (macro program vs own textual expansion) compared by z3 one-step simulation / BMC on the compiled DFAs',
         'Verdict equality and, when accepted, solver-decided trace equality for all inputs (certificate) or up to K bytes (BMC).',
         'Program pairs enumerated (generator + corpus).', '§4 C13'),
 'C14': ('other', 'LLVM-IR symbolic execution of the emitted expression vs own C-semantics evaluator in z3 bit-vectors over full-width symbolic variables',
         'For every enumerated expression tree and all variable values with C-defined behaviour, stored value / branch taken equals the C value of the source expression.',
         'Expression trees enumerated (all operator pairs + generated, literal string indexes at and beyond the capacity); literals < 2^31. A path on which the emitted expression code leaves the object it indexes is a difference.', '§4 C14'),
 'C15': ('other', 'CrossHair symbolic execution of the literal decoders/encoders of nmfu.py + z3 queries on emitted literal comparisons',
         'decode(spelling(bytes)) == bytes and emitted C literal denotes exactly those bytes, for every byte value 0..255 at every position of literals up to 4 bytes.',
         'CrossHair kernels: literal <= 4 bytes within the per-harness bounds listed in evidence; digit arithmetic of int() trusted. L2/L3 clause: every byte value (quick: 44 values + 8 pairs) in each context (match, casei, binary string, binary regex, assignment, default, char-constant append), input byte symbolic.', '§4 C15'),
 'C16': ('model_checking', 'z3-verified certificate + BMC between the compiled wait machine and an independently built restart automaton; reachability queries for FAIL/handler',
         'Marker reached exactly at the first restart-semantics match; no input reaches FAIL or the enclosing handler from inside the wait.',
         'Patterns enumerated (generated).', '§4 C16'),
 'C17': ('model_checking', 'LLVM-IR symbolic execution of <p>_end from every state vs abstract machine End step; z3 queries that End/data transitions never cross',
         'end() from any control state and data returns DONE/finish code/FAIL exactly as the DFA\'s End move prescribes; no End transition taken on data byte and no data class on End.',
         'Programs with EOF support enumerated (+ corpus/generated programs recompiled with -feof-support, also at -O3). Two clauses: emitted <p>_end vs the DFA End move (L3), and the reference interpreter end-of-input step vs the DFA End move for all inputs up to K bytes (L2). A yield returned from end() is outside the claim.', '§4 C17'),
 'C18': ('other', 'CrossHair symbolic execution of token/attribute decoders and message rendering of nmfu.py',
         'For all token texts (<= 4 body chars) and numeric attributes the kernels return or raise a diagnosed error, never another exception.',
         'Totality over program structure is NOT decided by the solver. The check also replays, concretely through the command line, the programs of corpus/c18 (structural crashes that were repaired): these replays are regression guards for the fixed entries, not solver obligations.', '§4 C18'),
 'C19': ('other', 'if-conversion of the flag-resolution code of load_commandline_flags to one z3 formula per -O level (flag space fully symbolic) + CrossHair on argv tokenisation',
         'For all 3^k absent/on/off assignments of all flags and all orders: implications hold, exclusives never both on, conflicts error, order-independent, levels cumulative, explicit wins.',
         'Fixpoint unrolled #flags+1 with unwinding assertion; option token <= 5 chars for the argv part.', '§4 C19'),
 'C20': ('translation_validation', 'machines compiled under different histories/hash seeds compared by z3-verified one-step simulation / BMC',
         'Same (source, options) under different histories and PYTHONHASHSEEDs gives equivalent machines (solver-decided for all inputs) and equal verdicts.',
         'Histories, seeds and programs (also at -O3) enumerated; machines exported by pickling the real DFA objects from separate compiler processes.', '§4 C20'),
}
NA = {
 'C11': 'decided by the C/C++ compiler front end and its warning logic (-Wall -Werror, C and C++), which cannot be encoded for an SMT solver; the only quantifiers (programs x option sets) are the dimension this technique cannot make symbolic here, so there is no input/data quantifier for the solver to decide (DESIGN §4 C11).',
}

ENGINES = [
 {'name': 'gen_l3', 'path': 'engines/gen_l3.py', 'serves_properties': ['C02', 'C03', 'C04', 'C05', 'C06', 'C10', 'C12'], 'kind_free_text': 'seeded feature-directed generator of small nmfu programs (the enumerated program dimension of the L3 checks)'},
 {'name': 'llsym', 'path': 'engines/llsym.py', 'serves_properties': ['C02', 'C03', 'C04', 'C06', 'C10', 'C12', 'C14', 'C17'], 'kind_free_text': 'symbolic executor for LLVM IR of the emitted C (z3)'},
 {'name': 'absm', 'path': 'engines/absm.py', 'serves_properties': ['C01', 'C05', 'C06', 'C13', 'C20', 'C04', 'C10', 'C17'], 'kind_free_text': 'abstract machine over the real DFA objects, symbolic via z3 path enumeration'},
 {'name': 'refre', 'path': 'engines/refre.py', 'serves_properties': ['C07', 'C08', 'C09', 'C16', 'C01'], 'kind_free_text': 'reference regex derivative automata'},
 {'name': 'refsem', 'path': 'engines/refsem.py', 'serves_properties': ['C01', 'C17'], 'kind_free_text': 'reference interpreter of the statement language'},
 {'name': 'pyif', 'path': 'engines/pyif.py', 'serves_properties': ['C19', 'C07'], 'kind_free_text': 'AST if-conversion of nmfu.py kernels to z3'},
 {'name': 'crosshair kernels', 'path': 'kernels/', 'serves_properties': ['C15', 'C18', 'C19', 'C03'], 'kind_free_text': 'CrossHair contracts over the real nmfu.py functions'},
]


def main():
    checks = []
    na = [{'property_id': k, 'reason': v} for k, v in NA.items()]
    for pid, (cat, tech, text, note, ref) in sorted(T.items()):
        mod = os.path.join(V, 'checks', pid.lower() + '.py')
        if not os.path.exists(mod):
            na.append({'property_id': pid, 'reason': 'check not built yet in this revision (planned: ' + tech + ')'})
            continue
        checks.append({
            'property_id': pid,
            'quick_cmd': f'./check {pid} --tier quick',
            'thorough_cmd': f'./check {pid} --tier thorough',
            'evidence_file': f'/verif/evidence/{pid}.json',
            'replay_cmd_template': f'./check {pid} --replay {{path}}',
            'engine': tech.split(';')[0][:80],
            'level_claimed': {'category': cat, 'text': text, 'design_ref': 'DESIGN.md ' + ref},
            'level_note': note + ' Every verdict is a bounded SMT verdict per enumerated program/config; bounds are in the evidence file.',
            'technique': tech,
        })
    try:
        commits = subprocess.run(['git', '-C', '/repo', 'log', '--format=%H %s'], capture_output=True, text=True).stdout.splitlines()
        hook_commits = [c.split()[0] for c in commits if 'verification hook' in c]
    except Exception:
        hook_commits = []
    m = {
        'version': 1,
        'setup_cmd': 'python3-vt -m compileall -q engines checks kernels tools >/dev/null; python3-vt -m engines.selftest',
        'hooks': {'guard': 'NMFU_VERIF', 'enable': 'environment variable NMFU_VERIF=1 (set by engines/nm.py before importing /repo/nmfu.py) and nmfu._verif_phase_observer installed',
                  'baseline_off_cmd': 'cd /repo && env -u NMFU_VERIF /venv/bin/python -m pytest -ra -q -p no:cacheprovider --timeout=900 --continue-on-collection-errors',
                  'source_commits': hook_commits, 'add_only': True},
        'engines': ENGINES,
        'checks': checks,
        'not_applicable': sorted(na, key=lambda x: x['property_id']),
        'notes': 'Technique family: solver-based checking of the real code (z3 / CrossHair). Exit 2 = harness error or inconclusive (never success). See DESIGN.md.',
    }
    with open(os.path.join(V, 'MANIFEST.json'), 'w') as f:
        json.dump(m, f, indent=1)
    print('claimed', [c['property_id'] for c in checks], 'n/a', [x['property_id'] for x in na])


if __name__ == '__main__':
    main()
