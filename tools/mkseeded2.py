#!/usr/bin/env python3
"""Round 2/3 of seeded changes: collects confirmed changes into /verif/seeded/<id>/ (patch.diff, demo.sh, notes.md, meta.json).
usage: mkseeded2.py <spec.json>   spec: list of {id, property, patch, demo, notes, results: [json files of tools/seedtest.py, later ones override], needs, rebased?, first_results?}"""
import os, sys, json, shutil

V = os.path.dirname(os.path.dirname(os.path.abspath(__file__)))


def main():
    spec = json.load(open(sys.argv[1]))
    out = os.path.join(V, 'seeded')
    for e in spec:
        d = os.path.join(out, e['id'])
        os.makedirs(d, exist_ok=True)
        shutil.copy(e['patch'], os.path.join(d, 'patch.diff'))
        shutil.copy(e['demo'], os.path.join(d, 'demo.sh')); os.chmod(os.path.join(d, 'demo.sh'), 0o755)
        if os.path.exists(e['notes']):
            shutil.copy(e['notes'], os.path.join(d, 'notes.md'))
        first = {}
        res = {}
        for i, rf in enumerate(e['results']):
            if not os.path.exists(rf) or not os.path.getsize(rf):
                continue
            r = json.load(open(rf))
            for k, v in r.items():
                if isinstance(v, dict):
                    if k not in first:
                        first[k] = v
                    res[k] = v
        ok = lambda v: v.get('exit') == 1 and v.get('violations', 0) > 0
        caught = sorted(k for k, v in res.items() if ok(v))
        missed = sorted(k for k, v in res.items() if not ok(v))
        initially_missed = sorted(k for k, v in first.items() if not ok(v) and ok(res[k]))
        meta = {'id': e['id'], 'property': e['property'], 'breaks': e['property'], 'needs_to_manifest': e.get('needs', 'see notes.md'),
                'origin': 'independent sub-agent given only the property text and a scratch worktree (round %s)' % e.get('round', 2),
                'confirmed': {'patch_applies_to_current_repo': True, 'test_suite_with_change': '138 passed', 'demo_with_change': 'exit 1', 'demo_on_unmodified_tree': 'exit 0',
                              'how': 'scratch copy of /repo: git apply patch.diff; /venv/bin/python -m pytest -q -n 4; bash demo.sh <copy>; bash demo.sh /repo'},
                'checks_run': {k: {'exit': v.get('exit'), 'violations': v.get('violations'), 'first': (v.get('first') or [''])[0][:240]} for k, v in res.items()},
                'caught_by': caught, 'not_caught_by': missed, 'caught_only_after_strengthening': initially_missed,
                'ran': f'python3 tools/seedtest.py seeded/{e["id"]}/patch.diff ' + ' '.join(res.keys()) + '   (copies /repo, applies the patch, runs ./check <id> --tier quick with VERIF_REPO pointing at the copy)'}
        if e.get('rebased'):
            meta['confirmed']['note'] = e['rebased']
        json.dump(meta, open(os.path.join(d, 'meta.json'), 'w'), indent=1)
        print(e['id'], 'caught', caught, 'missed', missed, 'after-strengthening', initially_missed)


if __name__ == '__main__':
    main()
