"""C07 part (a) -- the regex character-class algebra, decided for ALL member sets.

The methods isdisjoint / split / union / empty / invert (and __init__) of nmfu.RegexCharClass and
nmfu.InvertedRegexCharClass are read from their source on every run (engines/pyif.py), executed symbolically with
`chars` as a 256-bit vector, for all four kind combinations, and compared with the denotation
"plain class = its members, inverted class = the other bytes (of 256)".

    run_into(run, tier)   adds the obligations to an existing chk.Run (the C07 check owns the Run).

Contract read from the code/docstring: a.split(b) -> (overlap, a_without_overlap, b_without_overlap).  The only caller
(RegexMatch._make_disjoint_groupings) calls split only when `not a.isdisjoint(b)`; the obligations below are decided WITHOUT that
precondition (they hold for all inputs), so no precondition is assumed.  Assumption: class members are drawn from a
256-symbol universe (the constant 256 in the code); code points >= 256 in text regexes are outside this model.
"""
import sys, time, hashlib, json
import z3
from engines import chk, pyif

if chk.REPO not in sys.path:
    sys.path.insert(0, chk.REPO)
import nmfu as N  # noqa: E402

U = 256
FULL = z3.BitVecVal((1 << U) - 1, U)
ZERO = z3.BitVecVal(0, U)
A, B = z3.BitVec('A', U), z3.BitVec('B', U)
KINDS = ('plain', 'inv')


def kcls(k):
    return {'plain': N.RegexCharClass, 'inv': N.InvertedRegexCharClass}[k]


def kind_of(o, what):
    if not isinstance(o, pyif.Obj):
        raise pyif.CannotEncode(f"cannot encode: {what} is {type(o).__name__}, not a character class object")
    if o.cls is N.InvertedRegexCharClass:
        return 'inv'
    if o.cls is N.RegexCharClass:
        return 'plain'
    raise pyif.CannotEncode(f"cannot encode: {what} is an instance of unexpected class {o.cls.__name__}")


def bits(o, what):
    c = o.attrs.get('chars')
    if isinstance(c, (frozenset, set, tuple, str)):
        c = pyif.BitSet.lift(c, U)
    if not isinstance(c, pyif.BitSet):
        raise pyif.CannotEncode(f"cannot encode: {what}.chars is {type(c).__name__}")
    return c.bv


def den(o, what):
    return bits(o, what) if kind_of(o, what) == 'plain' else ~bits(o, what)


def apply(method, ka, kb):
    """symbolic execution of kind_a(A).method(kind_b(B)) from the real source -> (interp, objects a, b, result)"""
    it = pyif.Interp(universe=U, while_bound=4, max_depth=12, model_classes={N.RegexCharClass, N.InvertedRegexCharClass})
    a = it.construct(kcls(ka), [pyif.BitSet(A, U)])
    args = []
    b = None
    if kb is not None:
        b = it.construct(kcls(kb), [pyif.BitSet(B, U)])
        args = [b]
    res = it.call_method(a, method, args)
    return it, a, b, res


def goals(method, a, b, res):
    """-> list of (component, property formula that must hold for all A, B), result shape"""
    da = den(a, 'self')
    db = den(b, 'other') if b is not None else None
    if method == 'isdisjoint':
        if not pyif.is_boolish(res):
            raise pyif.CannotEncode(f"cannot encode: isdisjoint returns {type(res).__name__}")
        return [('iff-empty-intersection', pyif.zb(res) == ((da & db) == ZERO))], 'bool'
    if method == 'empty':
        if not pyif.is_boolish(res):
            raise pyif.CannotEncode(f"cannot encode: empty returns {type(res).__name__}")
        return [('iff-no-member', pyif.zb(res) == (da == ZERO))], 'bool'
    if method == 'split':
        if not isinstance(res, tuple) or len(res) != 3:
            raise pyif.CannotEncode("cannot encode: split does not return a 3-tuple")
        ov, ra, rb = res
        return [('overlap-is-intersection', den(ov, 'overlap') == (da & db)),
                ('rest-of-self-is-difference', den(ra, 'this_without_overlap') == (da & ~db)),
                ('rest-of-other-is-difference', den(rb, 'other_without_overlap') == (db & ~da))], 'tuple'
    if method == 'union':
        return [('is-union', den(res, 'union') == (da | db))], 'class'
    if method == 'invert':
        return [('is-complement', den(res, 'invert') == ~da)], 'class'
    raise pyif.CannotEncode('unknown method ' + method)


def describe(res, m):
    """the result under model m in the replay's format"""
    if isinstance(res, tuple):
        return [describe(x, m) for x in res]
    if isinstance(res, pyif.Obj):
        v = m.eval(bits(res, 'result'), model_completion=True).as_long()
        return [kind_of(res, 'result'), [i for i in range(U) if v >> i & 1]]
    return z3.is_true(m.eval(pyif.zb(res), model_completion=True))


REAL_CODE = r'''
import nmfu
req = json.load(sys.stdin)
K = {'plain': nmfu.RegexCharClass, 'inv': nmfu.InvertedRegexCharClass}
def mk(k, xs):
    return K[k](frozenset(chr(i) for i in xs))
def desc(x):
    if isinstance(x, bool) or x is None:
        return x
    if isinstance(x, tuple):
        return [desc(y) for y in x]
    if type(x) is nmfu.InvertedRegexCharClass:
        return ['inv', sorted(ord(c) for c in x.chars)]
    if type(x) is nmfu.RegexCharClass:
        return ['plain', sorted(ord(c) for c in x.chars)]
    return ['?', repr(x)]
out = []
for c in req['cases']:
    a = mk(c['kind_a'], c['a'])
    args = [mk(c['kind_b'], c['b'])] if c.get('kind_b') else []
    try:
        out.append({'res': desc(getattr(a, c['method'])(*args)), 'err': None})
    except Exception as e:
        out.append({'res': None, 'err': type(e).__name__ + ': ' + str(e)[:100]})
print(json.dumps(out))
'''


def real_cases(cases):
    return pyif.run_real(REAL_CODE, {'cases': cases}, chk.REPO, timeout=120)


def cden(d):
    k, xs = d
    s = set(xs)
    return s if k == 'plain' else set(range(U)) - s


def concrete_violations(case, real):
    """the property read on the real result with real sets"""
    if real['err']:
        return ['exception ' + real['err']]
    r = real['res']
    da = cden((case['kind_a'], case['a']))
    db = cden((case['kind_b'], case['b'])) if case.get('kind_b') else None
    m = case['method']
    bad = []
    try:
        if m == 'isdisjoint' and r is not (len(da & db) == 0):
            bad.append('iff-empty-intersection')
        if m == 'empty' and r is not (len(da) == 0):
            bad.append('iff-no-member')
        if m == 'split':
            if cden(r[0]) != da & db:
                bad.append('overlap-is-intersection')
            if cden(r[1]) != da - db:
                bad.append('rest-of-self-is-difference')
            if cden(r[2]) != db - da:
                bad.append('rest-of-other-is-difference')
        if m == 'union' and cden(r) != da | db:
            bad.append('is-union')
        if m == 'invert' and cden(r) != set(range(U)) - da:
            bad.append('is-complement')
    except Exception as ex:
        bad.append('malformed result ' + repr(r)[:80] + ' ' + type(ex).__name__)
    return bad


def region_to_z3(expr, case):
    it = pyif.Interp(universe=U)
    it.set_is_frozen = True
    env = {'a': pyif.BitSet(A, U), 'b': pyif.BitSet(B, U), 'method': case['method'], 'kind_a': case['kind_a'],
           'kind_b': case.get('kind_b'), 'component': case.get('component')}
    r = it.eval_src(expr, env)
    if not pyif.is_boolish(r):
        raise pyif.CannotEncode(f"cannot encode: region {expr!r} is not boolean")
    return pyif.zb(r)


def _members(v):
    return [i for i in range(U) if v >> i & 1]


def _minimise(s, m, run):
    """canonical, 1-minimal witness: members of A, then of B, are removed block-wise (blocks of 128, 64, .. 1) while the
    obligation stays violated.  Only bitwise constraints are added (a population-count bound made these queries take seconds)."""
    for X in (A, B):
        cur = m.eval(X, model_completion=True).as_long()
        s.add((X & z3.BitVecVal(~cur & ((1 << U) - 1), U)) == ZERO)
        g = 128
        while g >= 1:
            mem = _members(cur)
            for k in range(0, len(mem), g):
                blk = sum(1 << i for i in mem[k:k + g])
                if not (cur & blk):
                    continue
                s.push()
                s.add((X & z3.BitVecVal(blk, U)) == ZERO)
                t0 = time.time()
                r = s.check()
                run.queries += 1
                run.solver_time += time.time() - t0
                if r == z3.sat:
                    m = s.model()
                    s.pop()
                    cur = m.eval(X, model_completion=True).as_long()      # a subset of the previous cur without blk
                    s.add((X & z3.BitVecVal(~cur & ((1 << U) - 1), U)) == ZERO)
                else:
                    s.pop()
            g //= 2
        s.add(X == z3.BitVecVal(cur, U))
        if s.check() == z3.sat:
            m = s.model()
    return m


VALID_SETS = [[], list(range(256)), [0], [255], [97, 98, 99], list(range(48, 58)), list(range(0, 128)), list(range(128, 256)),
              [i for i in range(256) if i % 2], list(range(1, 256)), list(range(90, 110)), [10, 13, 32, 9]]


def run_into(run, tier):
    use_cvc5 = tier == 'thorough'
    stats = {'queries': 0, 'cvc5': 0}
    combos = [(m, ka, kb) for m in ('isdisjoint', 'split', 'union') for ka in KINDS for kb in KINDS] + \
             [(m, ka, None) for m in ('empty', 'invert') for ka in KINDS]
    encoded = {}
    funcs = {}
    try:
        for m, ka, kb in combos:
            it, a, b, res = apply(m, ka, kb)
            gl, shape = goals(m, a, b, res)
            encoded[(m, ka, kb)] = (it, a, b, res, gl)
            funcs.update(it.functions)
    except pyif.CannotEncode as ex:
        run.harness_error('C07/algebra: ' + str(ex))
        return
    for d in funcs.values():
        if d not in run.functions:
            run.functions.append(d)
    run.bounds['C07/algebra'] = {'universe (symbols per class, bit-vector width)': U, 'method x kind combinations': len(combos),
                                 'member sets': 'all 2^256 x 2^256 (symbolic)'}
    run.assumptions.append('C07/algebra: class members are drawn from a 256-symbol universe; plain class denotes its members, inverted class the '
                           'other symbols; end-of-input is not a symbol here (handled by the machine-level part); no precondition on split '
                           '(its only caller _make_disjoint_groupings calls it on non-disjoint pairs, the obligations hold for all pairs)')

    # ---- translator validation: formula vs real classes on concrete sets ------------------------------
    pairs = [(VALID_SETS[i], VALID_SETS[(i * 5 + 3) % len(VALID_SETS)]) for i in range(len(VALID_SETS))] + \
            [(VALID_SETS[i], VALID_SETS[i]) for i in (0, 1, 4)] + [(VALID_SETS[6], VALID_SETS[7]), (VALID_SETS[2], VALID_SETS[9])]
    cases = []
    for (m, ka, kb) in combos:
        for sa, sb in pairs:
            cases.append({'method': m, 'kind_a': ka, 'kind_b': kb, 'a': sa, 'b': sb if kb else []})
    try:
        reals = real_cases(cases)
    except Exception as ex:
        run.harness_error(f"C07/algebra validation: real classes could not be run: {type(ex).__name__}: {str(ex)[:300]}")
        return
    mism = 0
    for c, real in zip(cases, reals):
        it, a, b, res, gl = encoded[(c['method'], c['kind_a'], c['kind_b'])]
        s = pyif.new_solver()
        s.add(A == z3.BitVecVal(sum(1 << i for i in c['a']), U), B == z3.BitVecVal(sum(1 << i for i in c['b']), U))
        s.check()
        mdl = s.model()
        raised = [k for k, v in it.exc.items() if z3.is_true(mdl.eval(pyif.zb(v), model_completion=True))]
        pred = describe(res, mdl)
        if (raised and not real['err']) or (not raised and (real['err'] or pred != real['res'])):
            mism += 1
            if mism <= 3:
                run.harness_error(f"C07/algebra validation: ENCODING MISMATCH {c['method']} {c['kind_a']}x{c['kind_b']} a={c['a'][:8]}.. b={c['b'][:8]}..: "
                                  f"predicted {str(pred)[:120]} raised={raised}, real {str(real)[:120]}")
    run.cov['algebra_validation_cases'] = len(cases)
    run.cov['algebra_validation_mismatches'] = mism
    if mism:
        return

    # ---- obligations ------------------------------------------------------------------------------------
    def check(s, name):
        t0 = time.time()
        r = s.check()
        run.queries += 1
        run.solver_time += time.time() - t0
        stats['queries'] += 1
        if use_cvc5 and r in (z3.sat, z3.unsat):
            r5 = pyif.cvc5_check(s.to_smt2(), logic='QF_BV')
            stats['cvc5'] += 1
            if r5 == 'unknown':
                stats['cvc5_gaveup'] = stats.get('cvc5_gaveup', 0) + 1
                stats['cvc5'] -= 1
            elif r5 != str(r):
                run.inconc(f"{name} [cvc5 says {r5}, z3 says {r}]")
                return z3.unknown
        return r

    nsample = 0
    for (m, ka, kb), (it, a, b, res, gl) in encoded.items():
        base = f"C07/algebra/{m}/{ka}" + (f"x{kb}" if kb else '')
        obs = [(comp, z3.Not(prop)) for comp, prop in gl]
        obs.append(('no-exception', z3.Or([pyif.zb(v) for v in it.exc.values()] + [z3.BoolVal(False)])))
        for comp, neg in obs:
            name = base + '/' + comp
            s = pyif.new_solver(60000)
            excluded = 0
            done = False
            for attempt in range(6):
                s.push()
                s.add(neg)
                r = check(s, name)
                if nsample < 6 and comp != 'no-exception' and attempt == 0 and (kb in (None, 'inv')):
                    nsample += 1
                    smp = {'obligation': name, 'smtlib': '(declare-const A (_ BitVec 256)) (declare-const B (_ BitVec 256)) (assert ' +
                           (neg.sexpr()[:900]) + ') (check-sat)', 'verdict': str(r)}
                    run.sample(smp)
                    run.cov.setdefault('algebra_samples', []).append(smp)
                if r == z3.unsat:
                    s.pop()
                    run.ob(name, discharged=True, nontrivial=(comp != 'no-exception'))
                    done = True
                    break
                if r != z3.sat:
                    s.pop()
                    if not any(name in x for x in run.inconclusive):
                        run.inconc(name)
                    done = True
                    break
                mdl = _minimise(s, s.model(), run)
                s.pop()
                case = {'method': m, 'kind_a': ka, 'kind_b': kb, 'component': comp,
                        'a': _members(mdl.eval(A, model_completion=True).as_long()),
                        'b': _members(mdl.eval(B, model_completion=True).as_long()) if kb else []}
                try:
                    real = real_cases([case])[0]
                except Exception as ex:
                    run.harness_error(f"{name}: replay failed to run: {ex}")
                    done = True
                    break
                raised = [k for k, v in it.exc.items() if z3.is_true(mdl.eval(pyif.zb(v), model_completion=True))]
                pred = None if raised else describe(res, mdl)
                if (raised and not real['err']) or (not raised and (real['err'] or pred != real['res'])):
                    run.harness_error(f"{name}: ENCODING MISMATCH on a={case['a']} b={case['b']}: predicted {str(pred)[:200]} raised={raised}; real {str(real)[:200]}")
                    done = True
                    break
                bad = concrete_violations(case, real)
                want = comp if comp != 'no-exception' else 'exception'
                if not any(x.startswith(want) for x in bad):
                    run.harness_error(f"{name}: solver model is not a violation on the real classes: a={case['a']} b={case['b']} real={str(real)[:200]}")
                    done = True
                    break
                wit = dict(case, real=real, violated=bad)
                known = run.match_known(name, wit)
                kinds = f"{kcls(ka).__name__}({case['a'] if len(case['a']) <= 12 else str(len(case['a'])) + ' members'})"
                if kb:
                    kinds += f".{m}({kcls(kb).__name__}({case['b'] if len(case['b']) <= 12 else str(len(case['b'])) + ' members'}))"
                else:
                    kinds += f".{m}()"
                resv = run.violation(name, wit, f"{kinds} = {str(real['res'])[:160]} violates {bad}")
                if resv == 'new' or known is None:
                    run.ob(name, discharged=False)
                    done = True
                    break
                try:
                    s.add(z3.Not(region_to_z3(known.get('region') or 'True', case)))
                except pyif.CannotEncode as ex:
                    run.harness_error(f"{name}: {ex}")
                    done = True
                    break
                excluded += 1
            if not done:
                run.inconc(name + ' [known-finding exclusion did not converge]')
    run.cov['algebra_queries'] = stats['queries']
    if use_cvc5:
        run.cov['algebra_cvc5_rechecked'] = stats['cvc5']
        run.cov['algebra_cvc5_gave_up'] = stats.get('cvc5_gaveup', 0)


def replay(witness):
    """re-run a recorded witness of this part on the real classes (for `./check C07 --replay`); -> list of violated components"""
    case = {k: witness.get(k) for k in ('method', 'kind_a', 'kind_b', 'a', 'b')}
    real = real_cases([case])[0]
    bad = concrete_violations(case, real)
    print('C07/algebra replay:', case['method'], case['kind_a'], case['kind_b'], 'a=', case['a'], 'b=', case['b'], '->', real, 'violates', bad)
    return bad
