"""C16 - wait never fails and stops at the first restart-semantics match.

Programs `wait P; finish OKM;` bare, inside `try {...} catch { finish HND; }`, after a literal prefix, and inside a catch
block, for generated patterns P (self-overlapping literals, case-insensitive, binary, regexes with inverted classes,
concatenations).  The machine of the REAL compiler is compared with the restart automaton of engines/refre.py
(on a dead derivative go back to P's start and re-read the offending byte, skipping it if it cannot start P):
  (i)  z3-verified certificate + unrolled bounded run K<=8: OKM is reached exactly at the first restart-semantics match,
       with equal consumed count;
  (ii) reachability queries (unrolled, K<=8) that no input reaches FAIL or the handler marker from inside the wait, and,
       per related pair, that End inside a wait runs no action, does not enter FAIL and leaves the parse incomplete;
       with a reachability twin (OKM must be reachable) against vacuity.
"""
import json
from engines import chk, nm, dfz, refre, gen_re

FLAGS = ()
K = 8
ENGINE = ('E2 certificate + BMC + reachability: compiled wait machine (real nmfu compile, default options) vs restart automaton over the '
          'derivative automaton of P (refre.RefProg); input bytes symbolic (z3), End separate; patterns enumerated')


def work(item):
    pat, form, src, do_bmc = item[:4]
    flags = item[4] if len(item) > 4 else FLAGS
    refre.reset()
    info = {}

    def post(res, comp, ref, mach, st):
        if form not in ('bare', 'try'):
            return
        LM = dfz.machine_lts(mach)
        # no input of length <= K reaches FAIL / the handler / a stuck state: the whole program is the wait
        bad = lambda key, label: key[0] == 'T' and (key[1][0] in ('FAIL', 'STUCK', 'DONE') or (key[1][0] == 'FIN' and key[1][1] != 'OKM'))
        r, inp = dfz.reach(LM, K, st, bad, name='reach-fail:' + pat)
        info['reach_fail'] = r
        if r == 'sat':
            syms = list(inp)
            dfz._report(res, comp, mach, ref, syms, False, dfz.end_policy_wait, 'never-fails', {'pattern': pat, 'form': form}, 'reachability')
        # twin: the marker itself is reachable (else the query above would be vacuous)
        r2, inp2 = dfz.reach(LM, K, st, lambda key, label: key[0] == 'T' and key[1][0] == 'FIN' and key[1][1] == 'OKM', name='reach-marker:' + pat)
        info['reach_marker'] = r2
        if r2 == 'sat':
            st.discharged += 1  # reach() counts an obligation; for the twin, sat is the expected, decided answer
            info['marker_input'] = dfz.hexs(inp2)
    r = dfz.analyse(src, flags, slack=True, compare_accept=False, end_policy=dfz.end_policy_wait, K=K, do_bmc=do_bmc, obligation='first-match',
                    extra={'pattern': pat, 'form': form}, post=post)
    r['pat'], r['form'], r['info'] = pat, form + (' -O3' if flags else ''), info
    if r['violations']:
        try:
            t = nm.N.parser.parse('parser { %s; }' % pat, start='start')
            da = refre.DA(refre.pattern(refre.find(t, 'match_stmt').children[0]))
            facts = {'pattern_nullable': da.start >= 0 and da.null[da.start], 'pattern_empty_only': da.start >= 0 and da.final[da.start], 'pattern_closed': da.closed}
        except Exception as e:
            facts = {'pattern_facts_error': str(e)}
        for v in r['violations']:
            v['witness'].update(facts)
    return r


def items_for(tier):
    pats = gen_re.wait_patterns(1000 if tier == 'thorough' else 250)
    items = []
    for i, p in enumerate(pats):
        for form, src in gen_re.wait_programs(p):
            items.append((p, form, src, True if tier == 'quick' else (i % 2 == 0 or form in ('bare', 'try'))))
            # the restart structure must survive optimisation: the bare and try forms are also compiled at -O3
            if form in ('bare', 'try', 'after-empty-catch') and (tier != 'quick' or i % 2 == 0):
                items.append((p, form, src, False, ('-O3',)))
    return items, len(pats)


def main(tier, replay):
    run = chk.Run('C16', tier, 'model_checking', ENGINE)
    run.functions = ['WaitMatch.convert', 'DirectMatch/CaseDirectMatch/RegexMatch/ConcatMatch.convert', 'TryExceptNode.convert (handler retargeting around a wait)',
                     'DFA.append_after', 'DfaCompileCtx.compile (default optimisation)']
    run.assumptions = ['patterns are enumerated (fixed list + seeded generator); verdict per accepted program',
                       'only patterns after which `finish OKM` can be scheduled are accepted by nmfu (closed patterns: nothing can follow a match); open-ended patterns are rejected by the compiler and skipped',
                       'End is judged at L2 (the transition the machine takes on End); that `<p>_end` of the emitted C follows it is C17/C06',
                       'machine semantics at L2 as in engines/dfz.py; default options (-O1)']
    if replay:
        w = json.load(open(replay))['witness']
        refre.reset()
        r = dfz.analyse(w['src'], tuple(w['flags']), slack=True, end_policy=dfz.end_policy_wait, K=max(K, w.get('n', 0)), do_bmc=True, obligation='first-match')
        print(json.dumps({'verdict': r['verdict'], 'violations': r['violations']}, indent=1, default=str)[:4000])
        return chk.EXIT_VIOLATION if r['violations'] else chk.EXIT_OK
    items, npat = items_for(tier)
    run.bounds = {'K_bmc': K, 'K_reach': K, 'patterns': npat, 'forms': ['bare', 'try', 'prefix', 'try-prefix', 'catch', 'after-empty-catch'], 'programs': len(items), 'flags': list(FLAGS)}
    counters = {}
    byform = {}
    shown = set()
    reach = {'fail_unsat': 0, 'fail_sat': 0, 'fail_unknown': 0, 'marker_reachable': 0, 'marker_not_reached_within_K': 0}
    for r in dfz.pool_map(work, items, chunksize=4):
        v = dfz.absorb(run, r, 'C16:' + r['src'], '%s [%s]' % (r['pat'], r['form']), 'C16/', counters)
        byform.setdefault(r['form'], {}).setdefault(v, 0)
        byform[r['form']][v] += 1
        inf = r['info']
        if 'reach_fail' in inf:
            reach['fail_' + inf['reach_fail']] += 1
            if inf.get('reach_marker') == 'sat':
                reach['marker_reachable'] += 1
            else:
                reach['marker_not_reached_within_K'] += 1
        if v == 'verified':
            if not (r['form'] in ('bare', 'try', 'catch') and r['pat'] not in shown and (len(r['pat']) > 7 or '^' in r['pat'])):
                continue
            shown.add(r['pat'])
            run.sample({'pattern': r['pat'], 'form': r['form'], 'verdict': 'certificate verified by z3 (%d pairs, %d step combinations); BMC %s K=%d; reach FAIL/handler: %s; marker reachable: %s'
                        % (r['pairs'], r['steps'], r['bmc'], r.get('bmc_K', K), inf.get('reach_fail', 'n/a'), inf.get('marker_input', inf.get('reach_marker', 'n/a')))}, limit=10)
        elif v == 'rejected':
            if len([s for s in run.samples if s.get('verdict') == 'rejected']) < 3:
                run.sample({'pattern': r['pat'], 'form': r['form'], 'verdict': 'rejected', 'error': str(r.get('error'))[:160]}, limit=30)
        else:
            run.sample({'pattern': r['pat'], 'form': r['form'], 'verdict': v, 'detail': str(r.get('error') or r['inconclusive'] or r['harness'])[:300]}, limit=30)
    run.cov['programs'] = len(items)
    run.cov['patterns'] = npat
    run.cov['programs_accepted'] = sum(v for k, v in counters.items() if k in ('verified', 'violation', 'inconclusive'))
    run.cov['programs_rejected_skipped'] = counters.get('rejected', 0)
    run.cov['verdicts'] = counters
    run.cov['verdicts_by_form'] = byform
    run.cov['reachability_queries'] = reach
    run.cov['bmc_bound_K'] = K
    run.cov.setdefault('compiler_crashes', [])
    if counters.get('verified', 0) < len(items) // 10:
        run.harness_error('fewer than 10%% of the generated wait programs were accepted and verified (%s)' % counters)
    if reach['marker_reachable'] == 0:
        run.harness_error('reachability twin: the marker was never reachable (vacuous reachability queries)')
    return run.finish('per accepted program: z3-verified one-step simulation between the compiled wait machine and the restart automaton (every related pair x one symbolic byte, '
                      'End separately) => marker exactly at the first restart-semantics match with equal consumed count, for inputs of every length; unrolled bounded run K=%d; '
                      'unrolled reachability queries: FAIL / handler / anything but OKM unreachable within K=%d; End inside a wait: no action, no FAIL, incomplete. '
                      'states = related pairs, transitions = step combinations decided.' % (K, K))


if __name__ == '__main__':
    chk.main_wrapper(main)
