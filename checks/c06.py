"""C06 — emitted C executes exactly the compiled state machine (llsym step vs absm step, every state, symbolic byte/End/data)."""
import sys
from engines import chk, l3check, selfval

PID = 'C06'
ASPECTS = ('c06', 'byte', 'end')
KINDS = ('c06-diff',)


def consume(run, results, kinds, pid):
    n_jobs = n_ok = 0
    skipped = {'rejected': 0, 'unencodable': 0, 'unsupported': 0, 'unmatched': 0}
    unenc = []
    for r in results:
        n_jobs += 1
        st = r['status']
        if st != 'ok':
            k = st.split(':')[0]
            if k == 'harness-error':
                run.harness_error(f"{r['label']} [{r['cname']}]: {st}")
            else:
                skipped[k] = skipped.get(k, 0) + 1
                if k in ('unencodable', 'unsupported') and len(unenc) < 40:
                    unenc.append(f"{r['label']} [{r['cname']}]: {st[:120]}")
            continue
        n_ok += 1
        d = r['stats']
        # only count what belongs to this property
        run.merge_stats(d)
        for f in r['findings']:
            if f['kind'] not in kinds:
                continue
            ob = f"{pid}/{f['kind']}:{r['label']}[{r['cname']}]@state={f['pre']['state']}/{f['sym']}"
            w = {'program': r['label'], 'config': r['cname'], 'flags': f['flags'], 'state': f['pre']['state'], 'sym': f['sym'],
                 'byte': f.get('byte'), 'bytes': f.get('bytes'), 'parts': f.get('parts'), 'next_byte': f.get('next_byte'), 'what': f['what'], 'detail': f['detail'], 'ins': f.get('ins', ''), 'abs_code': f.get('abs_code'),
                 'pre': f['pre'], 'replay': f['replay'], 'cfg_on': f.get('cfg_on', []),
                 'null_strs_with_default': f.get('null_strs_with_default', []), 'has_raw': f.get('has_raw', False),
                 'shadowing': f.get('shadowing'), 'source': f.get('source'), 'end': f.get('end'), 'ref_used_end_pattern': f.get('ref_used_end_pattern'),
                 'ref_skipped_tail_optional': f.get('ref_skipped_tail_optional'), 'ref_code': f.get('ref_code'), 'mach_code': f.get('mach_code')}
            rep = f['replay'].get('reproduced')
            w['reach'] = f.get('reach')
            if rep == 'unreached':
                run.unreached.append({'obligation': ob, 'what': f['what'], 'detail': f['detail'], 'pre': f['pre'], 'byte': f.get('byte')})
            elif rep is True:
                run.violation(ob, w, f"{f['what']}: {f['detail']} ({f['replay'].get('diff') or f['replay'].get('sanitizer', '')[:120]})")
            elif rep is False:
                run.harness_error(f"model does not reproduce on the real build: {ob}: {f['detail']} {str(f['replay'])[:300]}")
            else:
                note = f['replay'].get('note', '')
                if 'standard-level' in note or f['kind'] in ('c03-inv', 'c03-mem'):
                    run.violation(ob, w, f"{f['what']}: {f['detail']} [{note or 'standard-level, not observable by the sanitizer'}]")
                else:
                    run.inconc(ob + ' replay inconclusive: ' + note)
    run.cov['jobs'] = n_jobs
    run.cov['programs'] = n_ok
    run.cov['skipped'] = skipped
    run.cov['unencodable_outputs_C11_out_of_scope'] = unenc
    run.cov['disagreements_checked'] = len(run.violations) + len(run.known_seen)
    run.cov['traces_validated_against_impl'] = run.cov.get('traces_validated_against_impl', 0)
    if n_jobs and (skipped.get('unencodable', 0) + skipped.get('unsupported', 0)) > 0.4 * n_jobs:
        run.harness_error(f"too many unencodable outputs: {skipped} of {n_jobs} (checks would be vacuous)")
    if n_ok == 0:
        run.harness_error('no program could be encoded')


def main(tier, replay):
    run = chk.Run(PID, tier, 'translation_validation', 'llsym (LLVM IR of emitted C) vs absm (DFA), z3')
    run.functions = ['CodegenCtx.generate_source/_generate_feed_implementation/_generate_end_implementation (emitted <p>_feed/<p>_end, lowered by clang -O0 + mem2reg)',
                     'DfaCompileCtx.dfa (object graph) via absm']
    run.bounds = {'symbols_per_query': 1, 'control_states': 'all (enumerated)', 'data': 'all values within Inv (symbolic)',
                  'configs': [c[0] for c in (l3check.CONFIGS_QUICK if tier == 'quick' else l3check.CONFIGS_THOROUGH)]}
    run.assumptions = ['malloc returns a fresh live object, never NULL', 'hooks are pure observers', 'arithmetic UB of user expressions assumed away (C14 precondition)',
                       'x86-64 layout as computed by clang', 'state index i <-> dfa.states[i] taken from the compiler']
    ok, bad = selfval.run(6 if tier == 'quick' else 20)
    run.cov['encoding_self_validation'] = {'concrete_llsym_runs_agreeing_with_gcc_build': ok, 'problems': bad}
    if bad or ok < 2:
        run.harness_error('llsym self-validation failed: ' + str(bad[:2]))
    jobs = l3check.jobs_for(tier, ASPECTS)
    consume(run, l3check.run_jobs(jobs), KINDS, PID)
    run.cov['traces_validated_against_impl'] = ok + run.cov.get('disagreements_checked', 0)
    return run.finish('Per (program, config) and per control state the solver compares every pair of overlapping paths of the emitted C '
                      '(LLVM IR, symbolic byte or End, symbolic data within Inv) and of the abstract machine over the same DFA object: result code, '
                      'stored state, outputs, hook calls with inval and snapshots, *start offset. states/transitions = control states and abstract transitions explored.')


if __name__ == '__main__':
    chk.main_wrapper(main)
