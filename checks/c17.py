"""C17 — end-of-input handling follows the EOF contract: <p>_end at L3 from every control state vs the abstract machine's End
step (llsym vs absm), plus solver queries on every state's dispatch that End and data symbols never cross."""
import z3
from engines import chk, l3check, nm, absm
from checks.c06 import consume
from checks import c01
from engines import gen_c01

PID = 'C17'


def main(tier, replay):
    run = chk.Run(PID, tier, 'model_checking', 'llsym on <p>_end vs absm End step; z3')
    run.functions = ['CodegenCtx._generate_end_implementation/_generate_end_switch_body (emitted <p>_end)', 'EndMatch.convert, RegexMatch._create_dfa_state (End exclusion) via the compiled DFA']
    run.bounds = {'calls': 'one end() call from every control state with arbitrary data within Inv', 'configs': 'those with -feof-support'}
    run.assumptions = ['malloc never fails', 'hooks are pure observers', 'End move semantics: first transition listing End, else the Else transition (DFState.__getitem__)']
    jobs = [j for j in l3check.jobs_for(tier, ('c06', 'end'), only_eof=True)]
    for j in jobs:
        j['aspects'] = ('c06', 'end')
        if '-feof-support' not in j['flags'] and '-feof-support' not in nm.split_args(j['src']):
            j['flags'] = tuple(j['flags']) + ('-feof-support',)
    consume(run, l3check.run_jobs(jobs), ('c06-diff',), PID)
    # L2 clause: the reference interpreter's end-of-input step vs the abstract machine's End move after every input of length <= K
    good, bad = c01.validate_refsem()
    if bad or good < 30:
        run.harness_error(f'reference interpreter does not reproduce the repo annotations: {bad[:3]}')
    K = 3 if tier == 'quick' else 5
    ejobs = []
    for label, src in l3check.programs(tier):
        if '-feof-support' not in nm.split_args(src):
            src2 = ('// args: ' + ' '.join(nm.split_args(src) + ['-feof-support']) + '\n' + (src.split('\n', 1)[1] if src.startswith('// args:') else src))
        else:
            src2 = src
        if len(src2) > 2500:
            continue
        ejobs.append({'label': label + ' +eof', 'src': src2, 'K': K, 'max_paths': 4000 if tier == 'quick' else 20000, 'ends': [True], 'kind': 'c17-end'})
    for i, src in enumerate(gen_c01.programs(chk.seed() + 77, 30 if tier == 'quick' else 300)):
        ejobs.append({'label': f'gen{i} +eof', 'src': '// args: -feof-support\n' + src, 'K': K, 'max_paths': 4000 if tier == 'quick' else 20000, 'ends': [True], 'kind': 'c17-end'})
    # an `end` pattern must also survive optimisation: small programs are compiled at -O3 as well
    for j in list(ejobs):
        if len(j['src']) < 1200 and (tier != 'quick' or j['label'].startswith('corpus/') or 'end' in j['label']):
            ejobs.append(dict(j, label=j['label'] + ' -O3', flags=('-O3',)))
    st_before = dict(run.cov)
    orig = l3check.work
    l3check.work = c01.work
    try:
        consume(run, l3check.run_jobs(ejobs), ('c17-end',), PID)
    finally:
        l3check.work = orig
    run.bounds['L2_end_clause'] = {'input_bytes_before_end': K, 'programs': len(ejobs)}
    run.cov['states'] = run.cov.get('states', 0)
    return run.finish('(1) For every program compiled with EOF support and every control state, one <p>_end call with all data symbolic is compared '
                      '(code, outputs, hook calls) with the abstract machine dispatching End on the same DFA: DONE iff an End move completes the program or '
                      'the state is accepting, finish code iff the actions finish with one, FAIL otherwise. (2) For every input of length <= K followed by end of input, the abstract machine over the compiled DFA '
                      '(End move) is compared with the reference interpreter, for which End is never a data byte and completes a match exactly when the pattern is nullable there.')


if __name__ == '__main__':
    chk.main_wrapper(main)
