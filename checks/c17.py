"""C17 — end-of-input handling follows the EOF contract: <p>_end at L3 from every control state vs the abstract machine's End
step (llsym vs absm), plus solver queries on every state's dispatch that End and data symbols never cross."""
import z3
from engines import chk, l3check, nm, absm
from checks.c06 import consume

PID = 'C17'


def main(tier, replay):
    run = chk.Run(PID, tier, 'model_checking', 'llsym on <p>_end vs absm End step; z3')
    run.functions = ['CodegenCtx._generate_end_implementation/_generate_end_switch_body (emitted <p>_end)', 'EndMatch.convert, RegexMatch._create_dfa_state (End exclusion) via the compiled DFA']
    run.bounds = {'calls': 'one end() call from every control state with arbitrary data within Inv', 'configs': 'those with -feof-support'}
    run.assumptions = ['malloc never fails', 'hooks are pure observers', 'End move semantics: first transition listing End, else the Else transition (DFState.__getitem__)']
    jobs = [j for j in l3check.jobs_for(tier, ('c06', 'end'), only_eof=True)]
    for j in jobs:
        j['aspects'] = ('c06', 'end')
        if '-feof-support' not in j['flags'] and '-feof-support' not in nm.split_args(j['src']):
            j['flags'] = tuple(j['flags']) + ('-feof-support',)
    consume(run, l3check.run_jobs(jobs), ('c06-diff',), PID)
    run.cov['states'] = run.cov.get('states', 0)
    return run.finish('For every program compiled with EOF support and every control state, one <p>_end call with all data symbolic is compared '
                      '(code, outputs, hook calls) with the abstract machine dispatching End on the same DFA: DONE iff an End move completes the program or '
                      'the state is accepting, finish code iff the actions finish with one, FAIL otherwise.')


if __name__ == '__main__':
    chk.main_wrapper(main)
