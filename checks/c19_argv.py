"""C19(b) (DESIGN §4 C19): CrossHair on the argv loop of the real ProgramData.load_commandline_flags.

Not a check of its own: `run_into(run, tier)` adds the obligations of kernels/k_c19.py to an existing chk.Run('C19', ...).
Known findings must be listed under property C19 (obligations C19/argv/*).
"""
import os, importlib.util
from engines import chk, xhair

KERNEL = os.path.join(chk.VERIF, 'kernels', 'k_c19.py')

FUNCTIONS = ['ProgramData.load_commandline_flags (argv loop, option dispatch, returned pair, final _flags/_options/_dump/dry_run)']

ALPHA4 = '-=.,+ _0134Oofdthnasx'

QUICK = {
    'C19/argv/option_level': [dict(env={}, timeout=200, label='-O<level>, level -40..40, before/after the file name')],
    'C19/argv/option_token': [dict(env={'XH_N': 3}, parts=4, timeout=600, region_env={'XH_N': 4},
                                   label='one option token <=3 chars (code points < 128) before/after the file name')],
    'C19/argv/option_value': [dict(env={'XH_N': 1}, timeout=300, region_env={'XH_N': 3},
                                   label='--<long option> <value <=1 char (code points < 128)> file; long option: symbolic index into 9 names')],
    'C19/argv/option_order': [dict(env={'XH_RELATED': 2}, parts=8, timeout=400, region_env={'XH_RELATED': 2},
                                   label='two different options out of 29 (-O0..3, -o, -t, -d, -f/-fno- of the 11 flags related by implies/exclusive), file position 0..2')],
    'C19/argv/file_position': [dict(env={'XH_RELATED': 2}, parts=4, timeout=400, region_env={'XH_RELATED': 2},
                                    label='same 29 options, file name first / between / last')],
}
THOROUGH = {
    'C19/argv/option_level': [dict(env={}, timeout=200, label='-O<level>, level -40..40, before/after the file name')],
    'C19/argv/option_token': [dict(env={'XH_N': 3}, parts=4, timeout=600, region_env={'XH_N': 4},
                                   label='one option token <=3 chars (code points < 128) before/after the file name'),
                              dict(env={'XH_N': 4, 'XH_ALPHA': ALPHA4}, parts=16, timeout=900,
                                   label='one option token <=4 chars over the %d characters %r before/after the file name' % (len(ALPHA4), ALPHA4))],
    # (<=4 chars over all code points < 128 was measured at > 24 000 CPU s: the real code calls .upper()/int()/Enum() on the text)
    'C19/argv/option_value': [dict(env={'XH_N': 1}, timeout=300, region_env={'XH_N': 3},
                                   label='--<long option> <value <=1 char (code points < 128)> file; long option: symbolic index into 9 names')],
    'C19/argv/option_order': [dict(env={'XH_RELATED': 1}, parts=32, timeout=600, region_env={'XH_RELATED': 2},
                                   label='two different options out of 39 (levels, -o/--output, -t/--dry-run, -d/--dump, --dump-prefix, --flag, generation options, -f/-fno- of the 11 flags related by implies/exclusive), file position 0..2')],
    'C19/argv/file_position': [dict(env={}, parts=32, timeout=600, region_env={'XH_RELATED': 2},
                                    label='same 84 options, file name first / between / last')],
}

NOTE = ('C19(b) argv kernels (CrossHair over the real load_commandline_flags): an option token / option value that our reading of `nmfu --help` calls '
        'unknown or malformed never returns normally and nothing but RuntimeError (or SystemExit(0) for help/version) escapes; the returned pair and the '
        'complete configuration do not depend on the order of two different well-formed options nor on where the file name stands. Token alphabet and '
        'length are bounded as stated (the real code calls .upper()/int()/Enum() on the text, which CrossHair executes by solver enumeration); option '
        'indices are realised by the solver when indexing the concrete option table.')


def run_into(run, tier):
    """add the C19(b) obligations to `run` (a chk.Run for property C19); returns the xhair results"""
    spec = importlib.util.spec_from_file_location('_k_c19', KERNEL)
    mod = importlib.util.module_from_spec(spec)
    spec.loader.exec_module(mod)
    cfgs = THOROUGH if tier == 'thorough' else QUICK
    jobs = xhair.plan_jobs(KERNEL, {ob: e for ob, e in mod.HARNESSES.items() if ob in cfgs}, cfgs)
    results = xhair.run_jobs(jobs)
    xhair.absorb(run, results, KERNEL)
    run.functions = list(run.functions) + [f for f in FUNCTIONS if f not in run.functions]
    run.bounds.update({ob: [c.get('label') + (f" ({c.get('parts')} parts)" if c.get('parts', 1) > 1 else '') for c in cs]
                       for ob, cs in cfgs.items()})
    run.cov['argv_note'] = NOTE
    run.cov['argv_engine'] = 'CrossHair %s (python3-vt -m crosshair check --report_all --per_condition_timeout T kernels/k_c19.py:LINE)' % xhair.version()
    return results


if __name__ == '__main__':
    # stand-alone smoke run (writes evidence/C19A.json, never evidence/C19.json): python3-vt -m checks.c19_argv [--tier quick]
    def _main(tier, replay):
        if replay:
            return xhair.replay_file(replay)
        run = chk.Run('C19', tier, 'other', 'stand-alone run of the C19(b) CrossHair argv kernels only')
        run_into(run, tier)
        run.pid = 'C19A'
        return run.finish(NOTE)
    chk.main_wrapper(_main)
