"""C04 — feed and end always return: unwinding assertions on the re-dispatch loop of the emitted C and of the abstract machine."""
from engines import chk, l3check
from checks.c06 import consume

PID = 'C04'


def main(tier, replay):
    run = chk.Run(PID, tier, 'model_checking', 'llsym + absm unwinding assertions; z3')
    run.functions = ['emitted <p>_feed / <p>_end (goto repeatswitch / fall_N / jpto_N re-dispatch)', 'compiled DFA via absm.dispatch', 'DfaCompileCtx._verify_fallthrough_loop (verdict on cycle candidates)']
    run.bounds = {'non_consuming_moves_per_symbol': 'N_states + 2 (abstract machine)', 'IR blocks per call': '60 * (N_states + 4)', 'chunk': '1 byte / end, any state, any data within Inv'}
    run.assumptions = ['hooks return', 'malloc returns']
    # corpus/cycle/*.nmfu are syntactic non-consuming-cycle candidates: the compiler must reject them; any it accepts must pass the unwinding assertions
    jobs = l3check.jobs_for(tier, ('c04', 'byte', 'end'), kinds=('example', 'ok', 'verif', 'cycle', 'gen'))
    consume(run, l3check.run_jobs(jobs), ('c04-unwind',), PID)
    run.cov['cycle_candidates'] = sorted({j['label'] for j in jobs if '/cycle/' in j['label']})
    return run.finish('Unwinding assertion per (program, config, control state, symbolic byte or End, symbolic data): no feasible path of the emitted C exceeds the block budget '
                      'and no feasible path of the abstract machine performs more than N+2 non-consuming moves for one symbol. A hit is confirmed by running the gcc build under a time limit.')


if __name__ == '__main__':
    chk.main_wrapper(main)
