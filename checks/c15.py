"""C15 - literals denote exactly the bytes and values they spell (L1 part: CrossHair on the real decoders / encoders).

Every verdict is a CrossHair (z3) verdict over ALL values within the bound of a harness in kernels/k_c15.py that calls the
real functions of /repo/nmfu.py; counterexamples are replayed concretely in a fresh interpreter before they are reported.
"""
import os
from engines import chk, xhair

KERNEL = os.path.join(chk.VERIF, 'kernels', 'k_c15.py')

FUNCTIONS = ['ParseCtx._convert_string', 'ParseCtx._convert_char_const', 'ParseCtx._convert_binary_string',
             'ParseCtx._convert_int (sign/prefix dispatch; digit arithmetic is Python int())',
             'CaseDirectMatch._create_casei_from', 'CodegenCtx._escape_string', 'CodegenCtx._generate_set_string',
             'OutputStorage (constructor)']

# timeouts are CrossHair --per_condition_timeout values (CPU seconds of one condition)
QUICK = {
    'C15/convert_string/plain': [dict(env={'XH_N': 3}, timeout=300, label='<=3 bytes, raw|named')],
    'C15/convert_string/hex1': [dict(env={'XH_N': 2}, parts=8, timeout=300, label='<=2 bytes, exactly one \\xHH at a symbolic position, other raw|named')],
    'C15/convert_char_const': [dict(env={}, timeout=120, label='one byte, raw|named')],
    'C15/convert_binary_string': [dict(env={'XH_N': 1}, parts=4, timeout=300, label='<=1 byte, per-nibble case, optional blanks')],
    # (parts = size of the byte alphabet: the members are pairwise different mod 6, so each part is one value of the first byte)
    'C15/convert_binary_string/words': [dict(env={'XH_N': 3}, parts=6, timeout=300,
                                             label='2..3 bytes, each a solver-chosen member of {00,01,0a,41,80,ff}, hex pairs grouped into words: every composition (blank or no blank between neighbours)')],
    'C15/convert_int_dispatch': [dict(env={'XH_N': 2}, timeout=400, label='sign x {dec,0x,0b} x <=2 digits')],
    'C15/casei_pair': [dict(env={}, timeout=120, label='one byte 0..255')],
    'C15/c_literal': [dict(env={'XH_N': 2, 'XH_K': 1}, parts=8, timeout=400, label='<=2 bytes, at most one outside 32..126'),
                      dict(env={'XH_N': 3, 'XH_K': 0}, timeout=300, label='<=3 bytes, all in 32..126')],
}
THOROUGH = {
    'C15/convert_string/plain': [dict(env={'XH_N': 4}, parts=8, timeout=900, label='<=4 bytes, raw|named')],
    'C15/convert_string/hex1': [dict(env={'XH_N': 2}, parts=8, timeout=400, label='<=2 bytes, exactly one \\xHH at a symbolic position, other raw|named'),
                                dict(env={'XH_N': 4, 'XH_RAW': 1}, parts=16, timeout=600, label='<=4 bytes, exactly one \\xHH at a symbolic position, other raw')],
    'C15/convert_string/hex2': [dict(env={}, parts=64, timeout=600, label='2 bytes, both \\xhh (lower-case digits)')],
    'C15/convert_char_const': [dict(env={}, timeout=120, label='one byte, raw|named')],
    'C15/convert_binary_string': [dict(env={'XH_N': 1}, parts=4, timeout=300, label='<=1 byte, per-nibble case, optional blanks')],
    'C15/convert_binary_string/pairs': [dict(env={}, parts=32, timeout=600, label='2 bytes "hhhh"b (lower-case digits)')],
    'C15/convert_binary_string/words': [dict(env={'XH_N': 4}, parts=6, timeout=1200,
                                             label='2..4 bytes, each a solver-chosen member of {00,01,0a,41,80,ff}, hex pairs grouped into words: every composition (blank or no blank between neighbours)')],
    'C15/convert_int_dispatch': [dict(env={'XH_N': 2}, timeout=400, label='sign x {dec,0x,0b} x <=2 digits'),
                                 dict(env={'XH_N': 3}, parts=16, timeout=600, label='sign x {dec,0x,0b} x <=3 digits')],
    'C15/casei_pair': [dict(env={}, timeout=120, label='one byte 0..255')],
    'C15/c_literal': [dict(env={'XH_N': 2, 'XH_K': 1}, parts=8, timeout=400, label='<=2 bytes, at most one outside 32..126'),
                      dict(env={'XH_N': 4, 'XH_K': 0}, timeout=600, label='<=4 bytes, all in 32..126')],
    # (<=3 bytes with one byte outside 32..126 was measured at 15 700 CPU s and is not part of the tier)
}

EXPLANATION = (
    'Bounded SMT obligations over real kernels: each condition is one CrossHair run (symbolic execution of the real nmfu.py functions '
    'with z3) that explores ALL byte values 0..255 per position, all positions and all spellings (raw / \\xhh / \\xHH / named escape) '
    'within the bound listed per condition; "Confirmed over all paths" = the contract holds for every input in that bound. '
    'Bounds actually reached (see bounds/conditions): string decoding <=4 bytes with raw/named spellings and with one hex-spelled byte '
    '(other bytes raw), <=2 bytes with one hex-spelled byte next to raw/named, 2 bytes both hex-spelled (thorough); binary strings: one byte with all '
    '256 values, per-nibble case and optional blanks, 2 bytes "hhhh" with all values (thorough), and 2..3 (thorough 4) bytes over a 6-value alphabet with every '
    'grouping of the hex pairs into words; C literal emission '
    '<=4 (quick 3) bytes in 32..126, <=2 bytes with at most one byte outside 32..126 - NOT the full <=4 x 256 of DESIGN §4, because '
    'nmfu decodes/encodes hex digits through int(..,16)/format(), which CrossHair can only execute by solver-enumerating the digit values. '
    'Literals with known defects: the region of each listed finding is searched separately (its witness is replayed -> KNOWN-FINDING) and '
    'the obligation is re-checked with all regions excluded. The L3 clause of C15 (emitted comparison constants executed by llsym) is '
    'not part of this module.')


def configs(tier):
    return THOROUGH if tier == 'thorough' else QUICK


def run_kernels(run, tier, kernel=KERNEL, table=None, cfgs=None):
    import importlib.util
    spec = importlib.util.spec_from_file_location('_k_' + os.path.basename(kernel)[:-3], kernel)
    mod = importlib.util.module_from_spec(spec)
    spec.loader.exec_module(mod)
    table = table or mod.HARNESSES
    cfgs = cfgs or configs(tier)
    jobs = xhair.plan_jobs(kernel, {ob: e for ob, e in table.items() if ob in cfgs}, cfgs)
    results = xhair.run_jobs(jobs)
    xhair.absorb(run, results, kernel)
    run.bounds.update({ob: [c.get('label') + (f" ({c.get('parts')} parts)" if c.get('parts', 1) > 1 else '') for c in cs]
                       for ob, cs in cfgs.items()})
    return results


def main(tier, replay):
    if replay:
        return xhair.replay_file(replay)
    run = chk.Run('C15', tier, 'other', 'CrossHair %s: PEP-316 harnesses in kernels/k_c15.py over the real %s/nmfu.py; one `crosshair check` '
                  'process per condition; counterexamples replayed in a fresh python3-vt' % (xhair.version(), chk.REPO))
    run.functions = FUNCTIONS
    run.assumptions = ['C literal semantics: our own decoder (C11 6.4.4.4/6.4.5: greedy hex escapes, octal escapes, simple escapes); '
                       'replays additionally ask gcc what the emitted literal denotes',
                       'string constants reach the code generator as str with code points = byte values; binary defaults as bytes',
                       'CrossHair/z3/CPython are trusted; realised values (hex digits) are exhausted by CrossHair through solver enumeration']
    run.cov['checker_cmd'] = 'python3-vt -m crosshair check --report_all --per_condition_timeout T kernels/k_c15.py:LINE'
    run.cov['trusted_base'] = ['CrossHair 0.0.110', 'z3', 'CPython 3.11', 'own C-literal decoder (kernels/k_c15.py c_unescape)']
    run_kernels(run, tier)
    from checks import c15_l23
    c15_l23.run_into(run, tier)
    return run.finish(EXPLANATION.replace('The L3 clause of C15 (emitted comparison constants executed by llsym) is not part of this module.',
                                          'The L2/L3 clause (checks/c15_l23.py): for every enumerated byte value and spelling in each context the compiled DFA accepts exactly the spelled byte(s) '
                                          '(z3 over the symbolic input byte) and the emitted C stores exactly the spelled bytes and length for assignments/defaults/char appends (llsym).'))


if __name__ == '__main__':
    chk.main_wrapper(main)
