"""C03 item 5 (DESIGN §4 C03): CrossHair kernels for the size / type arithmetic behind memory safety.

Not a check of its own: `run_into(run, tier)` adds the obligations of kernels/k_c03.py to an existing chk.Run('C03', ...).
Known findings must be listed under property C03 (obligations C03/kernel/*).
"""
import os, importlib.util
from engines import chk, xhair

KERNEL = os.path.join(chk.VERIF, 'kernels', 'k_c03.py')

FUNCTIONS = ['CodegenCtx._integer_containing(maxval, signed)', 'ParseCtx._parse_out_decl (str_type / unterm_str_type)',
             'OutputStorage.effective_string_size', 'CodegenCtx._generate_set_string + _escape_string (memcpy length vs literal object vs buffer)']

QUICK = {
    'C03/kernel/integer_containing': [dict(env={}, timeout=120, label='maxval: every int >= 0 (unbounded), signed: bool')],
    'C03/kernel/capacity': [dict(env={'XH_N': 3}, timeout=200, label='str[[-]ddd] / unterminated, <=3 digits, through _parse_out_decl')],
    'C03/kernel/set_string_bounds': [dict(env={'XH_N': 2, 'XH_K': 1}, parts=8, timeout=400, label='constant <=2 bytes, at most one outside 32..126, exact-fit buffer'),
                                     dict(env={'XH_N': 3, 'XH_K': 0}, timeout=300, label='constant <=3 bytes, all in 32..126, exact-fit buffer')],
}
THOROUGH = {
    'C03/kernel/integer_containing': [dict(env={}, timeout=120, label='maxval: every int >= 0 (unbounded), signed: bool')],
    'C03/kernel/capacity': [dict(env={'XH_N': 4}, timeout=400, label='str[[-]dddd] / unterminated, <=4 digits, through _parse_out_decl')],
    'C03/kernel/set_string_bounds': [dict(env={'XH_N': 2, 'XH_K': 1}, parts=8, timeout=400, label='constant <=2 bytes, at most one outside 32..126, exact-fit buffer'),
                                     dict(env={'XH_N': 4, 'XH_K': 0}, timeout=600, label='constant <=4 bytes, all in 32..126, exact-fit buffer')],
}

NOTE = ('C03 kernels (CrossHair over the real nmfu.py): _integer_containing holds 0..maxval for EVERY maxval >= 0 (counters, state index cannot wrap; '
        'uintmax_t/intmax_t taken as 64 bit); accepted str[N] declarations have capacity >= 0 and capacity + terminator == N; the memcpy emitted for a '
        'constant that passed the length guard stays inside the buffer and inside the C literal object and copies the constant\'s bytes (own C-literal decoder).')


def run_into(run, tier):
    """add the C03 kernel obligations to `run` (a chk.Run for property C03); returns the xhair results"""
    spec = importlib.util.spec_from_file_location('_k_c03', KERNEL)
    mod = importlib.util.module_from_spec(spec)
    spec.loader.exec_module(mod)
    cfgs = THOROUGH if tier == 'thorough' else QUICK
    jobs = xhair.plan_jobs(KERNEL, {ob: e for ob, e in mod.HARNESSES.items() if ob in cfgs}, cfgs)
    results = xhair.run_jobs(jobs)
    xhair.absorb(run, results, KERNEL)
    run.functions = list(run.functions) + [f for f in FUNCTIONS if f not in run.functions]
    run.bounds.update({ob: [c.get('label') + (f" ({c.get('parts')} parts)" if c.get('parts', 1) > 1 else '') for c in cs]
                       for ob, cs in cfgs.items()})
    run.cov['kernels_note'] = NOTE
    run.cov['kernels_engine'] = 'CrossHair %s (python3-vt -m crosshair check --report_all --per_condition_timeout T kernels/k_c03.py:LINE)' % xhair.version()
    return results


if __name__ == '__main__':
    # stand-alone smoke run (writes evidence/C03K.json, never evidence/C03.json): python3-vt -m checks.c03_kernels [--tier quick]
    def _main(tier, replay):
        if replay:
            return xhair.replay_file(replay)
        run = chk.Run('C03', tier, 'model_checking', 'stand-alone run of the C03 CrossHair kernels only')
        run_into(run, tier)
        run.pid = 'C03K'
        return run.finish(NOTE)
    chk.main_wrapper(_main)
