"""C10 — result codes and the start pointer follow the protocol: multi-byte feed runs (llsym) vs the abstract machine's consumed count,
OK => chunk consumed, FAIL absorbing, pointer position per code, yields resume without losing or repeating bytes."""
import re
from engines import chk, l3check
from checks.c06 import consume

PID = 'C10'


def main(tier, replay):
    run = chk.Run(PID, tier, 'model_checking', 'llsym multi-call on emitted <p>_feed/<p>_end vs absm over the chunk; z3')
    L = 2 if tier == 'quick' else 3
    run.functions = ['emitted <p>_feed / <p>_end', 'compiled DFA via absm (consumed-byte count, codes)']
    run.bounds = {'chunk_bytes': L, 'chunk_bytes_heavy_arithmetic_programs': '2 (programs marked no-multibyte, gtfs-realtime, and every program with a multiplication in a math expression)', 'calls': 'chunk driven to completion with re-invocation after each yield (<= N+1), plus one further feed/end after FAIL',
                  'pre_state': 'every control state (quick: seeded subset for programs > 24 states), all data within Inv'}
    run.assumptions = ['malloc never fails', 'hooks are pure observers', 'DONE leaves *start on the byte being processed ("last byte read")',
                       'strict-done: abstract machine models the postponed DONE (resting on an accepting state returns OK; the next call returns DONE)']
    jobs = l3check.jobs_for(tier, ('c10',))
    # programs marked `// verif: no-multibyte` (heavy 64-bit arithmetic over several bytes) are left to the one-step checks and C14 in the quick tier
    if tier == 'quick':
        jobs = [j for j in jobs if '// verif: no-multibyte' not in j['src'] and 'gtfs-realtime' not in j['label']]   # gtfs: 64-bit shifts by symbolic amounts (thorough tier only)
    for j in jobs:
        # multiplications in a math expression (decimal accumulation n*10+d) over three symbolic bytes are compared between two differently shaped
        # renderings here (emitted C vs abstract machine) and do not get decided in the time limits: those programs get 2-byte chunks as well
        heavy = '// verif: no-multibyte' in j['src'] or 'gtfs-realtime' in j['label'] or re.search(r'\[[^\]]*\*', j['src']) is not None
        # thorough tier: the programs with heavy multi-byte arithmetic are run with 2-byte chunks from a seeded subset of states (3 bytes from every state does not finish in hours)
        j['L'] = 2 if heavy else L
        j['state_budget'] = (24, 8) if tier == 'quick' else ((40, 24) if heavy else (10 ** 6, 60))
    consume(run, l3check.run_jobs(jobs), ('c10-diff', 'c10-ok', 'c10-fail'), PID)
    return run.finish('Per (program, config, control state): chunk of L symbolic bytes driven through the emitted feed (re-invoking after yields); the solver proves for every path: '
                      'OK only with *start == end; same codes, *start positions (FAIL: offending byte, DONE: last byte read, YIELD: resume offset) and hook/yield trace as the '
                      'abstract machine run over the same bytes; after FAIL one more feed(any byte)/end returns FAIL and leaves the struct unchanged (absorbing).')


if __name__ == '__main__':
    chk.main_wrapper(main)
