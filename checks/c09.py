"""C09 - acceptance implies one-byte-look-ahead unambiguity.

For every generated program the REAL compiler ACCEPTS, z3 is asked for an ambiguity witness of length <= K=8 over the
derivative automata of engines/refre.py (nothing else of nmfu is used):
  case        two-clauses      a string in the languages of two different clauses
              match-vs-continue a string matching one clause that is a proper prefix of a string of another clause
              clause-body      a string matching a clause that a byte c can continue while c can also start the clause body
  greedy case priority-tie     a string matching two different clauses whose (equal) priority is the highest among all matching
  A; B        lookahead        w in L(A) and a byte c with delta_A(w, c) live and c in First(B)
              (A: open-ended regex, optional, loop exit / repeat, end of try / foreach / if / case clause)
The automata are unrolled as ite-chains over symbolic bytes b0..b7 and a symbolic length.  sat on an accepted program is
replayed concretely on the *terms* (derivatives, not the tables used in the encoding): the two reference parses are
constructed, and the machine's silent choice on the witness is recorded (our stepper and nmfu's DFA.trace) => violation.
unsat = no ambiguity witness up to K.  The converse (unambiguous but rejected) is not part of the property.
"""
import json
import z3
from engines import chk, nm, dfz, refre, gen_re

FLAGS = ()
K = 8
ENGINE = ('E2 ambiguity-witness queries: derivative automata (refre) of clause patterns / statement languages unrolled over symbolic bytes b0..b7, '
          'symbolic length and one symbolic look-ahead byte (z3), against the real compiler\'s accept verdict; programs enumerated')


def da_lts(da):
    L = dfz.LTS()
    dead = L.loc(('dead',), 'dead')
    for q in range(da.n):
        L.loc(('q', q), 'q')
    L.start = L.index[('q', da.start)] if da.start >= 0 else dead
    for q in range(da.n):
        row = []
        for cl, j in da.parts[q]:
            row.append(((lambda b, c=cl: dfz.inset(b, c)), L.index[('q', j)] if j >= 0 else dead))
        L.step[L.index[('q', q)]] = row
    return L


class Amb:
    """one solver per program: symbolic bytes, length n <= K, look-ahead byte c; automata unrolled on demand"""

    def __init__(self, stats):
        self.st = stats
        self.s = dfz.new_solver(60000)
        self.bs = [z3.BitVec('b%d' % i, 8) for i in range(K)]
        self.n = z3.BitVec('n', 8)
        self.c = z3.BitVec('c', 8)
        self.s.add(z3.ULE(self.n, K))
        self.at = {}
        self.k = 0

    def at_n(self, da):
        r = self.at.get(id(da))
        if r is None:
            L = da_lts(da)
            self.k += 1
            locs = dfz.unroll(L, self.bs, self.s, 'd%d' % self.k)
            e = locs[K]
            for t in range(K - 1, -1, -1):
                e = z3.If(self.n == t, locs[t], e)
            v = z3.BitVec('at%d' % self.k, 16)
            self.s.add(v == e)
            r = (v, L)
            self.at[id(da)] = r
        return r

    def is_in(self, da, pred):
        v, L = self.at_n(da)
        qs = [L.index[('q', q)] for q in range(da.n) if pred(q)]
        return z3.Or(*[v == i for i in qs]) if qs else z3.BoolVal(False)

    def null(self, da):
        return self.is_in(da, lambda q: da.null[q])

    def cont(self, da):
        return self.is_in(da, lambda q: da.cont[q])

    def live_next(self, da):
        """delta(state after w, c) is live"""
        v, L = self.at_n(da)
        parts = []
        for q in range(da.n):
            cls = [cl for cl, j in da.parts[q] if j >= 0]
            if cls:
                parts.append(z3.And(v == L.index[('q', q)], dfz.inset(self.c, frozenset().union(*cls))))
        return z3.Or(*parts) if parts else z3.BoolVal(False)

    def query(self, cond, name):
        """-> ('unsat', None) | ('sat', (w bytes, c)) | ('unknown', why)"""
        st = self.st
        st.obligations += 1
        self.s.push()
        self.s.add(cond)
        r = st.check(self.s)
        if r == z3.unsat:
            st.discharged += 1
            self.s.pop()
            return 'unsat', None
        if r != z3.sat:
            st.unknown.append('%s: %s' % (name, self.s.reason_unknown()))
            self.s.pop()
            return 'unknown', None
        best = None
        for k in range(K + 1):
            self.s.push()
            self.s.add(self.n == k)
            rr = st.check(self.s)
            self.s.pop()
            if rr == z3.sat:
                best = k
                break
        w = dfz._minimise(self.s, st, self.bs, best, self.n)
        cval = None
        if w is not None:
            self.s.push()
            self.s.add(self.n == best)
            for i, x in enumerate(w):
                self.s.add(self.bs[i] == x)
            if st.check(self.s) == z3.sat:
                cval = self.s.model().eval(self.c, model_completion=True).as_long()
            self.s.pop()
        self.s.pop()
        if w is None:
            return 'unknown', None
        return 'sat', (w, cval)


def term_after(t, bs):
    for b in bs:
        t = refre.deriv(t, b)
    return t


def completion(t):
    """a shortest member of L(t) (bytes) or None when empty"""
    return refre.DA(t).shortest()


def machine_behaviour(comp, syms):
    out = {}
    try:
        mach = dfz.Machine(comp.post)
        outs, log, consumed = dfz.run_machine(mach, syms)
        ok, _ = dfz.validate_against_impl(mach, comp, syms)
        out['machine_outcomes'] = [dfz._js(o) for o in outs]
        out['stepper_equals_nmfu_trace'] = ok
    except (dfz.NotDataFree, dfz.EncodingError) as e:
        out['machine_outcomes'] = 'not data-free (%s); nmfu trace only' % e
    out['nmfu_trace'] = dfz.fmt_log(dfz.impl_log(comp, syms))
    return out


def work(item):
    refre.reset()
    kind, src, queries, idx = item
    res = {'src': src, 'kind': kind, 'verdict': None, 'violations': [], 'inconclusive': [], 'harness': [], 'nq': 0, 'queries': 0, 'solver_time': 0.0,
           'obligations': 0, 'discharged': 0, 'states': 0, 'transitions': 0, 'replayed': 0, 'sat': 0}
    comp = nm.compile_src(src, FLAGS, want_c=False, timeout=30)
    if comp.verdict != 'ok':
        res['verdict'] = {'error': 'rejected', 'crash': 'crash', 'timeout': 'timeout'}[comp.verdict]
        res['error'] = comp.error
        return res
    st = dfz.Stats()
    try:
        b = refre.Builder(src)
        amb = Amb(st)
        if kind == 'case':
            case_queries(res, comp, b, amb)
        else:
            pair_queries(res, comp, b, amb, queries)
        res['states'] = sum(L.locs.__len__() for _, L in amb.at.values())
        res['transitions'] = sum(sum(len(r) for r in L.step.values()) for _, L in amb.at.values()) * K
    except refre.Unsupported as e:
        res['verdict'] = 'unsupported'
        res['error'] = ('Unsupported', str(e))
    res['queries'], res['solver_time'], res['obligations'], res['discharged'] = st.queries, st.time, st.obligations, st.discharged
    res['inconclusive'] += st.unknown
    if res['verdict'] is None:
        res['verdict'] = 'violation' if res['violations'] else ('inconclusive' if res['inconclusive'] or res['harness'] else 'unambiguous')
    return res


def report(res, comp, obligation, witness, what):
    witness = dict(witness)
    witness['src'] = res['src']
    witness['flags'] = list(FLAGS)
    res['violations'].append({'obligation': obligation, 'witness': witness, 'what': what})


def case_queries(res, comp, b, amb):
    tree = refre.find(comp.tree, 'greedy_case_stmt') or refre.find(comp.tree, 'case_stmt')
    stmt = b.stmt(tree)
    greedy, pats, bodies = stmt[1], stmt[2], stmt[3]
    n = len(pats)
    for i in range(n):
        for j in range(n):
            di, ci, pi = pats[i]
            dj, cj, pj = pats[j]
            if ci == cj:
                continue
            if not greedy:
                if i < j:
                    res['nq'] += 1
                    r, m = amb.query(z3.And(amb.null(di), amb.null(dj)), 'two-clauses')
                    if r == 'sat':
                        res['sat'] += 1
                        w = bytes(m[0])
                        if refre.matches(di.term, w) and refre.matches(dj.term, w):
                            res['replayed'] += 1
                            wit = {'w': list(w), 'w_hex': dfz.hexs(w), 'parse1': 'clause %d: %s matches w' % (ci, di.src), 'parse2': 'clause %d: %s matches w' % (cj, dj.src),
                                   'greedy': False, 'kind': 'two-clauses'}
                            wit.update(machine_behaviour(comp, list(w)))
                            report(res, comp, 'two-clauses', wit, 'accepted non-greedy case: %s is matched by two clauses' % dfz.hexs(w))
                        else:
                            res['harness'].append('two-clauses model %s does not replay on the terms' % dfz.hexs(w))
                res['nq'] += 1
                r, m = amb.query(z3.And(amb.null(di), amb.cont(dj)), 'match-vs-continue')
                if r == 'sat':
                    res['sat'] += 1
                    w = bytes(m[0])
                    rest = term_after(dj.term, w)
                    ext = None
                    dd = refre.DA(rest)
                    if dd.start >= 0:
                        for cl, q in dd.parts[dd.start]:
                            if q >= 0:
                                tail = dd.shortest(q)
                                if tail is not None:
                                    ext = bytes([min(cl)]) + tail
                                    break
                    if refre.matches(di.term, w) and ext is not None and refre.matches(dj.term, w + ext):
                        res['replayed'] += 1
                        wit = {'w': list(w), 'w_hex': dfz.hexs(w), 'extension_hex': dfz.hexs(ext), 'parse1': 'clause %d: %s matches w' % (ci, di.src),
                               'parse2': 'clause %d: %s matches w+extension' % (cj, dj.src), 'greedy': False, 'kind': 'match-vs-continue'}
                        wit.update(machine_behaviour(comp, list(w + ext)))
                        report(res, comp, 'match-vs-continue', wit, 'accepted non-greedy case: %s matches one clause and is a proper prefix of a string of another' % dfz.hexs(w))
                    else:
                        res['harness'].append('match-vs-continue model %s does not replay on the terms' % dfz.hexs(w))
            elif i < j and pi == pj:
                res['nq'] += 1
                higher = [amb.null(pats[k][0]) for k in range(n) if pats[k][2] > pi]
                cond = z3.And(amb.null(di), amb.null(dj), *[z3.Not(h) for h in higher])
                r, m = amb.query(cond, 'priority-tie')
                if r == 'sat':
                    res['sat'] += 1
                    w = bytes(m[0])
                    ok = refre.matches(di.term, w) and refre.matches(dj.term, w) and not any(refre.matches(pats[k][0].term, w) for k in range(n) if pats[k][2] > pi)
                    if ok:
                        res['replayed'] += 1
                        wit = {'w': list(w), 'w_hex': dfz.hexs(w), 'parse1': 'clause %d (prio %d): %s matches w' % (ci, pi, di.src),
                               'parse2': 'clause %d (prio %d): %s matches w' % (cj, pj, dj.src), 'greedy': True, 'kind': 'priority-tie'}
                        wit.update(machine_behaviour(comp, list(w)))
                        report(res, comp, 'priority-tie', wit, 'accepted greedy case: %s is matched by two clauses of equal, highest priority %d' % (dfz.hexs(w), pi))
                    else:
                        res['harness'].append('priority-tie model %s does not replay on the terms' % dfz.hexs(w))
    # clause pattern vs its own body (non-greedy: the clause ends by look-ahead)
    if not greedy:
        byclause = {}
        for da, cl, pr in pats:
            byclause.setdefault(cl, []).append(da)
        for cl, das in byclause.items():
            body = bodies[cl]
            if not body or body[0][0] != 'match':
                continue
            A = b.da(refre.alt(*[d.term for d in das]), src=' | '.join(str(d.src) for d in das))
            lookahead_query(res, comp, amb, A, body[0][1], 'clause-body', 'pattern(s) of clause %d' % cl, 'first match of its body', shape='case')


def lookahead_query(res, comp, amb, A, Bda, obligation, adesc, bdesc, prefix=b'', shape=None):
    first = Bda.first()
    res['nq'] += 1
    cond = z3.And(amb.null(A), amb.live_next(A), dfz.inset(amb.c, first))
    r, m = amb.query(cond, obligation)
    if r != 'sat':
        return
    res['sat'] += 1
    w, c = bytes(m[0]), m[1]
    ta = term_after(A.term, w)
    tc = refre.deriv(ta, c)
    v2 = completion(tc)
    v1 = completion(refre.deriv(Bda.term, c))
    if refre.matches(A.term, w) and v2 is not None and v1 is not None and refre.matches(A.term, w + bytes([c]) + v2) and refre.matches(Bda.term, bytes([c]) + v1):
        res['replayed'] += 1
        wit = {'w': list(w), 'w_hex': dfz.hexs(w), 'c': c, 'A': adesc, 'B': bdesc, 'kind': obligation, 'shape': shape,
               'continuation_accepting': bool(tc.null), 'prefix_hex': dfz.hexs(prefix),
               'parse1': 'A consumes %s; B starts at %02x and can complete with %s' % (dfz.hexs(w) or '<nothing>', c, dfz.hexs(v1) or '<nothing>'),
               'parse2': 'A consumes %s %02x %s' % (dfz.hexs(w), c, dfz.hexs(v2))}
        full = list(prefix) + list(w) + [c]
        wit['program_input_hex'] = dfz.hexs(full)
        wit.update(machine_behaviour(comp, full))
        wit['machine_on_parse1_input'] = machine_behaviour(comp, full + list(v1))['machine_outcomes']
        wit['machine_on_parse2_input'] = machine_behaviour(comp, full + list(v2))['machine_outcomes']
        report(res, comp, obligation, wit, 'accepted program: after %s the byte %02x both continues %s and starts %s' % (dfz.hexs(w) or '<nothing>', c, adesc, bdesc))
    else:
        res['harness'].append('%s model w=%s c=%s does not replay on the terms' % (obligation, dfz.hexs(w), c))


def pair_queries(res, comp, b, amb, queries):
    shape = res['kind'].split(':', 1)[-1]
    for q in queries:
        prefix = b''
        if q.get('pre'):
            tp = nm.N.parser.parse('parser { %s }' % q['pre'], start='start')
            prefix = completion(b.lang_seq(refre.find(tp, 'parser_decl').children)) or b''
        ta = nm.N.parser.parse('parser { %s }' % q['A'], start='start')
        tb = nm.N.parser.parse('parser { %s }' % q['B'], start='start')
        A = b.da(b.lang_seq(refre.find(ta, 'parser_decl').children), src=q['A'])
        B = b.da(b.lang_seq(refre.find(tb, 'parser_decl').children), src=q['B'])
        lookahead_query(res, comp, amb, A, B, 'lookahead', q.get('Adesc') or q['A'], q['B'], prefix, shape)


def items_for(tier):
    ncase = 4000 if tier == 'thorough' else 800
    npair = 5000 if tier == 'thorough' else 1000
    items = []
    for s in gen_re.clause_sets(ncase, salt=23):
        items.append(('case', s, None, len(items)))
    for p in gen_re.pairs(npair):
        items.append(('pair:' + p['shape'], p['src'], p['queries'], len(items)))
    return items


def main(tier, replay):
    run = chk.Run('C09', tier, 'model_checking', ENGINE)
    run.functions = ['compiler verdict only: DFA.append_after (join-time conflict test)', 'CaseNode._merge (finish conflicts)', 'OptionalNode.convert / LoopNode.convert (ambiguity tests)',
                     'DFState.transition (duplicate transition guard)']
    run.assumptions = ['programs are enumerated (fixed list + seeded generator); verdict per accepted program',
                       'only witnesses are claimed: sat on an accepted program is a violation; unsat = no witness of length <= K; unambiguous-but-rejected is not checked',
                       'greedy case: continuing while any pattern can continue is the defined resolution, so only equal-priority double matches are ambiguities',
                       'First(B) is the set of first bytes of the language of B; generated B statements are not nullable']
    if replay:
        w = json.load(open(replay))['witness']
        for it in items_for('thorough') + items_for('quick'):
            if it[1] == w['src']:
                r = work(it)
                print(json.dumps({'verdict': r['verdict'], 'violations': r['violations']}, indent=1, default=str)[:4000])
                return chk.EXIT_VIOLATION if r['violations'] else chk.EXIT_OK
        r = work(('case' if 'case {' in w['src'] and 'A' not in w else 'pair', w['src'], [{'A': w.get('A'), 'B': w.get('B')}] if 'A' in w else None, 0))
        print(json.dumps({'verdict': r['verdict'], 'violations': r['violations']}, indent=1, default=str)[:4000])
        return chk.EXIT_VIOLATION if r['violations'] else chk.EXIT_OK
    items = items_for(tier)
    run.bounds = {'K_witness': K, 'programs': len(items), 'flags': list(FLAGS)}
    counters = {}
    bykind = {}
    tot = {'ambiguity_queries': 0, 'sat_models': 0, 'sat_models_replayed': 0}
    for r in dfz.pool_map(work, items, chunksize=4):
        v = r['verdict']
        counters[v] = counters.get(v, 0) + 1
        bykind.setdefault(r['kind'], {}).setdefault(v, 0)
        bykind[r['kind']][v] += 1
        d = {'obligations': r['obligations'], 'discharged': r['discharged'], 'queries': r['queries'], 'solver_time': r['solver_time'],
             'nontrivial': ['C09:' + r['src']] if r['queries'] else [], 'inconclusive': ['%s: %s' % (r['src'][:60], i) for i in r['inconclusive']],
             'harness_errors': ['%s: %s' % (r['src'][:60], h) for h in r['harness']],
             'cov': {'states': r['states'], 'transitions': r['transitions'], 'traces_validated_against_impl': r['replayed']}}
        if v == 'crash':
            d['cov']['compiler_crashes'] = [{'src': r['src'], 'error': r.get('error')}]
        if v == 'unsupported':
            d['cov']['unsupported'] = [{'src': r['src'][:200], 'why': r.get('error')}]
            d['inconclusive'].append('%s: accepted program outside the oracle subset: %s' % (r['src'][:60], r.get('error')))
            d['obligations'] += 1
        run.merge_stats(d)
        tot['ambiguity_queries'] += r['nq']
        tot['sat_models'] += r['sat']
        tot['sat_models_replayed'] += r['replayed']
        for viol in r['violations']:
            run.violation('C09/' + viol['obligation'], viol['witness'], viol['what'])
        if v == 'unambiguous' and r['nq']:
            kk = r['kind'].split(':')[0]
            if len([s for s in run.samples if s.get('family') == r['kind']]) < 2:
                run.sample({'family': r['kind'], 'program': r['src'], 'verdict': 'accepted; %d ambiguity queries unsat up to K=%d' % (r['nq'], K)}, limit=24)
        elif v == 'rejected':
            if len([s for s in run.samples if s.get('verdict') == 'rejected']) < 3:
                run.sample({'family': r['kind'], 'program': r['src'], 'verdict': 'rejected', 'error': str(r.get('error'))[:140]}, limit=40)
        elif v != 'unambiguous':
            run.sample({'family': r['kind'], 'program': r['src'], 'verdict': v, 'detail': str(r.get('error') or r['inconclusive'] or r['harness'])[:300]}, limit=40)
    run.cov['programs'] = len(items)
    run.cov['programs_accepted'] = sum(v for k, v in counters.items() if k in ('unambiguous', 'violation', 'inconclusive'))
    run.cov['programs_rejected_skipped'] = counters.get('rejected', 0)
    run.cov['verdicts'] = counters
    run.cov['verdicts_by_family'] = bykind
    run.cov['witness_bound_K'] = K
    run.cov.update(tot)
    run.cov.setdefault('compiler_crashes', [])
    if run.cov['programs_accepted'] < len(items) // 10:
        run.harness_error('fewer than 10%% of the generated programs were accepted (%s)' % counters)
    return run.finish('per accepted program: z3 ambiguity-witness queries over unrolled derivative automata (symbolic bytes b0..b%d, symbolic length, one symbolic look-ahead byte); '
                      'unsat = no witness of length <= %d. states = automaton locations unrolled, transitions = class transitions x K. traces_validated_against_impl counts sat models '
                      'replayed on the terms and on the machine.' % (K - 1, K))


if __name__ == '__main__':
    chk.main_wrapper(main)
