"""C02 — the result is independent of chunking: every composition of a symbolic chunk through <p>_feed (llsym) vs the single call."""
from engines import chk, l3check
from checks.c06 import consume

PID = 'C02'


def main(tier, replay):
    run = chk.Run(PID, tier, 'model_checking', 'llsym multi-call on emitted <p>_feed; z3')
    L = 2 if tier == 'quick' else 3
    run.functions = ['emitted <p>_feed (CodegenCtx._generate_feed_implementation, _generate_transition_body epilogue, needs_early_advance, _needs_end_check)']
    run.bounds = {'chunk_bytes': L, 'chunk_bytes_heavy_arithmetic_programs': 2, 'compositions': 'all 2^(L-1)-1 splits into >= 2 positive parts', 'pre_state': 'every control state (quick: seeded subset for programs > 24 states), all data within Inv',
                  'yield_reinvocations': 'N_states+1 with unwinding assertion'}
    run.assumptions = ['malloc never fails', 'hooks are pure observers', 'longer chunks follow by the induction argument of DESIGN §4 C02 (not a solver claim)']
    jobs = l3check.jobs_for(tier, ('c02',))
    # programs marked `// verif: no-multibyte` (heavy 64-bit arithmetic over several bytes) are left to the one-step checks and C14 in the quick tier
    if tier == 'quick':
        jobs = [j for j in jobs if '// verif: no-multibyte' not in j['src'] and 'gtfs-realtime' not in j['label']]   # gtfs: 64-bit shifts by symbolic amounts (thorough tier only)
    for j in jobs:
        heavy = '// verif: no-multibyte' in j['src'] or 'gtfs-realtime' in j['label']
        # thorough tier: the programs with heavy multi-byte arithmetic are run with 2-byte chunks from a seeded subset of states (3 bytes from every state does not finish in hours)
        j['L'] = 2 if heavy else L
        j['state_budget'] = (24, 8) if tier == 'quick' else ((40, 24) if heavy else (10 ** 6, 60))
    consume(run, l3check.run_jobs(jobs), ('c02-diff',), PID)
    return run.finish('Per (program, config, control state): the emitted feed is executed symbolically on a chunk of L symbolic bytes as one call and as every composition '
                      'into consecutive calls (re-invoking after each YIELD code); for every pair of overlapping paths the solver proves equal final struct contents, '
                      'hook calls with arguments and snapshots, yield/terminal codes at equal absolute offsets. Pre-state arbitrary within Inv, so it stands for any history.')


if __name__ == '__main__':
    chk.main_wrapper(main)
