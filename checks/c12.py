"""C12 — representation options never change what is parsed: relational llsym step between two builds of one program."""
import time, traceback, copy
from engines import reach, chk, nm, l3 as l3mod, absm, stepcmp, relcmp, replay, l3check, dfaiso
from checks.c06 import consume

PID = 'C12'

# (name, flags) : every variant is compared against the base build of the same -O level
VARIANTS_QUICK = [
    ('dynamic-free', ('-fallocate-str-space-dynamic', '-fdelete-string-free-memory')),   # without on-demand the second flag must change nothing
    ('ondemand-free', ('-fallocate-str-space-dynamic-on-demand', '-fdelete-string-free-memory')),
    ('u8', ('-fstrings-as-u8',)),
    ('hook-per-state+userptr+packed', ('-fhook-per-state', '-finclude-user-ptr', '-fuse-packed-enums', '-fuse-pragma-once', '-fno-use-cplusplus-guard')),
    ('indirect+zerolen', ('-findirect-start-ptr', '-fzero-len-input-support')),
    ('range1', ('-fcollapse-transition-ranges', '--collapsed-range-length', '1')),
]
VARIANTS_THOROUGH = VARIANTS_QUICK + [
    ('ondemand', ('-fallocate-str-space-dynamic-on-demand',)),
    ('dynamic', ('-fallocate-str-space-dynamic',)),
    ('range20-nocollapse', ('-fno-collapse-transition-ranges',)),
    ('dynamic+u8+indirect', ('-fallocate-str-space-dynamic', '-fstrings-as-u8', '-findirect-start-ptr')),
    ('ondemand-free+hookstate+packed+range2', ('-fallocate-str-space-dynamic-on-demand', '-fdelete-string-free-memory', '-fhook-per-state', '-fuse-packed-enums',
                                               '-fcollapse-transition-ranges', '--collapsed-range-length', '2')),
]
BASES = [('O1', ()), ('O3-eof', ('-O3', '-feof-support'))]


def work(job):
    t0 = time.time()
    out = {'label': job['label'], 'cname': job['cname'], 'flags': list(job['vflags']), 'status': 'ok', 'findings': [], 'stats': None, 'wall': 0}
    try:
        ca = nm.compile_src(job['src'], job['bflags'])
        if ca.verdict != 'ok':
            out['status'] = 'rejected:' + ca.verdict
            return out
        try:
            la = l3mod.L3(ca)
        except (l3mod.Unencodable, absm.Unsupported) as e:
            out['status'] = 'unencodable:base ' + str(e)[:160]
            return out
        cb = nm.compile_src(job['src'], tuple(job['bflags']) + tuple(job['vflags']))
        if cb.verdict != 'ok':
            out['status'] = 'rejected:variant ' + cb.verdict + str(cb.error)[:100]
            return out
        try:
            lb = l3mod.L3(cb)
        except (l3mod.Unencodable, absm.Unsupported) as e:
            out['status'] = 'unencodable:variant ' + str(e)[:160]
            return out
        la.label = job['label'] + ' [' + job['bname'] + ']'
        lb.cname = job['cname']
        st = stepcmp.StepStats()
        m, why = dfaiso.iso(ca.post, cb.post)
        if m is None:
            out['status'] = 'unmatched:machines of the two builds are not structurally isomorphic (' + str(why) + ')'
            return out
        idxmap = {ca.post.index[a]: cb.post.index[b] for a, b in m.items() if a in ca.post.index and b in cb.post.index}
        n = len(ca.post.states)
        sel = sorted(idxmap)
        budget = job.get('state_budget')
        if budget and len(sel) > budget:
            import random
            sel = sorted(random.Random(chk.seed() * 31 + n).sample(sel, budget))
        finds = relcmp.rel_start(la, lb, st)
        for sidx in sel:
            for alloc in stepcmp.alloc_masks(lb):
                finds += relcmp.rel_state(la, lb, sidx, False, alloc, st, idxmap=idxmap)
                if la.eof and lb.eof:
                    finds += relcmp.rel_state(la, lb, sidx, True, alloc, st, idxmap=idxmap)
        seen = {}
        for f in finds:
            seen.setdefault((f['detail'], f['pre']['state'], f['sym'], str(f.get('alloc_b'))), f)
        mb = None
        for f in list(seen.values()):
            cond, datab = f.pop('_cond', None), f.pop('_data_b', None)
            if not f.get('one_sided_fault'):
                continue
            # reachability of the faulting pre-state through the public API (variant machine: it tracks on-demand allocation)
            if mb is None:
                mb = absm.Machine(cb.post, lb.layout, strict_done=lb.strict, unsafe_index=cb.cfg['UNSAFE_STRING_INDEXING'], free_on_delete=cb.cfg['DELETE_STRING_FREE_MEMORY'] and lb.ondemand)
            try:
                inp = reach.find_input(mb, lb.layout, cb.post.states[idxmap[f['pre']['state']]], cond, datab, maxlen=6 if job['tier'] == 'quick' else 10,
                                       max_paths=300 if job['tier'] == 'quick' else 2000, ondemand=lb.ondemand, alloc=f['alloc_b'] if lb.ondemand else None)
            except Exception as e:
                inp = None
                st.d['cov'].setdefault('reach_errors', []).append(repr(e)[:120])
            if inp is None:
                st.d['cov']['one_sided_faults_unreached_left_to_C03'] = st.d['cov'].get('one_sided_faults_unreached_left_to_C03', 0) + 1
                for k_, v_ in list(seen.items()):
                    if v_ is f:
                        del seen[k_]
                continue
            f['reach'] = inp
        for f in seen.values():
            f['label'] = job['label']; f['cname'] = job['cname']; f['flags'] = list(cb.flags)
            f['cfg_on'] = sorted(k for k, v in cb.cfg.items() if v and not k.startswith(('DEBUG', 'VERBOSE')))
            calls = [] if f.get('start_only') else [('end',)] if f['sym'] == 'end' else [('feed', [f['byte']])]
            if f.get('start_only'):
                # replay: both builds run start() on a struct filled with 0x5a and dump the outputs
                l1, d1 = replay.run_c(ca, la.layout, {'calls': []})
                l2, d2 = replay.run_c(cb, lb.layout, {'calls': []})
                if l1 is None or l2 is None:
                    f['replay'] = {'reproduced': None, 'note': 'replay build failed ' + (d1 or d2)[:160]}
                else:
                    diff = replay.logs_differ(l1, l2, compare_offsets=False)
                    if diff is None:
                        # the general comparison reads strings up to their length; after start() the terminator position counts too
                        r1 = [e for e in l1 if e[0] == 'RET']; r2 = [e for e in l2 if e[0] == 'RET']
                        if r1 and r2 and r1[0][3] and r2[0][3]:
                            for k_ in r1[0][3]:
                                x, y = str(r1[0][3].get(k_)), str(r2[0][3].get(k_))
                                if ':' in x and ':' in y and 'NULL' not in x and 'NULL' not in y and '?' not in x and '?' not in y and x != y:
                                    diff = f'after start(): {k_} is {x} in the base build and {y} in the variant (length:bytes/terminator)'
                    f['replay'] = {'reproduced': diff is not None, 'diff': diff, 'base': l1[:1], 'variant': l2[:1]}
                out['findings'].append(f)
                continue
            if f.get('one_sided_fault'):
                # from start(): the reaching input, then the faulting byte / end()
                calls = [('feed', list(f['reach']) + ([f['byte']] if f['sym'] != 'end' else []))] + ([('end',)] if f['sym'] == 'end' else [])
                l1, d1 = replay.run_c(ca, la.layout, {'calls': calls})
                l2, d2 = replay.run_c(cb, lb.layout, {'calls': calls})
                if l1 is None or l2 is None:
                    f['replay'] = {'reproduced': None, 'note': 'replay build failed ' + (d1 or d2)[:160]}
                else:
                    diff = replay.logs_differ(l1, l2, compare_offsets=la.indirect and lb.indirect)
                    f['replay'] = {'reproduced': diff is not None, 'diff': diff, 'input': calls, 'base': l1[-2:], 'variant': l2[-2:]}
                f['bytes'] = list(f['reach'])
                out['findings'].append(f)
                continue
            pa = f['pre']
            pb = copy.deepcopy(pa)
            pb['state'] = idxmap[pa['state']]
            for nme, sv in pb['strs'].items():
                sv['alloc'] = True if f['alloc_b'] is None else bool(f['alloc_b'].get(nme, True))
            l1, d1 = replay.run_c(ca, la.layout, {'pre': pa, 'calls': calls})
            l2, d2 = replay.run_c(cb, lb.layout, {'pre': pb, 'calls': calls})
            if l1 is None or l2 is None:
                f['replay'] = {'reproduced': None, 'note': 'replay build failed ' + (d1 or d2)[:160]}
            else:
                diff = replay.logs_differ(l1, l2, compare_offsets=la.indirect and lb.indirect)
                if diff is None:
                    s1 = [e for e in l1 if e[0] == 'STATE']; s2 = [e for e in l2 if e[0] == 'STATE']
                    r1 = [e for e in l1 if e[0] == 'RET']
                    if s1 and s2 and idxmap.get(s1[0][1]) != s2[0][1] and r1 and r1[-1][1] in ('OK',):
                        diff = f'control state {s1[0][1]} vs {s2[0][1]}'
                if diff is None and 'never allocates on demand' in f['detail']:
                    # the logs print NULL for a NULL buffer pointer (and the comparison reads it as the empty string): in a build without on-demand
                    # allocation no buffer pointer may ever be NULL after start()
                    for lg, lx in ((l1, la), (l2, lb)):
                        rr = [e for e in lg if e[0] == 'RET']
                        if rr and not lx.ondemand and lx.dynamic and any(str(v).split(':')[-1].startswith('NULL') for v in rr[-1][3].values()):
                            diff = 'a string buffer pointer is NULL after the step in a build without on-demand allocation: ' + str(rr[-1][3])[:120]
                f['replay'] = {'reproduced': diff is not None, 'diff': diff, 'base': l1[-2:], 'variant': l2[-2:]}
            out['findings'].append(f)
        st.d['cov']['programs'] = 1
        out['stats'] = st.d
    except Exception as e:
        out['status'] = 'harness-error:' + type(e).__name__ + ':' + str(e)[:300] + ' | ' + traceback.format_exc()[-500:]
    out['wall'] = time.time() - t0
    return out


def main(tier, replay_path):
    run = chk.Run(PID, tier, 'translation_validation', 'relational llsym step between two builds; z3')
    variants = VARIANTS_QUICK if tier == 'quick' else VARIANTS_THOROUGH
    run.functions = ['emitted <p>_feed/<p>_end of two builds (storage-mode branches of the action templates, hook call emission, start-pointer mode branches, range-collapsed byte tests)']
    run.bounds = {'per_query': 'one symbolic byte / end from every control state (quick: seeded subset for large programs) with identical abstract data (alpha-related pre-states)',
                  'variants': [v[0] for v in variants], 'bases': [b[0] for b in BASES]}
    run.assumptions = ['states matched by index (determinism of compilation is C20)', 'malloc never fails', 'hooks are pure observers',
                       'a NULL on-demand buffer is alpha-related to the empty string']
    jobs = []
    for label, src in l3check.programs(tier):
        for bname, bflags in BASES:
            if tier == 'quick' and bname != 'O1' and len(src) > 1500:
                continue
            for vname, vflags in variants:
                jobs.append({'label': label, 'src': src, 'bname': bname, 'bflags': bflags, 'cname': bname + '~' + vname, 'vflags': vflags,
                             'state_budget': 24 if tier == 'quick' else 120, 'tier': tier})
    jobs.sort(key=lambda j: -len(j['src']))
    l3check_work = l3check.work
    l3check.work = work   # reuse the pool driver
    try:
        consume(run, l3check.run_jobs(jobs), ('c12-diff',), PID)
    finally:
        l3check.work = l3check_work
    return run.finish('Two builds of each program (base vs one representation-option variant) are executed symbolically from the same control index and the same abstract data on '
                      'one symbolic byte / End; for every pair of overlapping paths the solver proves equal result codes, stored state, hook calls (name, inval, snapshots), '
                      'consumed offset and alpha-related outputs. By induction on the relation: identical parse on every input and chunking.')


if __name__ == '__main__':
    chk.main_wrapper(main)
