"""C05 — optimisation never changes behaviour: solver-checked one-step simulation (eager normal form) between the pre- and
post-optimisation DFA of one real compilation, for every subset of the DFA optimisation flags and thresholds; BMC from start()."""
import itertools, time, traceback
from engines import chk, nm, absm, m2m, stepcmp, dfaiso, l3check, replay
from checks.c06 import consume

PID = 'C05'
OPT = ['simplify-else-conditions', 'remove-inaccesible-states', 'shortcircuit-fallthroughs']


def configs(tier):
    cf = []
    for k in range(0, 4):
        for sub in itertools.combinations(OPT, k):
            flags = ['-O0'] + ['-f' + x for x in sub]
            cf.append(('+'.join(x.split('-')[0] for x in sub) or 'none', tuple(flags)))
            if 'shortcircuit-fallthroughs' in sub:
                for th in ((0, 1) if tier == 'quick' else (0, 1, 2, 5)):
                    cf.append(('+'.join(x.split('-')[0] for x in sub) + f'/max{th}', tuple(flags + ['--max-shortcircuit-fallthrough', str(th)])))
                if tier != 'quick':
                    cf.append(('+'.join(x.split('-')[0] for x in sub) + '/pen0', tuple(flags + ['--max-shortcircuit-action-penalty', '0'])))
    cf.append(('O3', ('-O3',)))
    cf.append(('O2', ('-O2',)))
    return cf


def work(job):
    t0 = time.time()
    out = {'label': job['label'], 'cname': job['cname'], 'flags': list(job['flags']), 'status': 'ok', 'findings': [], 'stats': None, 'wall': 0}
    try:
        c = nm.compile_src(job['src'], job['flags'], want_c=False)
        if c.verdict != 'ok':
            out['status'] = 'rejected:' + c.verdict + str(c.error)[:100]
            return out
        try:
            L = absm.Layout(c.spec)
        except absm.Unsupported as e:
            out['status'] = 'unsupported:' + str(e)
            return out
        st = stepcmp.StepStats()
        key = f"{job['label']} [{job['cname']}]"
        eof = c.cfg['EOF_SUPPORT']
        strict = c.cfg['STRICT_DONE_TOKEN_GENERATION']
        ma = absm.Machine(c.pre, L, strict_done=strict); mb = absm.Machine(c.post, L, strict_done=strict)
        rel = {s: s for s in c.pre.states if s in c.post.index}
        fails = m2m.step_relation(ma, mb, L, rel, st, eof, key)
        K = job['K'] if (fails or len(c.post.states) <= job['bmc_states']) else 0
        wit = []
        if K:
            for with_end in ([False, True] if eof else [False]):
                # a failed step is chased further from start(): small machines get up to 7 bytes
                w = m2m.bmc(ma, mb, L, K if not fails else (7 if len(c.pre.states) <= 14 else max(K, 5)), with_end, st, key, max_paths=job['max_paths'] * (4 if fails else 1))
                if w is None:
                    if fails:
                        st.d['inconclusive'].append(f'{key}: step relation failed and BMC exceeded its path budget')
                else:
                    wit += w
        if fails and not wit:
            st.d['cov'].setdefault('failed_steps_without_bounded_witness', []).append({'program': key, 'steps': fails[:3]})
            st.d['unreached'].append({'obligation': f'C05/step:{key}', 'what': 'one-step simulation fails but no input of length <= K from start() shows a difference', 'detail': str(fails[:2])})
        seen = set()
        for w in wit:
            k = (tuple(w['input'][:3]), w['end'])
            if k in seen or len(seen) >= 4:
                continue
            seen.add(k)
            ta = m2m.concrete_trace(ma, L, w['input'], w['end']); tb = m2m.concrete_trace(mb, L, w['input'], w['end'])
            f = {'kind': 'c05-diff', 'what': 'optimised machine behaves differently', 'detail': w['detail'], 'sym': 'input', 'pre': {'state': 0, 'vals': {}, 'strs': {}},
                 'bytes': w['input'], 'label': job['label'], 'cname': job['cname'], 'flags': list(c.flags), 'end': w['end'],
                 'replay': {'reproduced': ta != tb, 'unoptimised': str(ta)[:600], 'optimised': str(tb)[:600]}}
            out['findings'].append(f)
        st.d['cov']['programs'] = 1
        st.d['cov']['traces_validated_against_impl'] = len(seen)
        out['stats'] = st.d
    except Exception as e:
        out['status'] = 'harness-error:' + type(e).__name__ + ':' + str(e)[:300] + ' | ' + traceback.format_exc()[-500:]
    out['wall'] = time.time() - t0
    return out


def work_delete(job):
    """-fuse-delete-for-empty-string changes the AST: two compilations compared over a structural state correspondence"""
    t0 = time.time()
    out = {'label': job['label'], 'cname': job['cname'], 'flags': list(job['flags']), 'status': 'ok', 'findings': [], 'stats': None, 'wall': 0}
    try:
        ca = nm.compile_src(job['src'], tuple(job['flags']) + ('-fno-use-delete-for-empty-string',), want_c=False)
        cb = nm.compile_src(job['src'], tuple(job['flags']) + ('-fuse-delete-for-empty-string',), want_c=False)
        if ca.verdict != 'ok' or cb.verdict != 'ok':
            out['status'] = 'rejected:' + ca.verdict + '/' + cb.verdict
            if ca.verdict != cb.verdict:
                out['status'] = 'harness-error:verdict differs with use-delete-for-empty-string'
            return out
        L = absm.Layout(ca.spec)
        st = stepcmp.StepStats()
        key = f"{job['label']} [{job['cname']}]"
        m, why = dfaiso.iso(ca.post, cb.post)
        if m is None:
            out['status'] = 'unmatched:' + str(why)
            return out
        ma = absm.Machine(ca.post, L); mb = absm.Machine(cb.post, L)
        fails = m2m.step_relation(ma, mb, L, m, st, ca.cfg['EOF_SUPPORT'], key)
        for fl in fails[:3]:
            st.d['unreached'].append({'obligation': f'C05/delete-step:{key}', 'what': 'step differs', 'detail': str(fl)})
        if fails:
            w = m2m.bmc(ma, mb, L, 5, False, st, key, max_paths=job['max_paths']) or []
            for x in w[:2]:
                ta = m2m.concrete_trace(ma, L, x['input'], False); tb = m2m.concrete_trace(mb, L, x['input'], False)
                out['findings'].append({'kind': 'c05-diff', 'what': 'use-delete-for-empty-string changes behaviour', 'detail': x['detail'], 'sym': 'input',
                                        'pre': {'state': 0, 'vals': {}, 'strs': {}}, 'bytes': x['input'], 'label': job['label'], 'cname': job['cname'], 'flags': list(cb.flags),
                                        'replay': {'reproduced': ta != tb, 'a': str(ta)[:500], 'b': str(tb)[:500]}})
        st.d['cov']['programs'] = 1
        out['stats'] = st.d
    except Exception as e:
        out['status'] = 'harness-error:' + type(e).__name__ + ':' + str(e)[:300] + ' | ' + traceback.format_exc()[-500:]
    out['wall'] = time.time() - t0
    return out


def dispatch(job):
    return work_delete(job) if job.get('delete') else work(job)


def main(tier, replay_path):
    run = chk.Run(PID, tier, 'translation_validation', 'absm eager one-step simulation pre- vs post-optimisation DFA (identity relation) + BMC; z3')
    run.functions = ['DfaCompileCtx._optimize_remove_inaccessible', '_optimize_simplify_transition_matches', '_optimize_shortcircuit_fallthroughs', 'DFState.compute_foreign_else_definition',
                     'ParseCtx (use-delete-for-empty-string rewrite)']
    cf = configs(tier)
    K = 3 if tier == 'quick' else 5
    run.bounds = {'step': 'every state in both machines x symbolic byte/End x all data (no input-length bound: inductive)', 'bmc_K': K, 'configs': [c[0] for c in cf],
                  'collapse-transition-ranges': 'changes C text only: covered by C06 holding under several range thresholds'}
    run.assumptions = ['eager normal form on both sides absorbs exactly the permitted one-position shift of input-independent actions', 'states keep their identity across optimisation (guarded phase observer)',
                       'arithmetic UB excluded']
    jobs = []
    for label, src in l3check.programs(tier):
        for cname, flags in cf:
            jobs.append({'label': label, 'src': src, 'cname': cname, 'flags': flags, 'K': K, 'bmc_states': 30 if tier == 'quick' else 60, 'max_paths': 1500 if tier == 'quick' else 8000})
        jobs.append({'label': label, 'src': src, 'cname': 'delete-for-empty', 'flags': ('-O1',), 'delete': True, 'max_paths': 3000})
    jobs.sort(key=lambda j: -len(j['src']))
    orig = l3check.work
    l3check.work = dispatch
    try:
        consume(run, l3check.run_jobs(jobs), ('c05-diff',), PID)
    finally:
        l3check.work = orig
    return run.finish('For each program and each subset of the DFA optimisation flags (x thresholds) the machine before and after optimisation of the SAME compilation are compared: '
                      'for every shared resting state, a symbolic byte (and End) and all data, one eager-normal-form step gives equal events (hooks with snapshots, yields, finishes), outputs, '
                      'consumption, accepting status and successor. A failed step triggers BMC from start(); only an input whose concrete traces differ is a violation.')


if __name__ == '__main__':
    chk.main_wrapper(main)
