"""C13 — macros behave exactly like their textual expansion: the macro program and the program produced by our own textual
expander are both compiled by the real compiler; verdicts must agree and the two machines are compared by solver-checked
one-step simulation (eager normal form) over a structural correspondence, else BMC."""
import os, time, traceback
from engines import chk, nm, absm, m2m, stepcmp, dfaiso, l3check, macroexp, gen_macro
from checks.c06 import consume

PID = 'C13'


def work(job):
    t0 = time.time()
    out = {'label': job['label'], 'cname': job['expect'], 'flags': [], 'status': 'ok', 'findings': [], 'stats': None, 'wall': 0}
    try:
        st = stepcmp.StepStats()
        src = job['src']
        key = job['label']

        def finding(kind, what, detail, extra=None, reproduced=True):
            f = {'kind': kind, 'what': what, 'detail': detail, 'sym': 'program', 'pre': {'state': 0, 'vals': {}, 'strs': {}}, 'label': job['label'], 'cname': job['expect'],
                 'flags': [], 'source': src, 'replay': {'reproduced': reproduced}, 'shadowing': info.get('shadowing', False)}
            f.update(extra or {})
            out['findings'].append(f)
        info = {}
        ca = nm.compile_src(src, want_c=False)
        st.d['obligations'] += 1
        if ca.verdict in ('crash', 'timeout'):
            st.d['cov'].setdefault('compiler_crashes_C18', []).append(f'{key}: {ca.error}')
        if job['expect'] == 'reject':
            if ca.verdict == 'ok':
                finding('c13-verdict', 'wrong argument kind/count accepted', 'macro program with a wrong argument is accepted without a diagnosed error')
            elif ca.verdict == 'error':
                st.d['discharged'] += 1
            else:
                finding('c13-verdict', 'wrong argument kind/count is not a diagnosed error', f'compiler {ca.verdict}: {ca.error}')
            st.d['cov']['programs'] = 1
            out['stats'] = st.d
            return out
        try:
            info = {}
            exp = macroexp.expand(src, info=info)
        except macroexp.ExpandError as e:
            out['status'] = 'unsupported:own expander: ' + str(e)
            return out
        cb = nm.compile_src(exp, want_c=False)
        va = 'ok' if ca.verdict == 'ok' else 'rejected'
        vb = 'ok' if cb.verdict == 'ok' else 'rejected'
        if va != vb:
            finding('c13-verdict', 'accepted/rejected differently from the textual expansion', f'macro program: {ca.verdict} {ca.error}; expansion: {cb.verdict} {cb.error}', {'expansion': exp})
            st.d['cov']['programs'] = 1
            out['stats'] = st.d
            return out
        st.d['discharged'] += 1
        if va != 'ok':
            st.d['cov']['programs'] = 1
            out['stats'] = st.d
            return out
        L = absm.Layout(ca.spec)
        strict = ca.cfg['STRICT_DONE_TOKEN_GENERATION']
        ma = absm.Machine(ca.post, L, strict_done=strict); mb = absm.Machine(cb.post, L, strict_done=strict)
        m, why = dfaiso.iso(ca.post, cb.post)
        fails = m2m.step_relation(ma, mb, L, m, st, ca.cfg['EOF_SUPPORT'], key) if m is not None else None
        if m is not None and not fails:
            st.d['cov']['certificates'] = 1
        need_bmc = m is None or fails or job['always_bmc']
        if need_bmc:
            if m is None or fails:
                st.d['cov'].setdefault('not_isomorphic', []).append(f'{key}: {why or fails[:1]}')
            wit = []
            for with_end in ([False, True] if ca.cfg['EOF_SUPPORT'] else [False]):
                w = m2m.bmc(ma, mb, L, job['K'], with_end, st, key, max_paths=job['max_paths'])
                if w is None:
                    if m is None or fails:
                        st.d['inconclusive'].append(f'{key}: not isomorphic and BMC over budget')
                else:
                    wit += w
            for x in wit[:2]:
                ta = m2m.concrete_trace(ma, L, x['input'], x['end']); tb = m2m.concrete_trace(mb, L, x['input'], x['end'])
                finding('c13-diff', 'macro program behaves differently from its textual expansion', x['detail'], {'bytes': x['input'], 'expansion': exp,
                        'replay': {'reproduced': ta != tb, 'macro': str(ta)[:400], 'expanded': str(tb)[:400]}})
        st.d['cov']['programs'] = 1
        if len(st.d['samples']) < 3:
            st.d['samples'].append({'program': key, 'expansion_head': exp[:300]})
        out['stats'] = st.d
    except Exception as e:
        out['status'] = 'harness-error:' + type(e).__name__ + ':' + str(e)[:300] + ' | ' + traceback.format_exc()[-500:]
    out['wall'] = time.time() - t0
    return out


def main(tier, replay_path):
    run = chk.Run(PID, tier, 'translation_validation', 'two real compilations (macro program vs own textual expansion) compared by absm one-step simulation / BMC; z3')
    run.functions = ['ParseCtx._parse_macro_call', 'Macro.bind_arguments_for / should_early_bind', 'ParseCtx._lookup_named_entity']
    K = 4 if tier == 'quick' else 6
    run.bounds = {'bmc_K': K, 'programs': 'fixed family covering every argument kind, nesting, shadowing, repeated calls + seeded variations + corpus macro programs'}
    run.assumptions = ['names documented as undefined-priority (argument named like a global hook/macro) are avoided', 'expander splices source text by lark token positions']
    progs = gen_macro.programs(chk.seed(), 12 if tier == 'quick' else 80)
    for p in nm.corpus_files(('ok', 'fail', 'verif')):
        s = nm.read(p)
        lab = os.path.basename(p)
        if 'macro ' in s and not lab.startswith('duplicate'):
            progs.append((lab, s, 'reject' if 'macro-arg' in lab else 'same'))
    jobs = [{'label': n, 'src': s, 'expect': e, 'K': K, 'max_paths': 3000 if tier == 'quick' else 12000, 'always_bmc': True} for n, s, e in progs]
    orig = l3check.work
    l3check.work = work
    try:
        consume(run, l3check.run_jobs(jobs), ('c13-diff', 'c13-verdict'), PID)
    finally:
        l3check.work = orig
    return run.finish('Each macro program is expanded textually by an independent expander; both texts go through the real compiler. Verdicts must agree (wrong kind/count must be a diagnosed error); '
                      'accepted pairs are proved equivalent by a solver-verified one-step simulation over a structural state correspondence (all inputs) and by BMC up to K bytes.')


if __name__ == '__main__':
    chk.main_wrapper(main)
