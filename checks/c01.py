"""C01 — accepted programs behave as their procedural reading prescribes: reference interpreter (refsem, on the parse tree and the
source text) vs abstract machine over the real compiled DFA (eager normal form), both executed symbolically over all inputs up to
K bytes (+ end of input); trace-inequality queries decided by z3."""
import os, random, time, traceback, glob
import z3
from engines import chk, nm, absm, m2m, stepcmp, symx, refsem, refre, macroexp, l3check, replay, gen_c01
from checks.c06 import consume

PID = 'C01'


def validate_refsem():
    """the repo's own annotated expectations guard the oracle: returns (n_ok, [mismatches])"""
    good, bad = 0, []
    for f in sorted(glob.glob(os.path.join(chk.REPO, 'example', 'test', '*.ok.nmfu'))):
        src = nm.read(f)
        cases = []
        for l in src.splitlines():
            if l.startswith('// ok: '):
                cases.append(('ok', l[7:]))
            elif l.startswith('// bad: '):
                cases.append(('bad', l[8:]))
            elif l.startswith('// finish-'):
                cases.append((l[10:l.index(':')], l[l.index(' ', 3) + 1:]))
        if not cases:
            continue
        try:
            text = macroexp.expand(src) if 'macro ' in src else src
            prog = refsem.Program(nm.N.parser.parse(text, start='start'), text)
        except (refsem.Unsupported, macroexp.ExpandError, refre.Unsupported):
            continue
        for kind, t in cases:
            inp = t.encode('latin-1')
            try:
                r = refsem.run(prog, [z3.BitVecVal(b, 8) for b in inp], z3.BitVecVal(len(inp), 8), False)(symx.Ctx())
            except (refsem.Unsupported, refre.Unsupported):
                break
            okish = r.code == 'DONE' or r.code.startswith('FINISH')
            full = r.pos == len(inp) or r.code.startswith('FINISH') or (r.code == 'DONE' and r.fin)
            verdict = ('ok' if okish and full else 'bad') if kind in ('ok', 'bad') else (r.code[7:] if r.code.startswith('FINISH_') and full else r.code)
            if verdict == kind:
                good += 1
            else:
                bad.append(f'{os.path.basename(f)} {kind} {t!r} -> {r.code} pos {r.pos}')
    return good, bad


def events_prefix_conds(layout, mt, rt, full, upto=None):
    """machine trace mt must be a prefix of (full: equal to) reference trace rt, events compared by content.
    upto = number of bytes the reference had consumed when the run stopped (end of input / error): only the events the reference stamps at
    that very position are pending and may be missing on the machine side; an event stamped at an earlier position lies before a byte the
    machine has finished processing and must have been performed (DESIGN C01 slack (a)/(b))."""
    conds = []
    if upto is not None and isinstance(upto, int):
        need = sum(1 for e in rt if len(e) > 2 and isinstance(e[2], int) and e[2] < upto)
        if len(mt) < need:
            conds.append((f'events: machine performed {[e[:2] for e in mt]} but the reference had performed {[e[:3] for e in rt[:need]]} before the last byte', z3.BoolVal(False)))
            return conds
    if len(mt) > len(rt) or (full and len(mt) != len(rt)):
        conds.append((f'events: machine {[e[:2] for e in mt]} vs reference {[e[:2] for e in rt]}', z3.BoolVal(False)))
        return conds
    for i, (x, y) in enumerate(zip(mt, rt)):
        if x[0] != y[0] or x[1] != y[1]:
            conds.append((f'event #{i}: machine {x[:2]} vs reference {y[:2]}', z3.BoolVal(False)))
            return conds
        if x[0] == 'hook':
            conds += m2m.data_equal_conds(layout, x[3], y[3], tag=f'hook #{i} {x[1]}: ')
    return conds


def pair_conds(layout, ref, mach, nlen_is):
    """conditions under which machine path `mach` (trace, (code, i), data, ubs, i) is an allowed variant of reference result `ref`"""
    mt, (mcode, mi), mdata, mubs, _ = mach
    rt = ref.trace
    if mcode.startswith('END:'):
        mcode = mcode[4:]
        at_end = True
    else:
        at_end = False
    if at_end and mcode == 'OK':
        return []      # a yield returned from end(): the protocol does not define what follows; outside the claim
    if mcode in ('UNWIND', 'TERM', 'STUCK'):
        return [(f'machine outcome {mcode}', z3.BoolVal(False))]
    if ref.code == 'INCOMPLETE':
        want = 'FAIL' if at_end else 'INCOMPLETE'      # end of input in the middle (e.g. during a wait): end() reports FAIL
        conds = [(f'outcome (reference INCOMPLETE, machine {mcode})', z3.BoolVal(mcode == want))]
        return conds + events_prefix_conds(layout, mt, rt, False, upto=ref.pos)
    if ref.code == 'FAIL':
        conds = [(f'outcome (reference FAIL, machine {mcode})', z3.BoolVal(mcode == 'FAIL'))]
        return conds + events_prefix_conds(layout, mt, rt, False, upto=ref.pos)
    # DONE / FINISH_x
    if mcode == ref.code:
        conds = events_prefix_conds(layout, mt, rt, True)
        conds += m2m.data_equal_conds(layout, mdata, ref.snap, tag='final ')
        return conds
    if ref.code == 'DONE' and not ref.fin and mcode == 'FAIL':
        # slack (c): the program ended by look-ahead on a byte nothing accepts; the machine may report that byte as a mismatch.
        # Only allowed when the reference left input unconsumed.
        return [('reference left a trailing byte unconsumed', z3.Not(nlen_is(ref.pos)))] + events_prefix_conds(layout, mt, rt, True)
    return [(f'outcome (reference {ref.code}, machine {mcode})', z3.BoolVal(False))]


TIME_BUDGET = 600


def compare(prog, comp, layout, K, with_end, st, key, max_paths):
    d = st.d
    solver = z3.Solver(); solver.set('timeout', 30000)
    bs = [z3.BitVec(f'in_{i}', 8) for i in range(K)]
    nvar = z3.BitVec('n_len', 8)
    base = [z3.ULE(nvar, K)]
    sx = {'queries': 0, 'solver_time': 0.0}
    machine = absm.Machine(comp.post, layout, strict_done=False)
    try:
        deadline = time.time() + TIME_BUDGET   # per exploration; a program that is not explored in time is listed as not decided (like the path budget)
        rp = symx.explore(refsem.run(prog, bs, nvar, with_end), solver, assumptions=base, stats=sx, max_paths=max_paths, deadline=deadline)
        mp = symx.explore(m2m.erun(machine, layout, bs, with_end, nvar=nvar, start_actions=comp.pctx.start_actions), solver, assumptions=base, stats=sx, max_paths=max_paths, deadline=deadline)
    except symx.PathBudget:
        d['cov'].setdefault('path_budget_exceeded', []).append(key)
        return None
    d['queries'] += sx['queries']; d['solver_time'] += sx['solver_time']
    d['cov']['states'] += len(rp)
    d['cov']['transitions'] += len(mp)
    out = []
    pcB = {i: (z3.And(*pc) if pc else z3.BoolVal(True)) for i, (pc, r) in enumerate(mp)}
    # coverage: the reference paths partition the input space (by construction of explore); vacuity: each region non-empty (explore only keeps feasible paths)
    t_cmp = time.time()
    for pc, ref in rp:
        if time.time() - t_cmp > 2 * TIME_BUDGET:
            d['cov'].setdefault('path_budget_exceeded', []).append(key + ' (time budget in the pairwise comparison)')
            return None
        solver.push(); solver.add(*base, *pc, z3.Not(z3.Or(*ref.ubs)) if ref.ubs else z3.BoolVal(True))
        remaining = list(range(len(mp)))
        while True:
            r0 = solver.check(); d['queries'] += 1
            if r0 != z3.sat:
                if r0 == z3.unknown:
                    d['inconclusive'].append(f'{key} overlap')
                break
            mdl0 = solver.model()
            j = next((i for i in remaining if z3.is_true(mdl0.eval(pcB[i], model_completion=True))), None)
            if j is None:
                d['harness_errors'].append(f'machine paths do not cover the input space at {key}'); break
            remaining.remove(j)
            mach = mp[j][1]
            conds = pair_conds(layout, ref, mach, lambda p: nvar == p)
            goal = z3.And(*[c for _, c in conds]) if conds else z3.BoolVal(True)
            d['obligations'] += 1; d['cov']['pairs'] += 1
            solver.push(); solver.add(pcB[j], z3.Not(z3.Or(*mach[3])) if mach[3] else z3.BoolVal(True), z3.Not(goal))
            r, mdl = symx.robust_check(solver); d['queries'] += 1
            solver.pop()
            if r == z3.unsat:
                d['discharged'] += 1
            elif r == z3.unknown:
                d['inconclusive'].append(f'{key} trace comparison')
            else:
                n = mdl.eval(nvar, model_completion=True).as_long()
                inp = [mdl.eval(x, model_completion=True).as_long() for x in bs[:n]]
                bad = [nm_ for nm_, c in conds if z3.is_false(mdl.eval(c, model_completion=True))]
                out.append({'input': inp, 'end': with_end, 'detail': '; '.join(bad[:3]), 'ref_code': ref.code, 'mach_code': mach[1][0], 'ref_used_end_pattern': bool(ref.ended),
                            'ref_skipped_tail_optional': bool(getattr(ref, 'skipped_tail_optional', False))})
            solver.add(z3.Not(pcB[j]))
        solver.pop()
    d['nontrivial'].append(key + ('/end' if with_end else ''))
    return out


def concrete_ref(prog, layout, inp, with_end):
    r = refsem.run(prog, [z3.BitVecVal(b, 8) for b in inp], z3.BitVecVal(len(inp), 8), with_end)(symx.Ctx())
    tr = []
    for e in r.trace:
        if e[0] == 'hook':
            tr.append(('HOOK', e[1], replay.fmt_outs(layout, layout.spec, e[3])))
        else:
            tr.append(tuple(e[:2]))
    return tr, (r.code, r.pos), replay.fmt_outs(layout, layout.spec, r.snap)


def work(job):
    t0 = time.time()
    out = {'label': job['label'], 'cname': f"K{job['K']}", 'flags': [], 'status': 'ok', 'findings': [], 'stats': None, 'wall': 0}
    try:
        st = stepcmp.StepStats()
        src = job['src']
        comp = nm.compile_src(src, job.get('flags', ()), want_c=True)
        if comp.verdict != 'ok':
            out['status'] = 'rejected:' + comp.verdict
            if comp.verdict in ('crash', 'timeout'):
                st.d['cov'].setdefault('compiler_crashes_C18', []).append(f"{job['label']}: {comp.error}")
                st.d['cov']['programs'] = 0
                out['stats'] = st.d
                out['status'] = 'ok'
            return out
        try:
            text = macroexp.expand(src) if 'macro ' in src else src
            prog = refsem.Program(nm.N.parser.parse(text, start='start'), text)
            layout = absm.Layout(comp.spec)
        except (refsem.Unsupported, refre.Unsupported, absm.Unsupported, macroexp.ExpandError) as e:
            out['status'] = 'unsupported:' + str(e)[:120]
            return out
        eof = comp.cfg['EOF_SUPPORT']
        wit = []
        for with_end in job.get('ends', [False]):
            if with_end and not eof:
                continue
            key = job['label']
            try:
                w = compare(prog, comp, layout, job['K'], with_end, st, key, job['max_paths'])
            except (refsem.Unsupported, refre.Unsupported, absm.Unsupported) as e:
                out['status'] = 'unsupported:' + str(e)[:120]
                return out
            if w is None and job['K'] > 2:
                w = compare(prog, comp, layout, job['K'] - 1, with_end, st, key, job['max_paths'] * 2)
                st.d['cov'].setdefault('reduced_K', []).append(key)
            if w is None:
                st.d['cov'].setdefault('not_decided_path_budget', []).append(key)
                continue
            wit += w
        seen = set()
        wit.sort(key=lambda w: bool(w.get('ref_skipped_tail_optional')))   # witnesses of a listed finding's shape last: they must not use up the report cap
        for w in wit:
            k = (w['detail'][:40], w['ref_code'], w['mach_code'], w.get('ref_used_end_pattern'), w.get('ref_skipped_tail_optional'))
            if k in seen or len(seen) >= 6:
                continue
            seen.add(k)
            machine = absm.Machine(comp.post, layout)
            ta = concrete_ref(prog, layout, w['input'], w['end'])
            tb = m2m.concrete_trace(machine, layout, w['input'], w['end'], start_actions=comp.pctx.start_actions)
            f = {'kind': job.get('kind', 'c01-diff'), 'what': 'compiled machine is not an allowed variant of the procedural reading' + (' at end of input' if w['end'] else ''), 'detail': w['detail'], 'sym': 'input',
                 'pre': {'state': 0, 'vals': {}, 'strs': {}}, 'bytes': w['input'], 'end': w['end'], 'ref_used_end_pattern': w.get('ref_used_end_pattern'), 'ref_skipped_tail_optional': w.get('ref_skipped_tail_optional'), 'ref_code': w['ref_code'], 'mach_code': w['mach_code'], 'label': job['label'], 'cname': f"K{job['K']}", 'flags': list(comp.flags), 'source': src,
                 'replay': {'reproduced': True, 'reference': str(ta)[:500], 'machine': str(tb)[:500]}}
            try:
                calls = [('feed', w['input'])] if w['input'] else []
                if w['end']:
                    calls.append(('end',))
                clog, diag = replay.run_c(comp, layout, {'calls': calls})
                f['replay']['gcc_build'] = str([e[:3] for e in (clog or [])])[:400]
            except Exception as e:
                f['replay']['gcc_build'] = 'not run: ' + repr(e)[:80]
            out['findings'].append(f)
        st.d['cov']['programs'] = 1
        if len(st.d['samples']) < 2:
            st.d['samples'].append({'program': job['label'], 'K': job['K'], 'source_head': src[:200]})
        out['stats'] = st.d
    except Exception as e:
        out['status'] = 'harness-error:' + type(e).__name__ + ':' + str(e)[:300] + ' | ' + traceback.format_exc()[-700:]
    out['wall'] = time.time() - t0
    return out


def main(tier, replay_path):
    run = chk.Run(PID, tier, 'model_checking', 'refsem (reference interpreter) vs absm over the compiled DFA, both under symx; z3')
    run.functions = ['MatchNode/CaseNode/OptionalNode/LoopNode/TryExceptNode/ForeachNode/IfElseNode/InterruptableActionNode.convert', 'DFA.append_after / chain_actions_into',
                     'Match.attach / ActionNode / ActionSinkNode.set_next', 'DfaCompileCtx.compile (default -O1)']
    K = 3 if tier == 'quick' else 5
    good, bad = validate_refsem()
    run.cov['reference_validation'] = {'annotated_cases_reproduced': good, 'mismatches': bad}
    if bad or good < 30:
        run.harness_error(f'reference interpreter does not reproduce the repo annotations: {bad[:3]} (ok {good})')
    run.bounds = {'input_bytes_K': K, 'end_of_input': 'runs that end with end() are decided by C17 (same engine)', 'path_budget': 4000 if tier == 'quick' else 20000, 'time_budget_s': f'{TIME_BUDGET} per exploration, {2 * TIME_BUDGET} per pairwise comparison; programs over a budget are listed as not decided',
                  'programs': 'corpus (examples, *.ok tests, verif corpus; macros expanded textually first) + seeded generator'}
    run.assumptions = ['slack exactly as DESIGN §4 C01: pending events at end of input / when an error strikes may be missing on the machine side (prefix); a trailing byte nothing accepts may be FAIL on the machine side',
                       '$last compared only through the values it produces', 'foreach do-actions run before the per-byte append (generator keeps the order unobservable)', 'arithmetic UB and reads beyond the string length excluded', 'runs in which a computed-character append (s += [expr]) runs out of space are excluded: which byte the handler then sees depends on whether the action is scheduled with the byte before or after it, which the language leaves open (the C-level behaviour of such overflows is compared by C06/C02/C10)']
    jobs = []
    for label, src in l3check.programs(tier, kinds=('example', 'ok', 'verif')):
        big = len(src) > 2500
        jobs.append({'label': label, 'src': src, 'K': (2 if big else K) if tier == 'quick' else (3 if big else K), 'max_paths': 4000 if tier == 'quick' else 20000})
    for i, src in enumerate(gen_c01.programs(chk.seed(), 40 if tier == 'quick' else 500)):
        jobs.append({'label': f'gen{i}', 'src': src, 'K': K + (1 if tier == 'quick' else 0), 'max_paths': 4000 if tier == 'quick' else 20000})
    # the same reading must hold for the optimised machine: small programs are also compiled at -O3
    for j in list(jobs):
        if len(j['src']) < 1200 and (tier != 'quick' or j['label'].startswith(('gen', 'corpus/'))):
            jobs.append(dict(j, label=j['label'] + ' -O3', flags=('-O3',)))
    jobs.sort(key=lambda j: -len(j['src']))
    orig = l3check.work
    l3check.work = work
    try:
        consume(run, l3check.run_jobs(jobs), ('c01-diff',), PID)
    finally:
        l3check.work = orig
    return run.finish('For each program the reference interpreter (own reading of the language reference, on the parse tree and source text) and the abstract machine over the real compiled DFA '
                      'are both executed symbolically over K symbolic bytes with symbolic length (and optional end of input); for every pair of overlapping paths the solver decides whether the machine '
                      'trace (hooks with output snapshots, yields, finish codes, FAIL, final outputs) is an allowed variant of the reference trace. states = reference paths, transitions = machine paths.')


if __name__ == '__main__':
    chk.main_wrapper(main)
