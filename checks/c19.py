"""C19 -- command-line options resolve to a consistent configuration.

(a) [this file] E4 pyif: the resolution tail of ProgramData.load_commandline_flags (level table, override
    application, implication fixpoint, `aux` exclusion walk) is located by AST structure in the real source, if-converted
    to one z3 formula per -O level with the real ProgramFlag metadata, and the assertions of DESIGN §4 C19 are decided
    by z3 for ALL presence/value assignments of ALL flags and ALL orders.
(b) [checks/c19_argv.py, when present] CrossHair on the argv tokenisation loop.
"""
import ast, sys, os, time, json, hashlib, random, itertools
import z3
from engines import chk, pyif

if chk.REPO not in sys.path:
    sys.path.insert(0, chk.REPO)
import nmfu as N  # noqa: E402  (the real compiler, re-imported on every run)

PF = N.ProgramFlag
FL = list(PF)
NF = len(FL)


def fname(f):
    return f.name.lower().replace('_', '-')


# --------------------------------------------------------------------------------------------------
# locating the code to encode (by structure, never by line number)
# --------------------------------------------------------------------------------------------------
def _mentions(node, name):
    return any(isinstance(n, ast.Name) and n.id == name for n in ast.walk(node))


def _has_attr(node, attr):
    return any(isinstance(n, ast.Attribute) and n.attr == attr for n in ast.walk(node))


def locate():
    fs = pyif.func_src(N.ProgramData.__dict__['load_commandline_flags'])
    body = fs.node.body
    # the level application: the one top-level `for` whose iterable is computed from optimize_level (a range over the level table, or a
    # helper of the class called with the level -- pyif runs such a helper concretely, see pyif.Interp.real_call)
    starts = [i for i, s in enumerate(body) if isinstance(s, ast.For) and _mentions(s.iter, 'optimize_level')]
    ends = [i for i, s in enumerate(body) if isinstance(s, ast.For) and _mentions(s.iter, 'flag_overrides')]
    if len(starts) != 1 or not ends or ends[-1] <= starts[0]:
        raise pyif.CannotEncode("cannot encode: resolution tail of load_commandline_flags not found "
                                "(expected one top-level `for .. in <expression over optimize_level>` followed by a "
                                "top-level `for .. in flag_overrides...`)")
    i, j = starts[0], ends[-1]
    tail, prefix, suffix = body[i:j + 1], body[:i], body[j + 1:]
    # the untranslated prefix/suffix must not touch the flag map except through cls._reset_flags()
    for part, nm in ((prefix, 'before'), (suffix, 'after')):
        for s in part:
            if _has_attr(s, '_flags'):
                raise pyif.CannotEncode(f"cannot encode: statement {nm} the resolution tail (line {s.lineno}) touches _flags")
    resets = [s for s in prefix if isinstance(s, ast.Expr) and isinstance(s.value, ast.Call)
              and isinstance(s.value.func, ast.Attribute) and s.value.func.attr == '_reset_flags']
    if len(resets) != 1:
        raise pyif.CannotEncode("cannot encode: load_commandline_flags does not call cls._reset_flags() exactly once before the tail")
    for s in prefix:
        for n in ast.walk(s):
            if isinstance(n, ast.Assign):
                for t in n.targets:
                    if isinstance(t, ast.Name) and t.id == 'flag_overrides' and not (isinstance(n.value, ast.Dict) and not n.value.keys):
                        raise pyif.CannotEncode("cannot encode: flag_overrides initialised to something else than {}")
    if [a.arg for a in fs.node.args.args][:1] != ['cls']:
        raise pyif.CannotEncode("cannot encode: load_commandline_flags is not a classmethod taking cls")
    rs = pyif.func_src(N.ProgramData.__dict__['_reset_flags'])
    rassign = [s for s in rs.node.body if isinstance(s, ast.Assign) and len(s.targets) == 1 and isinstance(s.targets[0], ast.Attribute)
               and s.targets[0].attr == '_flags']
    if len(rassign) != 1 or any(_has_attr(s, '_flags') for s in rs.node.body if s is not rassign[0]):
        raise pyif.CannotEncode("cannot encode: _reset_flags does not assign cls._flags exactly once")
    return fs, tail, rs, rassign[0]


def check_metadata():
    """implies must be acyclic (aux recursion is inlined along it); metadata must reference existing flags"""
    vals = {f.value: f for f in FL}
    for f in FL:
        for x in list(f.implies) + list(f.exclusive_with):
            if x not in vals:
                raise pyif.CannotEncode(f"cannot encode: {f.name} refers to unknown flag value {x!r}")
    state = {}

    def dfs(f, path):
        if state.get(f) == 2:
            return
        if state.get(f) == 1:
            raise pyif.CannotEncode("cannot encode: implies graph has a cycle (aux would not terminate): " +
                                    ' -> '.join(x.name for x in path + [f]))
        state[f] = 1
        for x in f.implies:
            dfs(vals[x], path + [f])
        state[f] = 2
    for f in FL:
        dfs(f, [])
    depth = {}

    def d(f):
        if f not in depth:
            depth[f] = 1 + max([d(vals[x]) for x in f.implies], default=0)
        return depth[f]
    return max(d(f) for f in FL)


# --------------------------------------------------------------------------------------------------
# encoding
# --------------------------------------------------------------------------------------------------
PRESENT = {f: z3.Bool('p_' + f.name) for f in FL}
VALUE = {f: z3.Bool('v_' + f.name) for f in FL}
RW = NF.bit_length() + 1   # rank width: bit-vectors (a permutation is found by SAT search; Int + distinct made sat queries time out)
RANK = {t: {f: z3.BitVec(f'r{t}_{f.name}', RW) for f in FL} for t in (1, 2)}
RANK[0] = {f: i for i, f in enumerate(FL)}   # the definition order as a concrete order (encoding copy 0)


def rank_constraints(t):
    r = RANK[t]
    return [z3.Distinct(*r.values())] + [z3.ULT(x, z3.BitVecVal(NF, RW)) for x in r.values()]


class Enc:
    pass


ENCODE_HISTORY = []     # the -O levels of all encode() calls of this process, in order: what a helper of the real class that pyif runs
#                         concretely (Interp.real_call) has seen before -- the *history* dimension of the encodings (enumerated, not symbolic)


def encode(loc, level, t):
    fs, tail, rs, rassign = loc
    it = pyif.Interp(while_bound=NF + 1, max_depth=NF + 4)
    proxy = pyif.ClassProxy(N.ProgramData)
    it.run_fragment([rassign], {'cls': proxy}, rs.globs, rs.qualname)
    d0 = proxy.shadow.get('_flags')
    if not isinstance(d0, pyif.SymDict) or list(d0.vals) != FL:
        raise pyif.CannotEncode("cannot encode: _reset_flags does not build a dict keyed by every ProgramFlag in definition order")
    od = pyif.SymODict(FL, PRESENT, VALUE, RANK[t])
    it.run_fragment(tail, {'cls': proxy, 'optimize_level': level, 'flag_overrides': od}, fs.globs, fs.qualname)
    d = proxy.shadow['_flags']
    if d is not d0 or list(d.vals) != FL:
        raise pyif.CannotEncode("cannot encode: the tail replaced or re-keyed cls._flags")
    e = Enc()
    e.level, e.t = level, t
    e.final = {f: pyif.zb(pyif._norm(d.vals[f])) for f in FL}
    for f, v in e.final.items():
        if not z3.is_bool(v):
            raise pyif.CannotEncode(f"cannot encode: final value of {f.name} is not boolean")
    e.err = pyif.zb(it.exc_cond('RuntimeError'))
    e.other = {k: pyif.zb(v) for k, v in it.other_exc('RuntimeError').items()}
    e.unwind = [dict(u, cond=pyif.zb(u['cond'])) for u in it.unwind]
    e.live = pyif.zb(it.pc)
    e.stats = it.stats
    e.functions = it.functions
    e.history = list(ENCODE_HISTORY)          # levels resolved in this process before this encoding was built
    e.real_calls = it.stats.get('real_calls', 0)
    ENCODE_HISTORY.append(level)
    return e


# --------------------------------------------------------------------------------------------------
# replay on the real function (fresh interpreter)
# --------------------------------------------------------------------------------------------------
REPLAY_CODE = r'''
import nmfu
req = json.load(sys.stdin)
out = []
for argv in req['argvs']:
    err = msg = None
    try:
        nmfu.ProgramData.load_commandline_flags(tuple(argv))
    except RuntimeError as e:
        err, msg = 'RuntimeError', str(e)
    except BaseException as e:
        err, msg = type(e).__name__, str(e)
    out.append({'err': err, 'msg': msg, 'flags': {f.name: bool(nmfu.ProgramData._flags[f]) for f in nmfu.ProgramFlag}})
print(json.dumps(out))
'''


def real_run(argvs):
    return pyif.run_real(REPLAY_CODE, {'argvs': argvs}, chk.REPO, timeout=120)


def real_run_fresh(argv):
    """one command line in a process of its own (no history)"""
    return real_run([argv])[0]


def argv_of(level, order, values):
    """order: flags in dict order; values: flag -> bool"""
    return [f"-O{level}"] + [("-f" if values[f] else "-fno-") + fname(f) for f in order] + ["in.nmfu"]


def model_assignment(m, t):
    pres = [f for f in FL if z3.is_true(m.eval(PRESENT[f], model_completion=True))]
    vals = {f: z3.is_true(m.eval(VALUE[f], model_completion=True)) for f in pres}
    order = sorted(pres, key=lambda f: m.eval(RANK[t][f], model_completion=True).as_long())
    return order, vals


def predicted(m, e):
    return {'err': z3.is_true(m.eval(e.err, model_completion=True)),
            'flags': {f.name: z3.is_true(m.eval(e.final[f], model_completion=True)) for f in FL}}


def agrees(pred, real):
    if (real['err'] == 'RuntimeError') != pred['err']:
        return False
    if real['err'] not in (None, 'RuntimeError'):
        return False
    return pred['err'] or pred['flags'] == real['flags']


# concrete readings of the assertions on real outcomes ------------------------------------------------
OPT_FLAGS = []


def _on(r, f):
    return r['flags'][PF(f).name]


def viol_implied(rs, ws):
    r = rs[0]
    return r['err'] is None and [(f.name, PF(i).name) for f in FL for i in f.implies if _on(r, f) and not _on(r, i)]


def viol_exclusive(rs, ws):
    r = rs[0]
    return r['err'] is None and [(f.name, PF(x).name) for f in FL for x in f.exclusive_with if _on(r, f) and _on(r, x)]


def viol_explicit_both(rs, ws):
    r, on = rs[0], set(ws['on'])
    return r['err'] is None and [(f.name, PF(x).name) for f in FL for x in f.exclusive_with if f.name in on and PF(x).name in on]


def viol_order(rs, ws):
    a, b = rs
    if (a['err'] is None) != (b['err'] is None):
        return [('error', a['err'], b['err'])]
    return a['err'] is None and [k for k in a['flags'] if a['flags'][k] != b['flags'][k]]


def viol_level_superset(rs, ws):
    a, b = rs
    return a['err'] is None and b['err'] is None and [k for k in a['flags'] if a['flags'][k] and not b['flags'][k]]


def viol_level_error(rs, ws):
    a, b = rs
    return (a['err'] is None) != (b['err'] is None) and [('error', a['err'], b['err'])]


def viol_level_enables(rs, ws):
    r = rs[0]
    named = set(ws['on']) | set(ws['off'])
    return r['err'] is None and [f.name for j in range(ws['level'] + 1) for f in N.ProgramData._OPTIMIZE_LEVELS[j]
                                 if f.name not in named and not _on(r, f)]


def viol_level_only(rs, ws):
    """bare -O<L> (after the history in ws['history']): an optimisation flag outside levels 0..L (and not on by default / by implication) is on"""
    r = rs[-1]
    return r['err'] is None and [f.name for f in OPT_FLAGS if f.name not in ws['expected_on'] and _on(r, f)]


def viol_history(rs, ws):
    """the last command line, run after ws['history'] in one process, against the same command line in a process of its own"""
    r = rs[-1]
    fresh = real_run_fresh(ws['argv'])
    ws['real_fresh_process'] = {'err': fresh['err'], 'msg': fresh['msg'], 'on': sorted(k for k, v in fresh['flags'].items() if v)}
    if (r['err'] is None) != (fresh['err'] is None):
        return [('error', fresh['err'], r['err'])]
    return r['err'] is None and [k for k in r['flags'] if r['flags'][k] != fresh['flags'][k]]


def viol_explicit_wins(rs, ws):
    r = rs[0]
    want = {n: True for n in ws['on']}
    want.update({n: False for n in ws['off']})
    return r['err'] is None and [f.name for f in OPT_FLAGS if f.name in want and r['flags'][f.name] != want[f.name]]


def viol_other_exception(rs, ws):
    r = rs[0]
    return r['err'] not in (None, 'RuntimeError') and [r['err']]


# --------------------------------------------------------------------------------------------------
# the check
# --------------------------------------------------------------------------------------------------
def region_to_z3(expr, level, level2):
    """a known-finding region (python expression over the witness fields) as a z3 constraint over the flag space"""
    byname = {f.name: f for f in FL}

    def nameset(fn):
        return pyif.SymNameSet(lambda n: fn(byname[n]) if n in byname else False)

    def order(t):
        return pyif.SymOrder(lambda n: RANK[t][byname[n]], lambda n: PRESENT[byname[n]] if n in byname else False)
    env = {'level': level, 'level2': level2,
           'on': nameset(lambda f: z3.And(PRESENT[f], VALUE[f])), 'off': nameset(lambda f: z3.And(PRESENT[f], z3.Not(VALUE[f]))),
           'present': nameset(lambda f: PRESENT[f]), 'order': order(1), 'order2': order(2)}
    r = pyif.Interp().eval_src(expr, env)
    if not pyif.is_boolish(r):
        raise pyif.CannotEncode(f"cannot encode: region {expr!r} is not a boolean over level/on/off/present/order/order2")
    return pyif.zb(r)


# cvc5 (thorough tier) re-discharges the obligation kinds it decides in seconds; on the others (two rank permutations, or the
# exclusion walk under `distinct`) it does not finish in 5 minutes while z3 needs < 5 s -- those stay z3-only (DESIGN: cross-check is
# best effort, a disagreement is inconclusive, a give-up is recorded)
CVC5_KINDS = ('vacuity', 'unwinding', 'no-other-exception', 'implied-on', 'explicit-opt-flag-wins', 'level-enables-its-flags',
              'level-enables-only-its-flags',
              'level-superset', 'level-same-error')
CVC5_TLIMIT_MS = 30000


class Checker:
    def __init__(self, run, tier):
        self.run, self.tier = run, tier
        self.use_cvc5 = tier == 'thorough'
        self.cvc5_n = 0
        self.cvc5_time = 0.0
        self.cvc5_gaveup = []

    def check(self, s, name, cvc5=True):
        t0 = time.time()
        r = s.check()
        self.run.queries += 1
        self.run.solver_time += time.time() - t0
        if os.environ.get('VERIF_DEBUG'):
            print(f"  [z3] {name}: {r} {time.time() - t0:.2f}s", file=sys.stderr, flush=True)
        if self.use_cvc5 and cvc5 and r in (z3.sat, z3.unsat):
            t0 = time.time()
            r5 = pyif.cvc5_check(s.to_smt2(), timeout_ms=CVC5_TLIMIT_MS, logic='QF_BV')
            self.cvc5_time += time.time() - t0
            if r5 == 'unknown':
                self.cvc5_gaveup.append(name)            # second solver ran out of its budget: not cross-checked, z3 verdict stands
            elif r5 != str(r):
                self.run.inconc(f"{name} [cvc5 says {r5}, z3 says {r}]")
                return z3.unknown
            else:
                self.cvc5_n += 1
        return r

    def decide(self, s, name, goal, encs, witness_fn, real_viol, what, level, level2=None, sample=False, nontrivial=True, cvc5=True):
        """goal: the NEGATED property (sat = counterexample). encs: encodings whose prediction is compared on replay.
        witness_fn(model) -> (witness dict, [argv per enc])."""
        run = self.run
        excluded = []
        verdict = None
        for attempt in range(6):
            s.push()
            s.add(goal, *excluded)
            smt_size = None
            if sample:
                txt = s.to_smt2()
                smt_size = (len(txt), hashlib.sha256(txt.encode()).hexdigest()[:16])
            r = self.check(s, name, cvc5)
            if r == z3.sat:
                m = s.model()
                # canonicalise: fewest options on the command line
                k = sum(1 for f in FL if z3.is_true(m.eval(PRESENT[f], model_completion=True)))
                while k > 0:
                    s.push()
                    s.add(z3.PbLe([(PRESENT[f], 1) for f in FL], k - 1))
                    t0 = time.time()
                    r2 = s.check()
                    run.queries += 1
                    run.solver_time += time.time() - t0
                    if r2 == z3.sat:
                        m = s.model()
                        k = sum(1 for f in FL if z3.is_true(m.eval(PRESENT[f], model_completion=True)))
                        s.pop()
                    else:
                        s.pop()
                        break
            s.pop()
            if sample:
                run.sample({'obligation': name, 'verdict': str(r) + (' (after excluding known regions)' if excluded else ''),
                            'smtlib_goal_head': goal.sexpr()[:700], 'smtlib_benchmark_bytes': smt_size[0],
                            'smtlib_benchmark_sha256_16': smt_size[1]})
            if r == z3.unsat:
                verdict = 'unsat'
                break
            if r != z3.sat:
                if not any(name in x for x in run.inconclusive):
                    run.inconc(name)
                return 'unknown'
            wit, argvs = witness_fn(m)
            try:
                reals = real_run(argvs)
            except Exception as ex:
                run.harness_error(f"{name}: replay failed to run: {ex}")
                return 'harness'
            if len(encs) != len(reals):
                run.harness_error(f"{name}: replay returned {len(reals)} outcomes for {len(encs)} command lines")
                return 'harness'
            preds = [predicted(m, e) if e is not None else None for e in encs]      # None: a history step, outcome not predicted
            wit['real'] = [{'err': r_['err'], 'msg': r_['msg'], 'on': sorted(k for k, v in r_['flags'].items() if v)} for r_ in reals]
            if not all(p is None or agrees(p, r_) for p, r_ in zip(preds, reals)):
                run.harness_error(f"{name}: ENCODING MISMATCH -- the formula's prediction differs from the real function on "
                                  f"argv={argvs}: predicted={[p and (p['err'], sorted(k for k, v in p['flags'].items() if v)) for p in preds]} "
                                  f"real={wit['real']}")
                return 'harness'
            v = real_viol(reals, wit)
            if not v:
                run.harness_error(f"{name}: solver model does not violate the property on the real function: argv={argvs}")
                return 'harness'
            wit['violating'] = v
            known = run.match_known(name, wit)
            res = run.violation(name, wit, f"{what}: argv={argvs} -> {v}")
            if res == 'new' or known is None:
                run.ob(name, discharged=False, nontrivial=nontrivial)
                return 'violation'
            excluded.append(z3.Not(region_to_z3(known.get('region') or 'True', level, level2)))
        if verdict != 'unsat':
            run.inconc(name + ' [known-finding exclusion did not converge]')
            return 'unknown'
        run.ob(name, discharged=True, nontrivial=nontrivial)
        return 'unsat'


def parse_argv(argv):
    """independent reading of a well-formed command line (validation only): -> level, ordered dict flag->bool"""
    level, od = 1, {}
    it = iter(argv)
    for a in it:
        if not a.startswith('-'):
            continue
        if a.startswith('--'):
            nm = a[2:]
            if nm in ('help', 'dry-run', 'version', 'help-all'):
                continue
            v = next(it)
            if nm == 'flag':
                if '=' in v:
                    n, val = v.split('=')
                    od[PF[n.upper().replace('-', '_')]] = val in ('yes', 'on')
                else:
                    od[PF[v.upper().replace('-', '_')]] = True
            continue
        if a[1] == 'O':
            level = int(a[2:])
        elif a[1] == 'f':
            v = a[2:]
            val = True
            if v.startswith('no-'):
                val, v = False, v[3:]
            od[PF[v.upper().replace('-', '_')]] = val
    return level, od


def validation_argvs(count):
    rel = [f for f in FL if f.implies or f.exclusive_with or any(f.value in g.implies or f.value in g.exclusive_with for g in FL)]
    opt = [f for j in N.ProgramData._OPTIMIZE_LEVELS.values() for f in j]
    out = [
        ["-fallocate-str-space-in-struct", "-fallocate-str-space-dynamic", "dummy"],                       # tests/test_arguments.py
        ["--flag", "strings-as-u8=yes", "-fno-use-cplusplus-guard", "--flag", "allocate-str-space-dynamic", "dummy.nmfu", "-t",
         "--dump-prefix", "asdf", "-ddfa", "-odumtest"],                                                    # tests/test_arguments.py
        ["in.nmfu"], ["-O0", "in.nmfu"], ["-O1", "in.nmfu"], ["-O2", "in.nmfu"], ["-O3", "in.nmfu"],
    ]
    for f in rel:
        out.append(["-f" + fname(f), "in.nmfu"])
        out.append(["-O2", "-fno-" + fname(f), "in.nmfu"])
    for f in opt:
        out.append(["-O3", "-fno-" + fname(f), "in.nmfu"])
        out.append(["-O0", "-f" + fname(f), "in.nmfu"])
    for f in rel:
        for x in list(f.exclusive_with) + list(f.implies):
            x = PF(x)
            out.append(["-f" + fname(f), "-f" + fname(x), "in.nmfu"])
            out.append(["-f" + fname(x), "-f" + fname(f), "in.nmfu"])
            out.append(["-f" + fname(f), "-fno-" + fname(x), "in.nmfu"])
            out.append(["-fno-" + fname(x), "-f" + fname(f), "-O3", "in.nmfu"])
    out.append(["-fhook-per-state", "-fno-hook-per-state", "in.nmfu"])
    out.append(["-fno-allocate-str-space-dynamic", "-fallocate-str-space-dynamic-on-demand", "--flag", "allocate-str-space-dynamic=no", "in.nmfu"])
    rng = random.Random(19 + chk.seed())
    pool = rel + opt + [PF.STRINGS_AS_U8, PF.EOF_SUPPORT]
    while len(out) < count:
        k = rng.randint(2, 6)
        fl = [rng.choice(pool) for _ in range(k)]
        out.append([f"-O{rng.randint(0, 3)}"] + [("-f" if rng.random() < 0.65 else "-fno-") + fname(f) for f in fl] + ["in.nmfu"])
    return out


def validate(run, encs, count):
    """translator validation: the formula evaluated at concrete command lines vs the real function"""
    argvs = validation_argvs(count)
    try:
        reals = real_run(argvs)
    except Exception as ex:   # e.g. the real function does not return on one of them: find which, one command line at a time
        import subprocess as _sp
        hung, reals = [], []
        for argv in argvs:
            if len(hung) >= 3:
                reals.append(None)
                continue
            try:
                reals.append(pyif.run_real(REPLAY_CODE, {'argvs': [argv]}, chk.REPO, timeout=20)[0])
            except _sp.TimeoutExpired:
                hung.append(argv)
                reals.append(None)
            except Exception as ex2:
                run.harness_error(f"validation: the real load_commandline_flags could not be run on {argv}: {type(ex2).__name__}: {str(ex2)[:200]}")
                return len(argvs), len(argvs), []
        for argv in hung[:3]:
            # "finishes with a configuration or a reported error": a command line on which resolution does not return (replayed: 20 s)
            run.violation('C19/terminates', {'argv': argv, 'observed': 'no return within 20 s'}, f'load_commandline_flags does not return for {argv}')
        run.ob('C19/terminates', discharged=not hung)
        argvs = [a for a, r in zip(argvs, reals) if r is not None]
        reals = [r for r in reals if r is not None]
    bad = 0
    hist_dep = []
    for idx, (argv, real) in enumerate(zip(argvs, reals)):
        level, od = parse_argv(argv)
        e = encs[(level, 1)]
        s = pyif.new_solver()
        order = list(od)
        rest = [f for f in FL if f not in od]
        for i, f in enumerate(order + rest):
            s.add(RANK[1][f] == i)
        for f in FL:
            s.add(PRESENT[f] == (f in od), VALUE[f] == bool(od.get(f, False)))
        if s.check() != z3.sat:
            run.harness_error(f"validation: assignment for {argv} unsatisfiable")
            bad += 1
            continue
        m = s.model()
        pred = predicted(m, e)
        extra = [k for k, v in e.other.items() if z3.is_true(m.eval(v, model_completion=True))] + \
                [u['line'] for u in e.unwind if z3.is_true(m.eval(u['cond'], model_completion=True))]
        if not extra and not agrees(pred, real):
            # the validation command lines run one after the other in ONE process, the formula describes one call: does the real function
            # agree with the formula in a process of its own?  Then the encoding is right and the real function depends on its history --
            # which the history obligations below must report (a run that sees this and reports nothing is a harness error)
            try:
                fresh = real_run_fresh(argv)
            except Exception:
                fresh = None
            if fresh is not None and agrees(pred, fresh):
                hist_dep.append({'argv': argv, 'after': argvs[:idx]})
                continue
        if extra or not agrees(pred, real):
            bad += 1
            run.harness_error(f"validation: ENCODING MISMATCH on argv={argv}: predicted err={pred['err']} "
                              f"on={sorted(k for k, v in pred['flags'].items() if v)} extra={extra}; real err={real['err']} "
                              f"on={sorted(k for k, v in real['flags'].items() if v)}")
    run.cov['validation_lines_that_differ_only_after_a_history'] = [h['argv'] for h in hist_dep][:10]
    return len(argvs), bad, hist_dep


def main(tier, replay):
    run = chk.Run('C19', tier, 'other', 'E4 pyif: if-conversion of the flag-resolution tail of ProgramData.load_commandline_flags '
                  '(real source via inspect+ast, real ProgramFlag metadata) to z3; all flags/values/orders symbolic')
    if replay:
        with open(replay) as f:
            w = json.load(f)['witness']
        argvs = list(w.get('history') or []) + [w[k] for k in ('argv', 'argv2') if k in w]     # one process, in this order
        for a, r in zip(argvs, real_run(argvs)):
            print('argv', a, '->', r['err'], r['msg'], 'on:', sorted(k for k, v in r['flags'].items() if v))
        print('violating (as recorded):', w.get('violating'))
        return chk.EXIT_OK
    t_build = time.time()
    try:
        loc = locate()
        depth = check_metadata()
        levels = sorted(N.ProgramData._OPTIMIZE_LEVELS)
        if levels != list(range(len(levels))):
            raise pyif.CannotEncode("cannot encode: _OPTIMIZE_LEVELS keys are not 0..k")
        encs = {(L, t): encode(loc, L, t) for L in levels for t in (1, 2, 0)}     # each level first met in ascending order
        # history dimension: when the resolution code calls a helper of the real class (pyif runs it concretely: its result may depend on
        # what this process resolved before, e.g. a cache), every level is encoded a second time after ALL levels were resolved, highest
        # first; the solver then decides that the two formulas of one level are equivalent.  Without such a call the formula is a function
        # of the source text and the enum metadata alone and there is nothing to compare.
        hist = {}
        if any(e.real_calls for e in encs.values()):
            for L in reversed(levels):
                hist[L] = encode(loc, L, 1)
    except pyif.CannotEncode as ex:
        run.harness_error(str(ex))
        return run.finish("encoding failed: " + str(ex))
    t_build = time.time() - t_build
    fs, tail, rs, rassign = loc
    (l0, l1), sha, text = pyif.segment_info(fs, tail)
    (q0, q1), rsha, _ = pyif.segment_info(rs, [rassign])
    meta = repr([(f.name, f.value, f.default, sorted(f.implies), sorted(f.exclusive_with)) for f in FL]) + repr(N.ProgramData._OPTIMIZE_LEVELS)
    run.functions = [fs.describe('resolution tail', (l0, l1), sha), rs.describe('assignment of cls._flags', (q0, q1), rsha),
                     {'function': 'ProgramFlag metadata (default/implies/exclusive_with) + ProgramData._OPTIMIZE_LEVELS', 'file': fs.file,
                      'sha256_16_of_encoded_source': hashlib.sha256(meta.encode()).hexdigest()[:16]}]
    OPT_FLAGS[:] = [f for L in levels for f in N.ProgramData._OPTIMIZE_LEVELS[L]]
    pairs_imp = [(f, PF(i)) for f in FL for i in f.implies]
    pairs_exc = [(f, PF(x)) for f in FL for x in f.exclusive_with]
    e0 = encs[(levels[0], 1)]
    run.bounds = {'flags (all symbolic: present/value/rank)': NF, 'implies pairs': len(pairs_imp), 'exclusive pairs': len(pairs_exc),
                  'optimisation levels (concrete per query)': levels, 'while-True fixpoint unrolling': NF + 1,
                  'longest implies chain (aux inlining depth)': depth, 'rank positions unrolled per symbolic-order loop': NF,
                  'encodings built': len(encs) + len(hist), 'encoding build time s': round(t_build, 2),
                  'histories': ('2 per level: level first met in ascending order / after all levels, descending (the resolution code calls real helper '
                                'methods: %s)' % sorted(k for e in encs.values() for k, v in e.functions.items() if isinstance(v, dict) and v.get('how')))
                  if hist else '1 (the encoded code calls no helper of the real class: the formula does not depend on process state)',
                  'interpreter stats of one encoding': e0.stats}
    run.assumptions = [
        'flag_overrides is a dict keyed by ProgramFlag members filled by the (untranslated) argv loop; any such dict is represented by '
        '(present, value, rank) with pairwise distinct ranks; repeated options keep the first position and the last value (CPython dict)',
        'cls._flags at the start of the tail is what _reset_flags assigns (structurally checked: the prefix calls cls._reset_flags() once and '
        'never mentions _flags otherwise); validated on every run against the real function on concrete command lines',
        'optimize_level in ' + str(levels) + ' (other values: argv part / DESIGN §6 row 8)',
        'frozenset iteration order of implies/exclusive_with is the one of this CPython (concrete metadata)']
    ck = Checker(run, tier)

    # translator validation first: a wrong encoding must not produce verdicts
    nval, bad, hist_dep = validate(run, encs, 60 if tier == 'quick' else 400)
    run.cov['validation_command_lines'] = nval
    run.cov['validation_mismatches'] = bad
    if bad:
        return run.finish("translator validation failed: the if-converted formula disagrees with the real function")

    summary = {}

    def note(k, r, t0):
        d = summary.setdefault(k, {'verdicts': {}, 'time_s': 0.0})
        d['verdicts'][r] = d['verdicts'].get(r, 0) + 1
        d['time_s'] = round(d['time_s'] + time.time() - t0, 2)

    for L in levels:
        e1, e2, ec = encs[(L, 1)], encs[(L, 2)], encs[(L, 0)]
        s = pyif.new_solver()
        s.add(*rank_constraints(1))      # the second order's constraints are part of the one query that uses it

        def wit1(m, L=L):
            order, vals = model_assignment(m, 1)
            argv = argv_of(L, order, vals)
            return ({'level': L, 'on': [f.name for f in order if vals[f]], 'off': [f.name for f in order if not vals[f]],
                     'order': [f.name for f in order], 'argv': argv}, [argv])

        def wit_order(m, L=L):
            w, a = wit1(m)
            order2, vals = model_assignment(m, 2)
            w['order2'] = [f.name for f in order2]
            w['argv2'] = argv_of(L, order2, vals)
            return w, a + [w['argv2']]
        def wit_canon(m, L=L):
            w, a = wit1(m)
            order, vals = model_assignment(m, 1)
            canon = [f for f in FL if f in vals]
            w['order2'] = [f.name for f in canon]
            w['argv2'] = argv_of(L, canon, vals)
            return w, a + [w['argv2']]
        pre = f"C19/O{L}/"
        first = L == levels[0]
        # vacuity: the constraints are satisfiable, both error and non-error outcomes exist
        for nm, g in (('vacuity/no-error-reachable', z3.Not(e1.err)), ('vacuity/error-reachable', e1.err)):
            s.push()
            s.add(g)
            r = ck.check(s, pre + nm)
            s.pop()
            if r == z3.sat:
                run.ob(pre + nm, nontrivial=False)
            elif r == z3.unsat and nm.endswith('no-error-reachable'):
                run.harness_error(pre + nm + ': vacuous encoding (every command line is an error)')
            elif r == z3.unsat:
                run.ob(pre + nm, nontrivial=False)
                run.cov.setdefault('notes', []).append(pre + nm + ': no command line makes the resolution tail raise RuntimeError')
            else:
                run.inconc(pre + nm)
        jobs = [
            ('unwinding', z3.Or([u['cond'] for u in e1.unwind] + [z3.BoolVal(False)]), [e1], wit1, lambda rs_, w: False,
             'implication fixpoint needs more than #flags+1 passes'),
            ('no-other-exception', z3.Or(list(e1.other.values()) + [z3.BoolVal(False)]), [e1], wit1, viol_other_exception,
             'resolution raises something else than RuntimeError'),
            ('path-accounting', z3.And(z3.Not(e1.live), z3.Not(e1.err), *[z3.Not(v) for v in e1.other.values()],
                                       *[z3.Not(u['cond']) for u in e1.unwind]), [e1], wit1, lambda rs_, w: False,
             'a path neither completes nor raises (encoding defect)'),
            ('implied-on', z3.And(z3.Not(e1.err), z3.Or([z3.And(e1.final[f], z3.Not(e1.final[i])) for f, i in pairs_imp] + [z3.BoolVal(False)])),
             [e1], wit1, viol_implied, 'a flag is on but a flag it implies is off'),
            ('exclusive-never-both', z3.And(z3.Not(e1.err), z3.Or([z3.And(e1.final[f], e1.final[x]) for f, x in pairs_exc] + [z3.BoolVal(False)])),
             [e1], wit1, viol_exclusive, 'two mutually exclusive flags are both on'),
            ('explicit-both-is-error', z3.And(z3.Not(e1.err), z3.Or([z3.And(PRESENT[f], VALUE[f], PRESENT[x], VALUE[x]) for f, x in pairs_exc] + [z3.BoolVal(False)])),
             [e1], wit1, viol_explicit_both, 'two mutually exclusive flags both explicitly requested, no error'),
            ('order-independent', z3.And(*rank_constraints(2), z3.Or(e1.err != e2.err, z3.And(z3.Not(e1.err), z3.Or([e1.final[f] != e2.final[f] for f in FL])))),
             [e1, e2], wit_order, viol_order, 'outcome depends on the order of the options'),
            ('order-independent/vs-definition-order', z3.Or(e1.err != ec.err, z3.And(z3.Not(e1.err), z3.Or([e1.final[f] != ec.final[f] for f in FL]))),
             [e1, ec], wit_canon, viol_order, 'outcome of some order differs from the outcome with the same options in definition order'),
            ('explicit-opt-flag-wins', z3.And(z3.Not(e1.err), z3.Or([z3.And(PRESENT[f], e1.final[f] != VALUE[f]) for f in OPT_FLAGS] + [z3.BoolVal(False)])),
             [e1], wit1, viol_explicit_wins, 'explicit setting of an optimisation flag does not win over the level'),
            ('level-enables-its-flags', z3.And(z3.Not(e1.err), z3.Or([z3.And(z3.Not(PRESENT[f]), z3.Not(e1.final[f]))
                                                                    for j in range(L + 1) for f in N.ProgramData._OPTIMIZE_LEVELS[j]] + [z3.BoolVal(False)])),
             [e1], wit1, viol_level_enables, 'a flag of a level <= L that is not mentioned on the command line is off'),
        ]
        # bare -O<L>: an optimisation flag outside levels 0..L that is neither on by default nor implied by a flag that is on stays off
        base_on = {f for f in FL if f.default} | {f for j in range(L + 1) for f in N.ProgramData._OPTIMIZE_LEVELS[j]}
        while True:
            more = {PF(i) for f in base_on for i in f.implies} - base_on
            if not more:
                break
            base_on |= more
        expected_on = sorted(f.name for f in base_on)
        no_over = [z3.Not(PRESENT[f]) for f in FL]

        def only_goal(e):
            return z3.And(*no_over, z3.Not(e.err), z3.Or([e.final[f] for f in OPT_FLAGS if f not in base_on] + [z3.BoolVal(False)]))

        def wit_only(m, L=L, hist_=()):
            w, a = wit1(m)
            w['expected_on'] = expected_on
            w['history'] = [argv_of(j, [], {}) for j in hist_]
            return w, w['history'] + a
        jobs.append(('level-enables-only-its-flags', only_goal(e1), [e1], wit_only, viol_level_only,
                     f'bare -O{L} switches on an optimisation flag that is not in levels 0..{L}'))
        if L in hist:
            eh = hist[L]
            hl = list(eh.history)
            jobs.append(('history/level-enables-only-its-flags', only_goal(eh), [None] * len(hl) + [eh], lambda m, L=L, hl=hl: wit_only(m, L, hl),
                         viol_level_only, f'bare -O{L} after other levels were resolved in the same process switches on an optimisation flag that is '
                         f'not in levels 0..{L}'))
            jobs.append(('history/independent', z3.Or(e1.err != eh.err, z3.And(z3.Not(e1.err), z3.Or([e1.final[f] != eh.final[f] for f in FL]))),
                         [None] * len(hl) + [eh], lambda m, L=L, hl=hl: wit_only(m, L, hl), viol_history,
                         'the configuration for a command line depends on which -O levels were resolved before in the same process'))
        for nm, goal, es, wf, rv, what in jobs:
            t0 = time.time()
            trivial = z3.is_false(z3.simplify(goal))
            r = ck.decide(s, pre + nm, goal, es, wf, rv, what, L, sample=first and nm in ('implied-on', 'order-independent', 'unwinding'),
                          nontrivial=not trivial, cvc5=nm in CVC5_KINDS)
            note(nm, r, t0)
        if L + 1 in levels:
            en = encs[(L + 1, 1)]

            def wit_lvl(m, L=L):
                w, a = wit1(m)
                order, vals = model_assignment(m, 1)
                w['level2'] = L + 1
                w['argv2'] = argv_of(L + 1, order, vals)
                return w, a + [w['argv2']]
            t0 = time.time()
            r = ck.decide(s, pre + 'level-superset', z3.And(z3.Not(e1.err), z3.Not(en.err), z3.Or([z3.And(e1.final[f], z3.Not(en.final[f])) for f in FL])),
                          [e1, en], wit_lvl, viol_level_superset, f'a flag on at -O{L} is off at -O{L + 1} with the same other options', L, L + 1)
            note('level-superset', r, t0)
            t0 = time.time()
            r = ck.decide(s, pre + 'level-same-error', e1.err != en.err, [e1, en], wit_lvl, viol_level_error,
                          f'-O{L} and -O{L + 1} differ in whether the same other options are an error', L, L + 1)
            note('level-same-error', r, t0)
            t0 = time.time()
            s.push()
            s.add(*[z3.Not(PRESENT[f]) for f in FL])
            r = ck.decide(s, pre + 'level-superset/no-overrides', z3.Or(e1.err, en.err, z3.Or([z3.And(e1.final[f], z3.Not(en.final[f])) for f in FL])),
                          [e1, en], wit_lvl, lambda rs_, w: viol_level_superset(rs_, w) or viol_other_exception(rs_[:1], w) or
                          [r_['err'] for r_ in rs_ if r_['err']], f'-O{L + 1} alone does not enable a superset of -O{L} alone', L, L + 1, nontrivial=False)
            s.pop()
            note('level-superset/no-overrides', r, t0)
    run.cov['per_assertion'] = summary
    if hist_dep and not any('history/' in v['obligation'] for v in run.violations):
        run.harness_error('validation saw the real function disagree with the formula only after a history of other command lines '
                          f"(e.g. {hist_dep[0]['argv']}), but no history obligation reported it")
    if ck.use_cvc5:
        run.cov['cvc5_rechecked_queries'] = ck.cvc5_n
        run.cov['cvc5_time_s'] = round(ck.cvc5_time, 2)
        run.cov['cvc5_gave_up_within_%ds' % (CVC5_TLIMIT_MS // 1000)] = ck.cvc5_gaveup
        run.cov['cvc5_note'] = ('thorough tier: z3 verdicts of the obligation kinds ' + ', '.join(CVC5_KINDS) + ' are re-discharged by cvc5 (QF_BV); '
                                'exclusive-never-both, explicit-both-is-error, path-accounting and both order-independence forms are z3-only '
                                '(measured: cvc5 > 5 min each, z3 < 5 s); a cvc5 sat/unsat disagreement is inconclusive')

    # (b) argv tokenisation (another module) and C07-independent: nothing else here
    try:
        import importlib
        c19_argv = importlib.import_module('checks.c19_argv')
    except ModuleNotFoundError as ex:
        if ex.name not in ('checks.c19_argv',):
            raise
        c19_argv = None
        run.cov['argv_part'] = 'checks/c19_argv.py not present in this revision: clause "unknown or malformed options are reported" not decided here'
    if c19_argv is not None and chk.ONLY and 'argv' not in chk.ONLY:
        run.cov['argv_part'] = 'skipped: partial run (VERIF_ONLY=%s does not name the argv part)' % chk.ONLY   # debugging aid, scratch evidence only
    elif c19_argv is not None:
        try:
            c19_argv.run_into(run, tier)
        except Exception as ex:
            import traceback
            traceback.print_exc()
            run.harness_error(f"argv part (checks/c19_argv.py) failed: {type(ex).__name__}: {str(ex)[:300]}")

    return run.finish(
        'Bounded SMT obligations over a real kernel: the resolution tail of load_commandline_flags is if-converted from its source on every run; '
        f'for each -O level {levels} z3 decides for all 3^{NF} absent/on/off assignments of all {NF} flags and all orders of the command line: '
        'implied flags on, exclusive flags never both on, explicit conflicts are errors, order independence (two rank copies), levels '
        'cumulative (superset and same error outcome at L+1 with equal other options), explicit optimisation flag wins, the level enables '
        'its flags and -- bare -- no optimisation flag of a higher level, (when the code calls helpers of the real class, run concretely: the formula '
        'of a level built after all levels were resolved is equivalent to the one built first), no other exception, and the unwinding assertion of the fixpoint (unrolled {NF + 1}). The argv loop before the tail is '
        'not part of this formula (validated concretely; see argv part).')


if __name__ == '__main__':
    chk.main_wrapper(main)
