"""C20 — compilation is a pure function of source and options: machines compiled under different in-process histories and
PYTHONHASHSEEDs (real compiler, separate processes) are compared by solver-checked one-step simulation / BMC."""
import os, sys, subprocess, pickle, random, time, tempfile, shutil, traceback, hashlib
from engines import chk, nm, absm, m2m, stepcmp, dfaiso, l3check
from checks.c06 import consume

PID = 'C20'
sys.setrecursionlimit(200000)


def compile_histories(prog, others, seed, tmp, flags=()):
    out = os.path.join(tmp, 'h%s_%s.pk' % (seed, hashlib.sha1(prog.encode()).hexdigest()[:8]))
    env = dict(os.environ, PYTHONHASHSEED=str(seed), NMFU_VERIF='1', C20_FLAGS=' '.join(flags))
    r = subprocess.run(['python3-vt', '-m', 'engines.c20_sub', out, prog] + others, cwd=chk.VERIF, env=env, capture_output=True, text=True, timeout=600)
    if r.returncode != 0 or not os.path.exists(out):
        return None, r.stderr[-400:]
    with open(out, 'rb') as f:
        res = pickle.load(f)
    os.unlink(out)
    return res, ''


def work(job):
    t0 = time.time()
    out = {'label': job['label'], 'cname': 'seeds' + str(job['seeds']), 'flags': [], 'status': 'ok', 'findings': [], 'stats': None, 'wall': 0}
    tmp = tempfile.mkdtemp(prefix='c20', dir=nm.tmpdir())
    try:
        st = stepcmp.StepStats()
        runs = []
        for sd in job['seeds']:
            res, err = compile_histories(job['path'], job['others'], sd, tmp, job.get('flags', ()))
            if res is None:
                st.d['harness_errors'].append(f"{job['label']} seed {sd}: subprocess failed: {err}")
                continue
            for h, d in res.items():
                runs.append((f'seed{sd}/{h}', d))
        if not runs:
            out['status'] = 'harness-error:no run'
            return out
        ref_name, ref = runs[0]
        L = None
        for name, d in runs[1:]:
            key = f"{job['label']} {ref_name}~{name}"
            st.d['obligations'] += 1
            if d['verdict'] != ref['verdict'] or (d['verdict'] != 'ok' and d['error'] != ref['error']):
                out['findings'].append({'kind': 'c20-verdict', 'what': 'verdict depends on history/hash seed', 'detail': f"{ref_name}: {ref['verdict']} {ref['error']} vs {name}: {d['verdict']} {d['error']}",
                                        'sym': 'verdict', 'pre': {'state': 0, 'vals': {}, 'strs': {}}, 'label': job['label'], 'cname': name, 'flags': [], 'replay': {'reproduced': True}})
                continue
            st.d['discharged'] += 1
            if d['verdict'] != 'ok':
                continue
            if L is None:
                try:
                    L = absm.Layout(ref['spec'])
                except absm.Unsupported as e:
                    out['status'] = 'unsupported:' + str(e)
                    return out
            strict = ref['cfg']['STRICT_DONE_TOKEN_GENERATION']
            ma = absm.Machine(ref['post'], L, strict_done=strict); mb = absm.Machine(d['post'], L, strict_done=strict)
            m, why = dfaiso.iso(ref['post'], d['post'])
            fails = None
            if m is not None:
                fails = m2m.step_relation(ma, mb, L, m, st, ref['cfg']['EOF_SUPPORT'], key)
                st.d['cov']['certificates'] = st.d['cov'].get('certificates', 0) + (0 if fails else 1)
                renum = sum(1 for x, y in m.items() if x in ref['post'].index and y in d['post'].index and ref['post'].index[x] != d['post'].index[y])
                st.d['cov']['state_renumberings_seen'] = st.d['cov'].get('state_renumberings_seen', 0) + (1 if renum else 0)
            if m is None or fails:
                st.d['cov'].setdefault('not_isomorphic', []).append(f'{key}: {why or fails[:1]}')
                wit = []
                for with_end in ([False, True] if ref['cfg']['EOF_SUPPORT'] else [False]):
                    w = m2m.bmc(ma, mb, L, job['K'], with_end, st, key, max_paths=job['max_paths'])
                    if w is None:
                        st.d['inconclusive'].append(f'{key}: machines not isomorphic and BMC over its path budget')
                    else:
                        wit += w
                for x in wit[:2]:
                    ta = m2m.concrete_trace(ma, L, x['input'], x['end']); tb = m2m.concrete_trace(mb, L, x['input'], x['end'])
                    out['findings'].append({'kind': 'c20-diff', 'what': 'machines from two compilations of the same input differ', 'detail': x['detail'], 'sym': 'input',
                                            'pre': {'state': 0, 'vals': {}, 'strs': {}}, 'bytes': x['input'], 'label': job['label'], 'cname': name, 'flags': [],
                                            'replay': {'reproduced': ta != tb, 'a': str(ta)[:400], 'b': str(tb)[:400]}})
        st.d['cov']['programs'] = 1
        st.d['cov']['compilations'] = len(runs)
        out['stats'] = st.d
    except Exception as e:
        out['status'] = 'harness-error:' + type(e).__name__ + ':' + str(e)[:300] + ' | ' + traceback.format_exc()[-500:]
    finally:
        shutil.rmtree(tmp, ignore_errors=True)
    out['wall'] = time.time() - t0
    return out


def main(tier, replay_path):
    run = chk.Run(PID, tier, 'translation_validation', 'real compiler in separate processes (histories x PYTHONHASHSEED); machines compared by absm one-step simulation / BMC; z3')
    seeds = [0, 1, 2] if tier == 'quick' else [0, 1, 2, 3, 5, 8, 13, 21]
    run.functions = ['ProgramData._reset_flags / _ensure_refmapped (per-run reset)', 'whole front end + DfaCompileCtx.compile under different histories and hash seeds']
    run.bounds = {'hash_seeds': seeds, 'histories': ['fresh process', 'after k other programs', 'twice in a row after GC/allocation perturbation'], 'bmc_K_when_not_isomorphic': 4 if tier == 'quick' else 6}
    run.assumptions = ['machines are exported by pickling the real DFA objects', 'structural correspondence (untrusted) is verified by the solver step by step']
    files = nm.corpus_files(('example', 'ok', 'fail', 'verif'))
    rnd = random.Random(chk.seed())
    jobs = []
    for p in files:
        others = rnd.sample([f for f in files if f != p], 3 if tier == 'quick' else 6)
        label = os.path.relpath(p, chk.REPO) if p.startswith(chk.REPO) else os.path.relpath(p, chk.VERIF)
        jobs.append({'label': label, 'path': p, 'src': nm.read(p), 'others': others, 'seeds': seeds, 'K': 4 if tier == 'quick' else 6, 'max_paths': 2000 if tier == 'quick' else 8000})
    # optimisation passes iterate over sets too: small programs are also compiled at -O3 under every seed/history
    for j in list(jobs):
        if len(j['src']) < 1500 and (tier != 'quick' or '/corpus/' in j['path']):
            jobs.append(dict(j, label=j['label'] + ' -O3', flags=('-O3',), seeds=j['seeds'] + ([4, 7] if tier == 'quick' else [])))
    jobs.sort(key=lambda j: -len(j['src']))
    orig = l3check.work
    l3check.work = work
    try:
        consume(run, l3check.run_jobs(jobs), ('c20-diff', 'c20-verdict'), PID)
    finally:
        l3check.work = orig
    return run.finish('Each program is compiled by the real compiler in separate processes under several PYTHONHASHSEEDs and, inside each process, fresh / after other programs / twice in a row with '
                      'allocation perturbation; verdicts must agree and every machine is compared with the reference machine: a structural correspondence is verified by the solver as a one-step '
                      'simulation in eager normal form for every byte/End and all data (equivalence on every input); otherwise BMC from start().')


if __name__ == '__main__':
    chk.main_wrapper(main)
