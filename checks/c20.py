"""C20 — compilation is a pure function of source and options: machines compiled under different in-process histories and
PYTHONHASHSEEDs (real compiler, separate processes) are compared by solver-checked one-step simulation / BMC."""
import os, sys, subprocess, pickle, random, time, tempfile, shutil, traceback, hashlib
from engines import chk, nm, absm, m2m, stepcmp, dfaiso, l3check
from checks.c06 import consume

PID = 'C20'
sys.setrecursionlimit(200000)


def compile_histories(prog, others, seed, tmp, flags=(), histories=''):
    out = os.path.join(tmp, 'h%s_%s.pk' % (seed, hashlib.sha1(prog.encode()).hexdigest()[:8]))
    env = dict(os.environ, PYTHONHASHSEED=str(seed), NMFU_VERIF='1', C20_FLAGS=' '.join(flags), C20_HISTORIES=histories, C20_OPT_SELF='1' if os.environ.get('C20_TIER') == 'thorough' else '0')
    r = subprocess.run(['python3-vt', '-m', 'engines.c20_sub', out, prog] + others, cwd=chk.VERIF, env=env, capture_output=True, text=True, timeout=600)
    if r.returncode != 0 or not os.path.exists(out):
        return None, r.stderr[-400:]
    with open(out, 'rb') as f:
        res = pickle.load(f)
    os.unlink(out)
    return res, ''


def foreign_outputs(snap, spec):
    """OutputStorage objects that the machine's actions / conditions refer to and that are not declared by the program itself"""
    own = {id(o) for o in spec.values()}
    bad, seen = {}, set()
    stack = []
    for trs in snap.tr.values():
        for t in trs:
            stack += list(t.actions)
            if t.cond is not None:
                stack.append(t.cond)
    while stack:
        x = stack.pop()
        if id(x) in seen or isinstance(x, (str, bytes, int, float, bool, type(None), nm.N.DFState, nm.N.DFTransition)):
            continue
        seen.add(id(x))
        if isinstance(x, nm.N.OutputStorage):
            if id(x) not in own:
                bad[id(x)] = x.name
            continue
        if isinstance(x, dict):
            stack += list(x.keys()) + list(x.values())
        elif isinstance(x, (list, tuple, set, frozenset)):
            stack += list(x)
        elif hasattr(x, '__dict__') and not isinstance(x, type) and not callable(x):
            stack += list(vars(x).values())
    return sorted(bad.values())


def _finding(job, name, kind, what, detail, sym, **kw):
    f = {'kind': kind, 'what': what, 'detail': detail, 'sym': sym, 'pre': {'state': 0, 'vals': {}, 'strs': {}}, 'label': job['label'], 'cname': name, 'flags': list(job.get('flags', ())),
         'replay': {'reproduced': True}, 'source': job['src'] if job.get('generated') else None}
    f.update(kw)
    return f


def work(job):
    t0 = time.time()
    out = {'label': job['label'], 'cname': 'seeds' + str(job['seeds']), 'flags': [], 'status': 'ok', 'findings': [], 'stats': None, 'wall': 0}
    tmp = tempfile.mkdtemp(prefix='c20', dir=nm.tmpdir())
    try:
        st = stepcmp.StepStats()
        runs = []
        path = job['path']
        if job.get('generated'):
            path = os.path.join(tmp, 'gen.nmfu')
            with open(path, 'w') as f:
                f.write(job['src'])
        for sd in job['seeds']:
            res, err = compile_histories(path, job['others'], sd, tmp, job.get('flags', ()), 'none' if sd in job.get('fresh_only_seeds', ()) else job.get('histories', 'base'))
            if res is None:
                st.d['harness_errors'].append(f"{job['label']} seed {sd}: subprocess failed: {err}")
                continue
            meta = res.pop('__meta__', {})
            for k, v in meta.items():
                if k == 'rejected-history':
                    st.d['cov']['history_programs_rejected_inside_macro_expansion'] = st.d['cov'].get('history_programs_rejected_inside_macro_expansion', 0) + sum(1 for x in v if x[0] == 'error' and x[2])
                    st.d['cov']['history_programs_rejected'] = st.d['cov'].get('history_programs_rejected', 0) + sum(1 for x in v if x[0] == 'error')
                    if not any(x[0] == 'error' and x[2] for x in v):
                        st.d['harness_errors'].append(f"{job['label']} seed {sd}: no history program was rejected inside a macro expansion: {v}")
                elif k == 'options-history':
                    st.d['cov']['history_compilations_with_other_options'] = st.d['cov'].get('history_compilations_with_other_options', 0) + len(v)
            for h, d in res.items():
                runs.append((f'seed{sd}/{h}', d))
        if not runs:
            out['status'] = 'harness-error:no run'
            return out
        ref_name, ref = runs[0]
        if job.get('generated') and ref['verdict'] != 'ok':
            st.d['harness_errors'].append(f"{job['label']}: a program of the check's own is not accepted by the compiler ({ref['verdict']} {ref['error']}): the shape it stands for is not exercised")
        L = None
        for name, d in runs[1:]:
            key = f"{job['label']} {ref_name}~{name}"
            st.d['obligations'] += 1
            if d['verdict'] != ref['verdict'] or (d['verdict'] != 'ok' and d['error'] != ref['error']):
                out['findings'].append(_finding(job, name, 'c20-verdict', 'verdict depends on history/hash seed', f"{ref_name}: {ref['verdict']} {ref['error']} vs {name}: {d['verdict']} {d['error']}", 'verdict'))
                continue
            # the effective configuration (flag map, option values) is a function of the command line alone
            cdiff = []
            for fld in ('cfg_now', 'opts_now', 'cfg', 'opts'):
                a, b = ref.get(fld), d.get(fld)
                if a != b:
                    cdiff += [f"{fld}.{k}: {(a or {}).get(k)!r} vs {(b or {}).get(k)!r}" for k in sorted(set(a or {}) | set(b or {})) if (a or {}).get(k) != (b or {}).get(k)]
            if cdiff:
                out['findings'].append(_finding(job, name, 'c20-config', 'effective configuration depends on history/hash seed (same source, same options)',
                                                f"{ref_name} vs {name} (command line {d.get('flags')}): " + '; '.join(cdiff[:8]), 'config'))
                continue   # reported; the machines were built under different effective options
            st.d['discharged'] += 1
            if d['verdict'] != 'ok':
                continue
            if d.get('spec_summary') != ref.get('spec_summary'):
                out['findings'].append(_finding(job, name, 'c20-config', 'declared outputs depend on history/hash seed', f"{ref_name}: {ref.get('spec_summary')} vs {name}: {d.get('spec_summary')}", 'outputs'))
                continue
            fo = foreign_outputs(d['post'], d['spec'])
            if fo:
                out['findings'].append(_finding(job, name, 'c20-diff', 'machine refers to outputs that the program does not declare (left behind by an earlier compilation)',
                                                f"{name}: actions/conditions use {fo}; declared: {sorted(d['spec'])}", 'outputs'))
                continue
            try:
                if L is None:
                    try:
                        L = absm.Layout(ref['spec'])
                    except absm.Unsupported as e:
                        out['status'] = 'unsupported:' + str(e)
                        return out
                strict = ref['cfg']['STRICT_DONE_TOKEN_GENERATION']
                ma = absm.Machine(ref['post'], L, strict_done=strict); mb = absm.Machine(d['post'], L, strict_done=strict)
                m, why = dfaiso.iso(ref['post'], d['post'])
                fails = None
                if m is not None:
                    fails = m2m.step_relation(ma, mb, L, m, st, ref['cfg']['EOF_SUPPORT'], key)
                    st.d['cov']['certificates'] = st.d['cov'].get('certificates', 0) + (0 if fails else 1)
                    renum = sum(1 for x, y in m.items() if x in ref['post'].index and y in d['post'].index and ref['post'].index[x] != d['post'].index[y])
                    st.d['cov']['state_renumberings_seen'] = st.d['cov'].get('state_renumberings_seen', 0) + (1 if renum else 0)
                if m is None or fails:
                    st.d['cov'].setdefault('not_isomorphic', []).append(f'{key}: {why or fails[:1]}')
                    wit = []
                    for with_end in ([False, True] if ref['cfg']['EOF_SUPPORT'] else [False]):
                        w = m2m.bmc(ma, mb, L, job['K'], with_end, st, key, max_paths=job['max_paths'])
                        if w is None:
                            st.d['inconclusive'].append(f'{key}: machines not isomorphic and BMC over its path budget')
                        else:
                            wit += w
                    for x in wit[:2]:
                        ta = m2m.concrete_trace(ma, L, x['input'], x['end']); tb = m2m.concrete_trace(mb, L, x['input'], x['end'])
                        out['findings'].append(_finding(job, name, 'c20-diff', 'machines from two compilations of the same input differ', f"{ref_name} vs {name}: {x['detail']}", 'input', bytes=x['input'],
                                                        replay={'reproduced': ta != tb, 'a': str(ta)[:400], 'b': str(tb)[:400]}))
            except absm.Unsupported:
                raise
            except Exception as e:
                # one history that cannot be encoded must not hide what the other histories show
                st.d['harness_errors'].append(f"{key}: comparison failed: {type(e).__name__}: {str(e)[:200]} | {traceback.format_exc()[-300:]}")
        st.d['cov']['programs'] = 1
        st.d['cov']['compilations'] = len(runs)
        out['stats'] = st.d
    except Exception as e:
        out['status'] = 'harness-error:' + type(e).__name__ + ':' + str(e)[:300] + ' | ' + traceback.format_exc()[-500:]
    finally:
        shutil.rmtree(tmp, ignore_errors=True)
    out['wall'] = time.time() - t0
    return out


# ---------------------------------------------------------------------------------------------------------------------------
# Programs of C20's own (in addition to the corpus): names that mean several things at once, so that the ORDER in which the kinds of a
# name are tried decides what the program means (documented: macro before hook in a call; macro argument before global; expr argument
# before output), and programs whose global names are what an aborted macro expansion of an earlier program would leave behind.
GENERATED = {
    # a hook and a macro share a name and the name is called (reference manual: the macro takes priority)
    'call-hook-macro-same-name': """out int value = 0;
hook header;
macro header() {
    "HDR:";
}
parser {
    header();
    foreach {
        /\\d+/;
    } do {
        value = [value * 10 + ($last - '0')];
    }
    ";";
}
""",
    # ... the macro does not match anything: only the hook call / the assignment tells the two meanings apart
    'call-hook-macro-same-name-actions': """out int n = 0;
hook note;
macro note() {
    n = [n + 1];
}
parser {
    "a";
    note();
    "b";
    note();
}
""",
    # inside a macro: the called name is a `macro` argument and a global hook
    'call-macroarg-vs-global-hook': """out int n = 0;
hook h;
macro real() {
    "R";
    n = 1;
}
macro call(macro h) {
    h();
}
parser {
    call(real);
    "x";
}
""",
    # inside a macro: the called name is a `hook` argument and a global macro
    'call-hookarg-vs-global-macro': """out int n = 0;
hook other;
macro h() {
    "M";
    n = 2;
}
macro call(hook h) {
    h();
}
parser {
    call(other);
    "x";
}
""",
    # both at once, nested, with a second hook
    'call-nested-shared-names': """out int n = 0;
hook a;
hook b;
macro a() {
    "A";
    n = [n + 1];
}
macro b() {
    "B";
    n = [n + 2];
}
macro twice(macro b, hook a) {
    b();
    a();
}
parser {
    twice(a, b);
    ";";
}
""",
    # an `expr` argument called like an output (read and written in the body): assignment source tries expr, then out
    'exprarg-vs-output': """out int n = 5;
out int x = 0;
out str[8] s;
macro put(expr n, expr s) {
    x = n;
    "p";
    x = [x + n];
}
parser {
    "a";
    put(7, "zz");
    x = [x + n];
    s += /[a-c]+/;
    ";";
}
""",
    # the later program of the history dimension: outputs read in expressions, a named loop, a finish code, a hook, a macro
    'globals-read-in-expressions': """out int step = 1;
out int total = 0;
out bool seen = false;
out str[6] word;
hook tick;
finishcode EARLY;
macro bump() {
    total = [total + step];
}
parser {
    "a";
    bump();
    loop outer {
        case {
            "b" -> { bump(); tick(); }
            "c" -> { seen = true; break outer; }
            "f" -> { finish EARLY; }
        }
    }
    word += /[x-z]+/;
    if total > step && word.len > step { "!"; }
    ";";
}
""",
}


def main(tier, replay_path):
    run = chk.Run(PID, tier, 'translation_validation', 'real compiler in separate processes (histories x PYTHONHASHSEED); machines compared by absm one-step simulation / BMC; z3')
    seeds = [0, 1, 2] if tier == 'quick' else [0, 1, 2, 3, 5, 8, 13, 21]
    # histories that are not about hashing (leftovers of rejected macro expansions, of other option sets) run under these seeds only
    history_seeds = [0] if tier == 'quick' else [0, 21]
    os.environ['C20_TIER'] = tier   # read by the (forked) workers
    run.functions = ['ProgramData._reset_flags / _ensure_refmapped (per-run reset)', 'whole front end + DfaCompileCtx.compile under different histories and hash seeds']
    run.bounds = {'hash_seeds': seeds, 'hash_seeds_generated_programs': sorted(set(seeds) | {3, 4, 5, 6, 7}), 'history_seeds': history_seeds,
                  'histories': ['fresh process', 'after k other programs', 'twice in a row after GC/allocation perturbation',
                                'after a program rejected inside a macro whose expr arguments are called like this program\'s outputs',
                                'after programs rejected inside nested macro expansions (one level per argument kind, arguments called like this program\'s globals) and inside nested blocks',
                                'after compilations of another program (thorough: and of the same program) under other option sets (-O0 + flags, -O3, -O2 + flags and -fno-)'],
                  'compared': ['verdict and error class', 'effective flag map and option values', 'declared outputs', 'machine (solver)'],
                  'bmc_K_when_not_isomorphic': 4 if tier == 'quick' else 6}
    run.assumptions = ['machines are exported by pickling the real DFA objects', 'structural correspondence (untrusted) is verified by the solver step by step']
    files = nm.corpus_files(('example', 'ok', 'fail', 'verif'))
    rnd = random.Random(chk.seed())
    jobs = []
    for p in files:
        others = rnd.sample([f for f in files if f != p], 3 if tier == 'quick' else 6)
        label = os.path.relpath(p, chk.REPO) if p.startswith(chk.REPO) else os.path.relpath(p, chk.VERIF)
        jobs.append({'label': label, 'path': p, 'src': nm.read(p), 'others': others, 'seeds': seeds, 'K': 4 if tier == 'quick' else 6, 'max_paths': 2000 if tier == 'quick' else 8000})
    for name, src in GENERATED.items():
        # these are about the order in which a frozenset/dict of kinds is walked: more seeds (0,1,4,6 and 2,3,5,7 order enum members differently)
        # (the extra seeds only add the fresh compilation: the other histories are not about hashing)
        jobs.append({'label': 'gen/c20/' + name, 'path': None, 'generated': True, 'src': src, 'others': rnd.sample(files, 3 if tier == 'quick' else 6), 'seeds': sorted(set(seeds) | {3, 4, 5, 6, 7}),
                     'fresh_only_seeds': sorted({3, 4, 5, 6, 7} - set(seeds)), 'K': 6, 'max_paths': 8000})
    # optimisation passes iterate over sets too: small programs are also compiled at -O3 under every seed/history
    for j in list(jobs):
        # (of the check's own programs only those with data flow: what the others are about is decided in the front end)
        if len(j['src']) < 1500 and ((j['label'] in ('gen/c20/globals-read-in-expressions', 'gen/c20/exprarg-vs-output')) if j.get('generated') else (tier != 'quick' or '/corpus/' in j['path'])):
            jobs.append(dict(j, label=j['label'] + ' -O3', flags=('-O3',), seeds=sorted(set(j['seeds']) | ({4, 7} if tier == 'quick' else set()))))
    # the histories that leave something behind on purpose (aborted macro expansions, other option sets) do not depend on the hash seed: they are separate jobs
    # (own fresh reference, seeds = history_seeds) so that the longest program does not get longer
    for j in list(jobs):
        # (quick tier: the -O3 twin of a program repeats only the option history; the aborted expansions are front-end matters and are run for the program itself)
        hs = 'after-options' if tier == 'quick' and j.get('flags') and not j.get('generated') else 'after-rejected-expr after-rejected-macro after-options'
        jobs.append(dict(j, label=j['label'] + ' [histories]', seeds=history_seeds, fresh_only_seeds=(), histories=hs))
    jobs.sort(key=lambda j: -len(j['src']))
    orig = l3check.work
    l3check.work = work
    try:
        consume(run, l3check.run_jobs(jobs), ('c20-diff', 'c20-verdict', 'c20-config'), PID)
    finally:
        l3check.work = orig
    return run.finish('Each program is compiled by the real compiler in separate processes under several PYTHONHASHSEEDs and, inside each process, fresh / after other programs / twice in a row with '
                      'allocation perturbation / after programs that are rejected in the middle of macro expansions whose argument names are this program\'s global names / after compilations '
                      'under other option sets; verdicts, effective flag maps, option values and declared outputs must agree and every machine is compared with the reference machine: a structural correspondence is verified by the solver as a one-step '
                      'simulation in eager normal form for every byte/End and all data (equivalence on every input); otherwise BMC from start().')


if __name__ == '__main__':
    chk.main_wrapper(main)
