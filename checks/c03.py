"""C03 — generated parsers are memory-safe and respect capacities: llsym memory-safety obligations and representation-invariant
induction (start establishes Inv, every feed/end step preserves it, free releases everything), plus CrossHair size/type kernels."""
from engines import chk, l3check
from checks.c06 import consume

PID = 'C03'


def main(tier, replay):
    run = chk.Run(PID, tier, 'model_checking', 'llsym memory model + obligations; z3; CrossHair kernels')
    run.functions = ['emitted <p>_start / <p>_feed / <p>_end / <p>_free', 'CodegenCtx._integer_containing, OutputStorage.effective_string_size, CodegenCtx._generate_set_string (CrossHair)']
    run.bounds = {'per_call': '1 symbolic byte (or end) from every control state, all data within Inv (inductive: any history)', 'reach_search': 'inputs <= 8 (quick) / 12 (thorough) bytes',
                  'alloc_states': 'all-allocated, all-NULL, each single NULL / single allocated (on-demand mode)'}
    run.assumptions = ['malloc returns a fresh live object of the requested size, never NULL (allocation failure out of scope: generated code never checks it)',
                       'hooks do not touch the struct', 'arithmetic UB of user expressions assumed away (C14 precondition)',
                       'sub-object rule: a pointer derived into an array member may only access that member']
    jobs = l3check.jobs_for(tier, ('c03', 'byte', 'end'))
    consume(run, l3check.run_jobs(jobs), ('c03-mem', 'c03-inv'), PID)
    try:
        from checks import c03_kernels
        c03_kernels.run_into(run, tier)
    except ModuleNotFoundError:
        run.cov['kernels'] = 'c03_kernels module not present'
    return run.finish('Obligations generated while symbolically executing the emitted C (every load/store inside a live object and inside the member it was derived into, stores writable, '
                      'no access through integer-manufactured pointers, valid free, memcpy ranges) from every control state with arbitrary Inv data; post-state satisfies Inv '
                      '(counter <= capacity, NUL at counter, pointers live/NULL, no leak); start() establishes Inv; free() releases every buffer once. Models are turned into inputs '
                      'through the public API by a solver-guided reach search and replayed under ASan/UBSan; unreached models are listed as candidates, not violations.')


if __name__ == '__main__':
    chk.main_wrapper(main)
