"""C08 - a case statement runs exactly the clause whose pattern matched.

Generated `case {...}` / `greedy case {...}` programs carry one distinct `finish CODE` marker per clause and an else
marker.  The machine of the REAL compiler is compared with the reference of engines/refre.py (parallel product of the
per-pattern derivative automata, one byte of look-ahead; greedy: maximal munch then highest priority):
the marker reached is that of the unique clause whose pattern equals the consumed bytes, at the same consumed count;
else / no-match exactly when all patterns are dead, at the offending byte (which is not consumed).
Certificate (untrusted relation, z3-verified for every pair and every byte) + unrolled bounded run K<=8.
Programs the compiler rejects are skipped here (the verdict side is C09).
"""
import json
from engines import chk, nm, dfz, refre, gen_re

FLAGS = ()
K = 8
ENGINE = ('E2 certificate + BMC: compiled case / greedy-case machine (real nmfu compile, default options) vs parallel product of derivative '
          'automata with look-ahead / maximal munch + priority (refre.RefProg); input bytes symbolic (z3), clause sets enumerated')


def work(item):
    src, do_bmc = item
    refre.reset()
    obs = {}

    def post(res, comp, ref, mach, st):
        # not part of C08's statement (it is C07/C17's): recorded as an observation only
        LM = dfz.machine_lts(mach)
        if any(e['as_data'] for e in LM.end.values()):
            obs['end_as_data'] = True
    r = dfz.analyse(src, FLAGS, slack=True, compare_accept=False, end_policy=None, K=K, do_bmc=do_bmc, obligation='clause',
                    extra={'greedy': 'greedy case' in src}, post=post)
    r['obs'] = obs
    r['greedy'] = 'greedy case' in src
    if r['violations']:
        try:
            tree = nm.N.parser.parse(src, start='start')
            st = refre.Builder(src).stmt(refre.find(tree, 'greedy_case_stmt') or refre.find(tree, 'case_stmt'))
            facts = {'has_nullable_clause_pattern': any(da.start >= 0 and da.null[da.start] for da, cl, pr in st[2])}
        except Exception as e:
            facts = {'clause_facts_error': str(e)}
        for v in r['violations']:
            v['witness'].update(facts)
    return r


def items_for(tier):
    n = 6000 if tier == 'thorough' else 1200
    srcs = gen_re.clause_sets(n)
    every = 3 if tier == 'thorough' else 1
    return [(s, i % every == 0) for i, s in enumerate(srcs)]


def main(tier, replay):
    run = chk.Run('C08', tier, 'model_checking', ENGINE)
    run.functions = ['CaseNode._merge', 'CaseNode.convert (else retargeting, body linking, greedy priority resolution)', 'DFA.append_after',
                     'DirectMatch/CaseDirectMatch/RegexMatch/ConcatMatch.convert', 'DfaCompileCtx.compile (default optimisation)']
    run.assumptions = ['clause sets are enumerated (fixed list + seeded generator); verdict per accepted program',
                       'markers: `finish Ci;` directly, or after a one-byte terminator when the clause pattern is open-ended (nmfu cannot schedule a finish after an open-ended pattern)',
                       'slack (c) of DESIGN C01: when a decider that could have continued stops at byte c and the clause body does not accept c either, the mismatch may be attributed to the case (else / no-match) or to the body',
                       'reference states where the clause set is ambiguous (two clauses match, or one matches while another clause can continue; greedy: equal top priority) are not judged here; that is C09',
                       'End-of-input is not part of C08\'s statement: End consumed by a data transition inside a case decider is recorded as an observation (coverage key observation_End_...), it is C07/C17\'s subject',
                       'machine semantics at L2 as in engines/dfz.py; default options (-O1)']
    if replay:
        w = json.load(open(replay))['witness']
        refre.reset()
        r = dfz.analyse(w['src'], tuple(w['flags']), slack=True, end_policy=None, K=max(K, w.get('n', 0)), do_bmc=True, obligation='clause')
        print(json.dumps({'verdict': r['verdict'], 'violations': r['violations']}, indent=1, default=str)[:4000])
        return chk.EXIT_VIOLATION if r['violations'] else chk.EXIT_OK
    items = items_for(tier)
    run.bounds = {'K_bmc': K, 'clause_sets': len(items), 'clauses_per_set': '1-4', 'patterns_per_clause': '1-3', 'flags': list(FLAGS)}
    counters = {}
    split = {'greedy': {}, 'plain': {}}
    for r in dfz.pool_map(work, items, chunksize=4):
        v = dfz.absorb(run, r, 'C08:' + r['src'], r['src'][:80], 'C08/', counters)
        g = 'greedy' if r['greedy'] else 'plain'
        if r.get('obs', {}).get('end_as_data'):
            run.cov.setdefault('observation_End_consumed_by_data_transition_in_case_decider', []).append(r['src'])
        split[g][v] = split[g].get(v, 0) + 1
        if v == 'verified':
            run.sample({'clause_set': r['src'], 'verdict': 'certificate verified by z3 (%d pairs, %d step combinations); BMC %s K=%d' % (r['pairs'], r['steps'], r['bmc'], r.get('bmc_K', K))}, limit=8)
        elif v == 'rejected':
            if len([s for s in run.samples if s.get('verdict') == 'rejected']) < 3:
                run.sample({'clause_set': r['src'], 'verdict': 'rejected', 'error': str(r.get('error'))[:160]}, limit=30)
        else:
            run.sample({'clause_set': r['src'], 'verdict': v, 'detail': str(r.get('error') or r['inconclusive'] or r['harness'])[:300]}, limit=30)
    run.cov['programs'] = len(items)
    run.cov['programs_accepted'] = sum(v for k, v in counters.items() if k in ('verified', 'violation', 'inconclusive'))
    run.cov['programs_rejected_skipped'] = counters.get('rejected', 0)
    run.cov['verdicts'] = counters
    run.cov['verdicts_by_kind'] = split
    run.cov['bmc_bound_K'] = K
    run.cov.setdefault('compiler_crashes', [])
    if counters.get('verified', 0) < len(items) // 10:
        run.harness_error('fewer than 10%% of the generated clause sets were accepted and verified (%s)' % counters)
    return run.finish('per accepted clause set: z3-verified one-step simulation (every related pair x one symbolic byte + End) between the compiled case machine and '
                      'the parallel-product reference => same marker at the same consumed count for inputs of every length; plus an unrolled bounded run K=%d. '
                      'states = related pairs, transitions = step combinations decided.' % K)


if __name__ == '__main__':
    chk.main_wrapper(main)
