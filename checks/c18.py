"""C18 - the compiler terminates with code or a diagnosed error: the part a solver can decide (data inside a token).

CrossHair (z3) explores ALL token texts the lexer terminals admit (within the bound) / all numeric attributes / all positions
of a symbolic source text, on harnesses in kernels/k_c18.py that call the real decoders, _parse_out_decl,
_integer_containing, RegexMatch._interpret_parse_tree and NMFUError._generate_whitespace_marker of /repo/nmfu.py.
Totality over program STRUCTURE and termination are not decided here (DESIGN §4 C18).
"""
import os, re, itertools, importlib.util
from engines import chk, xhair

KERNEL = os.path.join(chk.VERIF, 'kernels', 'k_c18.py')
PY = '/venv/bin/python'   # the repository's own interpreter (the one its test suite runs under)

FUNCTIONS = ['ParseCtx._convert_string', 'ParseCtx._convert_char_const', 'ParseCtx._convert_binary_string', 'ParseCtx._convert_int',
             'ParseCtx._parse_out_decl (int_type / str_type / unterm_str_type branches, hand-built lark trees)',
             'CodegenCtx._integer_containing(width=, signed=)', 'OutputStorage.effective_string_size',
             'RegexMatch._interpret_parse_tree (regex_exact_repeat / regex_at_least_repeat / regex_range_repeat)',
             'NMFUError._generate_whitespace_marker + ProgramData.load_source/get_source_line']

QUICK = {
    'C18/casei_variants': [dict(env={}, timeout=120, label='every character 0..255 of a case-insensitive literal')],
    'C18/convert_string': [dict(env={'XH_N': 3}, timeout=300, label='STRING token, <=3 body chars (any code point; after \\x: < 128)')],
    'C18/convert_char_const': [dict(env={}, timeout=120, label='every CHAR_CONSTANT token (any code point)')],
    'C18/convert_binary_string': [dict(env={'XH_N': 3, 'XH_MAXHEX': 3}, timeout=400, label='STRING token, <=3 body chars')],
    'C18/convert_int': [dict(env={'XH_N': 2}, timeout=300, label='RADIX_NUMBER token, <=4 chars')],
    'C18/int_width': [dict(env={}, timeout=120, label='width: every int (unbounded), signed: bool')],
    'C18/out_decl_int_width': [dict(env={'XH_N': 2}, timeout=200, label='int{size [-]dd} through _parse_out_decl, <=2 digits')],
    'C18/out_decl_str_size': [dict(env={'XH_N': 3}, timeout=200, label='str[[-]ddd] / unterminated str through _parse_out_decl, <=3 digits')],
    'C18/regex_repeat_bounds': [dict(env={'XH_N': 1}, parts=3, timeout=600, label='{n} {n,} {n,m}: n, m in -9..9')],
    'C18/whitespace_marker': [dict(env={'XH_N': 4}, timeout=300, label='source <=4 chars (any code point), every non-blank position')],
}
THOROUGH = {
    'C18/casei_variants': [dict(env={}, timeout=120, label='every character 0..255 of a case-insensitive literal')],
    'C18/convert_string': [dict(env={'XH_N': 4}, parts=16, timeout=900, label='STRING token, <=4 body chars (any code point; after \\x: < 128)')],
    'C18/convert_char_const': [dict(env={}, timeout=120, label='every CHAR_CONSTANT token (any code point)')],
    'C18/convert_binary_string': [dict(env={'XH_N': 4, 'XH_MAXHEX': 3}, parts=8, timeout=900, label='STRING token, <=4 body chars, at most 3 of them hex digits')],
    'C18/convert_int': [dict(env={'XH_N': 3}, parts=8, timeout=900, label='RADIX_NUMBER token, <=5 chars')],
    'C18/int_width': [dict(env={}, timeout=120, label='width: every int (unbounded), signed: bool')],
    'C18/out_decl_int_width': [dict(env={'XH_N': 3}, timeout=400, label='int{size [-]ddd} through _parse_out_decl, <=3 digits')],
    'C18/out_decl_str_size': [dict(env={'XH_N': 4}, timeout=400, label='str[[-]dddd] / unterminated str through _parse_out_decl, <=4 digits')],
    'C18/regex_repeat_bounds': [dict(env={'XH_N': 1}, parts=3, timeout=600, label='{n} {n,} {n,m}: n, m in -9..9')],
    'C18/whitespace_marker': [dict(env={'XH_N': 5}, timeout=900, label='source <=5 chars (any code point), every non-blank position')],
}

EXPLANATION = (
    'Bounded SMT obligations over real kernels: each condition is one CrossHair run (symbolic execution of the real nmfu.py function with '
    'z3) over ALL token texts the lexer terminal admits within the stated length bound (characters are arbitrary code points; the characters '
    'after \\x and the digits of hexadecimal numbers are bounded to the alphabets stated, because int(..,16) is executed by solver enumeration), '
    'ALL integers (width attribute: unbounded), ALL positions of a symbolic source text. Contract: the kernel returns or raises an NMFUError '
    '(ValueError only from _convert_binary_string, whose callers convert it). The admission scanners used in `pre:` are validated against '
    'the real terminal regexes of nmfu.parser on every run. Known undiagnosed exceptions: the region of each listed finding is searched '
    'separately (witness replayed -> KNOWN-FINDING) and the obligation is re-checked with the regions excluded. NOT decided by the solver: '
    'totality over program structure and termination (crashes seen by other checks while compiling corpus/generated programs are reported '
    'there as by-products).')


def _load(kernel):
    spec = importlib.util.spec_from_file_location('_k_c18', kernel)
    mod = importlib.util.module_from_spec(spec)
    spec.loader.exec_module(mod)
    return mod


def validate_scanners(run, mod):
    """harness adequacy (not a verdict): the hand-written admission scanners agree with the REAL terminal regexes of the
    grammar on every string up to length 5 over an alphabet that contains every character the regexes distinguish"""
    terms = {t.name: re.compile(t.pattern.to_regexp()) for t in mod.nmfu.parser.terminals}
    alpha = {'STRING': ['"', '\\', 'x', 'a', '\n', 'é'], 'CHAR_CONSTANT': ["'", '\\', 'a', '\n', '"'],
             'RADIX_NUMBER': ['0', '1', '9', 'x', 'b', 'a', 'F', 'g', '+', '-'], 'NUMBER': ['0', '7', '+', '-', 'a', '٣']}
    n = 0
    for name, fn in mod.ADMIT.items():
        rx = terms[name]
        for ln in range(0, 6):
            for tup in itertools.product(alpha[name], repeat=ln):
                s = ''.join(tup)
                n += 1
                if bool(fn(s)) != (rx.fullmatch(s) is not None):
                    run.harness_error(f'admission scanner for {name} disagrees with the grammar regex {rx.pattern!r} on {s!r}')
                    return False
    run.cov['scanner_validation'] = f'{n} strings compared against nmfu.parser terminal regexes: ' + \
        ', '.join(f'{k}={terms[k].pattern}' for k in mod.ADMIT)
    return True


def structure_replays(run):
    """Not a solver obligation: concrete replays, through the real command line, of the programs of corpus/c18/ - grammatical programs
    and option sets that once made the compiler die with an internal exception (findings that came from outside the token-level kernels,
    all repaired in /repo and listed as fixed). Each must end with generated code or a diagnosed error; a traceback, a signal or a
    timeout is reported as a violation again. Totality over program structure in general stays outside the claim."""
    import glob, subprocess, tempfile, shutil
    files = sorted(glob.glob(os.path.join(chk.VERIF, 'corpus', 'c18', '*.nmfu')))
    done = []
    for f in files:
        src = open(f).read()
        args = nm_split_args(src)
        d = tempfile.mkdtemp(prefix='c18s-')
        try:
            try:
                p = subprocess.run([PY, os.path.join(chk.REPO, 'nmfu.py'), *args, f, '-o' + os.path.join(d, 'out')], capture_output=True, text=True, timeout=120, cwd=d)
                rc, err = p.returncode, p.stderr
            except subprocess.TimeoutExpired:
                rc, err = 'timeout', ''
            made = os.path.exists(os.path.join(d, 'out.c')) and os.path.exists(os.path.join(d, 'out.h'))
        finally:
            shutil.rmtree(d, ignore_errors=True)
        first = (err.strip().splitlines() or [''])[0]
        diagnosed = rc not in (0, 'timeout') and 'Traceback' not in err and bool(re.match(r'(Syntax|Parse|Compile|Codegen) error:|Invalid value for option|Unknown |Conflict|No input|Invalid', first))
        good = (rc == 0 and made) or diagnosed
        name = os.path.basename(f)
        if good:
            done.append({'program': name, 'args': args, 'outcome': 'code generated' if rc == 0 else 'diagnosed: ' + first[:100]})
        else:
            last = (err.strip().splitlines() or [''])[-1]
            run.violation('C18/structure:' + name, {'program': 'corpus/c18/' + name, 'args': args, 'exit': rc, 'stderr_last_line': last[:300], 'source': src,
                                                    'replay': {'reproduced': True, 'how': 'nmfu.py run as a subprocess on the file'}},
                          f'the compiler does not end with code or a diagnosed error on corpus/c18/{name}: exit {rc}, {last[:160]}')
    run.cov['structure_replays'] = {'note': 'concrete replays of repaired structural crashes (not solver obligations)', 'programs': done}
    run.fixed_checked += [x['program'] for x in done]


def _sweep_one(item):
    from engines import nm
    label, src, flags = item
    c = nm.compile_src(src, flags, want_c=True, timeout=60)
    return {'label': label, 'src': src, 'flags': list(flags), 'verdict': c.verdict, 'error': c.error, 'stage': c.stage}


def structure_sweep(run, tier):
    """By-product sweep, not a solver claim: every program family the other checks generate (regexes, clause sets, statement programs,
    macro programs incl. ill-kinded calls, wait programs) plus the corpora and the repo's *.fail tests is pushed through the whole real
    compiler once; an exception that is not a diagnosed error, or a time-out, is a C18 violation (confirmed through the command line)."""
    import subprocess, tempfile, shutil
    from engines import nm, gen_re, gen_c01, gen_macro, dfz
    n = 1 if tier == 'quick' else 6
    items = []
    for src, form, kind in gen_re.random_regexes(300 * n):
        items.append(('regex:' + src, gen_re.regex_program(src), ()))
    for i, src in enumerate(gen_c01.programs(chk.seed(), 60 * n)):
        items.append((f'gen_c01:{i}', src, ()))
        items.append((f'gen_c01:{i} -O3 +eof', src, ('-O3', '-feof-support')))
    for name, src, _ in gen_macro.programs(chk.seed(), 10 * n):
        items.append(('gen_macro:' + name, src, ()))
    for pth in nm.corpus_files(('example', 'ok', 'fail', 'verif', 'cycle')):
        items.append((os.path.relpath(pth, chk.REPO) if pth.startswith(chk.REPO) else os.path.relpath(pth, chk.VERIF), nm.read(pth), ('-O3',)))
    counts = {}
    bad = []
    for r in dfz.pool_map(_sweep_one, items, chunksize=8):
        v = r.get('verdict', 'harness')
        counts[v] = counts.get(v, 0) + 1
        if v in ('crash', 'timeout'):
            bad.append(r)
        elif v == 'harness':
            run.harness_error('structure sweep worker failed: ' + str(r)[:200])
    for r in bad[:20]:
        d = tempfile.mkdtemp(prefix='c18w-')
        try:
            f = os.path.join(d, 'p.nmfu')
            open(f, 'w').write(r['src'])
            try:
                p = subprocess.run([PY, os.path.join(chk.REPO, 'nmfu.py'), *nm_split_args(r['src']), *r['flags'], f, '-o' + os.path.join(d, 'out')], capture_output=True, text=True, timeout=180, cwd=d)
                rc, err = p.returncode, p.stderr
            except subprocess.TimeoutExpired:
                rc, err = 'timeout', ''
        finally:
            shutil.rmtree(d, ignore_errors=True)
        confirmed = rc == 'timeout' or 'Traceback' in err
        last = (err.strip().splitlines() or [''])[-1]
        if confirmed:
            run.violation('C18/structure-sweep:' + r['label'][:80], {'program': r['label'], 'flags': r['flags'], 'source': r['src'], 'exception': str(r['error'])[:300], 'stage': r['stage'],
                                                                     'exit': rc, 'stderr_last_line': last[:300], 'replay': {'reproduced': True, 'how': 'nmfu.py run as a subprocess on the program'}},
                          f'the compiler dies with an internal exception / does not finish: {last[:160] or rc}')
        else:
            run.harness_error(f'in-process compile of {r["label"]} gave {r["verdict"]} ({r["error"]}) but the command line run did not crash (exit {rc})')
    run.cov['structure_sweep'] = {'note': 'by-product sweep (concrete, not a solver obligation)', 'programs_compiled': len(items), 'outcomes': counts}


def nm_split_args(src):
    out = []
    for line in src.splitlines():
        if line.startswith('// args:'):
            out += line[len('// args:'):].split()
    return out


def configs(tier):
    return THOROUGH if tier == 'thorough' else QUICK


def main(tier, replay):
    if replay:
        return xhair.replay_file(replay)
    run = chk.Run('C18', tier, 'other', 'CrossHair %s: PEP-316 harnesses in kernels/k_c18.py over the real %s/nmfu.py; one `crosshair check` '
                  'process per condition; counterexamples replayed in a fresh python3-vt' % (xhair.version(), chk.REPO))
    run.functions = FUNCTIONS
    run.assumptions = ['lark positions: line = 1 + number of \\n before the token, column = 1 + distance to the preceding \\n; tokens start at non-blank characters',
                       'lark.Token cannot carry a symbolic text: tokens with symbolic text are stand-in objects with .value/.line/.column (all that the exercised nmfu paths read)',
                       'CrossHair/z3/CPython are trusted; exceptions inside `pre:` would silently shrink the domain - every harness has reachability twins']
    run.cov['checker_cmd'] = 'python3-vt -m crosshair check --report_all --per_condition_timeout T kernels/k_c18.py:LINE'
    run.cov['trusted_base'] = ['CrossHair 0.0.110', 'z3', 'CPython 3.11', 'lark (terminal regexes)']
    mod = _load(KERNEL)
    if validate_scanners(run, mod):
        cfgs = configs(tier)
        jobs = xhair.plan_jobs(KERNEL, {ob: e for ob, e in mod.HARNESSES.items() if ob in cfgs}, cfgs)
        xhair.absorb(run, xhair.run_jobs(jobs), KERNEL)
        run.bounds.update({ob: [c.get('label') + (f" ({c.get('parts')} parts)" if c.get('parts', 1) > 1 else '') for c in cs]
                           for ob, cs in cfgs.items()})
    structure_replays(run)
    structure_sweep(run, tier)
    return run.finish(EXPLANATION)


if __name__ == '__main__':
    chk.main_wrapper(main)
