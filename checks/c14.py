"""C14 — math expressions evaluate as C arithmetic: the emitted C of one-statement parsers (llsym, all variables symbolic at
full width) against our own C-precedence parse + bit-vector evaluation of the expression's source text."""
import itertools, random, time, traceback, zlib
import z3
from engines import chk, nm, l3 as l3mod, absm, stepcmp, symx, cparse, cexpr as C, l3check, replay, llsym
from engines.cexpr import CV
from checks.c06 import consume

PID = 'C14'
INT_OPS = ['|', '^', '&', '<<', '>>', '+', '-', '*', '/', '%']
CMP_OPS = ['==', '!=', '<', '>', '<=', '>=']
LOG_OPS = ['||', '&&']
ALL_OPS = LOG_OPS + ['|', '^', '&'] + CMP_OPS + ['<<', '>>', '+', '-', '*', '/', '%']
TYPESETS = [
    ('i32', ('int', 'int', 'int', 'int')),
    ('mixed-small', ('int{unsigned, size 1}', 'int{size 2}', 'int{unsigned, size 4}', 'int{size 2}')),
    ('wide', ('int{size 8}', 'int{unsigned, size 8}', 'int', 'int{unsigned, size 8}')),
    ('u16-i8', ('int{unsigned, size 2}', 'int{size 1}', 'int{unsigned, size 1}', 'int{size 1}')),
]


def op_type(op):
    """(operand kind, result kind)"""
    if op in INT_OPS:
        return 'int', 'int'
    if op in CMP_OPS:
        return 'int', 'bool'
    return 'bool', 'bool'


def leaf(kind, i):
    if kind == 'int':
        return ('var', f'v{i % 3}')
    return ('var', 'f' if i % 2 == 0 else 'g')


def typed(ast):
    """result kind of an AST built by this generator ('int' / 'bool'), or None if ill-typed for nmfu's rules"""
    k = ast[0]
    if k in ('num', 'last', 'len', 'idx'):
        return 'int'
    if k == 'var':
        return 'bool' if ast[1] in ('f', 'g') else 'int'
    if k == 'un':
        t = typed(ast[2])
        if ast[1] == '!':
            return 'bool' if t == 'bool' else ('boolc' if t == 'int' else None)   # !int type-checks in conditions only
        return 'int' if t == 'int' else None
    a, b = typed(ast[2]), typed(ast[3])
    need, res = op_type(ast[1])
    if ast[1] in ('==', '!=') and a == 'bool' and b == 'bool':
        return 'bool'
    if a != need or b != need:
        return None
    return res


def pair_exprs():
    out = []
    for o1 in ALL_OPS:
        for o2 in ALL_OPS:
            for shape in ('L', 'R'):
                n1, r1 = op_type(o1)
                n2, r2 = op_type(o2)
                if shape == 'L':     # (x o1 y) o2 z
                    inner = ('bin', o1, leaf(n1, 0), leaf(n1, 1))
                    ast = ('bin', o2, inner, leaf(n2, 2))
                else:                # x o1 (y o2 z)
                    inner = ('bin', o2, leaf(n2, 1), leaf(n2, 2))
                    ast = ('bin', o1, leaf(n1, 0), inner)
                if typed(ast) is None:
                    # equality of two bools is also well typed
                    continue
                out.append(ast)
    return out


def extra_exprs():
    P = cparse.Parser
    texts = ["-v0 * v1", "-(v0 + v1)", "v0 - -v1", "-v0 - v1", "-v0 << 2", "!f && g", "!(f || g)", "!f == g", "!(v0 < v1)", "-v0 < v1",
             "$last - '0'", "$last + s.len", "s[1] + 1", "s[v0] * 2", "s[s.len - 1]", "v0 * 10 + ($last - '0')", "(v0 | ($last & 127)) << 7", "0x7f & v1", "0b101 ^ v2",
             "'a' + 1", "true && f", "v0 + true", "v0 / 3 % 5", "v0 % 7 / 2", "v0 - v1 - v2", "v0 / v1 / v2", "v0 >> 1 + 1", "v0 & v1 == v2", "v0 == v1 & v2",
             "v0 < v1 == f", "v0 | v1 && f", "(v0 & 0xff) == s.len", "v0 * v1 + v2 * v0", "2147483647 - v0", "v0 + 2147483647", "-2147483647 - 1 + v0", "u[0] + u.len", "v0 << v1", "v0 >> v1",
             "s[0 - 1] + 1", "s[4]", "u[2] - u[0]", "u[3]", "u[3] * 2 + u[1] - 1", "u[4] + 1", "s[3] + 1", "s[5]", "u[2]", "!v0", "!(v0 & 4)", "!s.len", "!(v0 - v1)", "!s[1]", "!$last", "!(v0 + 1)", "!v2"]
    out = []
    for t in texts:
        try:
            out.append(P(t).parse())
        except cparse.ParseError:
            pass
    return out


def random_exprs(rnd, n, depth):
    def gen(kind, d):
        if d == 0 or rnd.random() < 0.25:
            if kind == 'bool':
                return rnd.choice([('var', 'f'), ('var', 'g'), ('bin', rnd.choice(CMP_OPS), gen('int', 0), gen('int', 0))])
            return rnd.choice([('var', 'v0'), ('var', 'v1'), ('var', 'v2'), ('num', rnd.choice([0, 1, 2, 7, 10, 255, 256, 65535, 100000])), ('last',), ('len', 's'),
                               ('idx', 's', ('num', rnd.choice([0, 1, 3])))])
        if kind == 'bool':
            c = rnd.random()
            if c < 0.4:
                return ('bin', rnd.choice(LOG_OPS), gen('bool', d - 1), gen('bool', d - 1))
            if c < 0.8:
                return ('bin', rnd.choice(CMP_OPS), gen('int', d - 1), gen('int', d - 1))
            return ('un', '!', gen('bool', d - 1))
        if rnd.random() < 0.1:
            return ('un', '-', gen('int', d - 1))
        return ('bin', rnd.choice(INT_OPS), gen('int', d - 1), gen('int', d - 1))
    return [gen(rnd.choice(['int', 'bool']), depth) for _ in range(n)]


def lit_cval(ast):
    """generator-side value of a literal-only tree (C: / truncates towards zero, % has the dividend's sign); only used to spell comparison
    constants next to the literal subtree - the oracle of the check stays cparse.evaluate in bit-vectors"""
    k = ast[0]
    if k == 'num':
        return ast[1]
    if k == 'un':
        x = lit_cval(ast[2])
        return -x if ast[1] == '-' else int(x == 0)
    if k != 'bin' or ast[1] not in ('+', '-', '*', '/', '%'):
        raise ValueError('not a literal-only arithmetic tree')
    a, b = lit_cval(ast[2]), lit_cval(ast[3])
    op = ast[1]
    if op in ('/', '%'):
        if b == 0:
            raise ValueError('division by zero')
        q = abs(a) // abs(b) * (1 if (a < 0) == (b < 0) else -1)
        return q if op == '/' else a - q * b
    return {'+': a + b, '-': a - b, '*': a * b}[op]


# literal-only subtrees whose value is negative, reached through unary minus, subtraction of numbers and of character constants, products
LIT_NEG = ['-7', '(7 - 10)', '(0 - 7)', "('0' - '7')", '(2 - 3 * 3)', '-(3 + 4)', '-1', '(1 - 2)', '-0x7', '(3 - 2 * 7)', "('a' - 'z')", '-(20 - 7)']
LIT_POS = ['2', '3', '4', '5']
LIT_NEG_DIVISOR = ['-2', '(1 - 3)', '-4', '(2 - 6)', "('0' - '3')"]
LIT_POS_DIVIDEND = ['7', '9', "'\\t'", '(3 + 4)']
LIT_CONTEXTS = ['v0 + {}', '{} * 2 - v1', 'v0 * ({})', '{} == {c}', '{} != {c}', '{} < {c}', '!({})', 's[{} + 4]', '-({}) + {}', 'v0 < {} || f', '({} + 100) >> 1', 'v2 - ({})']


def literal_exprs(tier):
    """(text, ast): literal-only subtrees (no variable, .len, index or $last below them) with negative intermediate values under / and %:
    C truncates the quotient towards zero and gives the remainder the sign of the dividend, whatever a compiler does with constant
    subtrees. The subtree alone and inside larger trees (sum, product, comparison, !, index, shift, logical)."""
    P = cparse.Parser
    cores = []
    for op in ('/', '%'):
        for n in LIT_NEG:
            for q in LIT_POS:
                cores.append(f'{n} {op} {q}')
        for q in LIT_POS_DIVIDEND:
            for n in LIT_NEG_DIVISOR:
                cores.append(f'{q} {op} {n}')
        cores += [f'-7 {op} -2', f'(3 - 10) {op} (5 - 7)', f'-8 {op} 2', f'-(7 {op} 2)', f'7 {op} 2 - 10 {op} 3', f'-20 {op} 3 {op} 2', f'-20 / 3 {op} -2', f'(2 - 20) / 3 * 3 + (2 - 20) % 3 {op} 5']
    texts = []
    step = 12 if tier == 'quick' else 1
    texts += cores[::step]
    nctx = len(LIT_CONTEXTS)
    for i, core in enumerate(cores):
        if tier == 'quick' and i % 19 != 3:
            continue
        for j, ctx in enumerate(LIT_CONTEXTS):
            if (i + j) % nctx != 0:
                continue
            try:
                c = lit_cval(P(core).parse())
            except (cparse.ParseError, ValueError):
                continue
            texts.append(ctx.format(core, core, c=c) if ctx.count('{}') == 2 else ctx.format(core, c=c))
    out, seen = [], set()
    for t in texts:
        if t in seen:
            continue
        seen.add(t)
        try:
            out.append((t, P(t).parse()))
        except cparse.ParseError:
            pass
    return out


# index expressions: checked under the default (range-checked) indexing and under -funsafe-string-indexing with both string element types
IDX_NEW = ['s[0]', 's[1] * 256 + s[0]', 's[2] > 127', 'u[1] - 128', 's[v0]', 's[v0 & 3] + 1', 'u[v1 % 3]', '-s[1]', 's[0] >> 7', 's[1] / 16', 's[1] & 128',
           's[0] < s[1]', 's[u[0] & 3]', 's[1] == $last', 'u[2] % 100 - 100', 's[2] | v0 << 8', '(s[0] ^ 255) + 1', 'u[0] >= 128 && u[1] < 128', 's[s.len - 1] != 255', 'v0 + s[1] * s[2]',
           'u[2] == 200', 'f || u[v0] > 127']
IDX_CONFIGS = [('unsafeidx', ('-funsafe-string-indexing',)), ('unsafeidx-u8', ('-funsafe-string-indexing', '-fstrings-as-u8')), ('u8', ('-fstrings-as-u8',))]
STR_SIZES = {'s': 4, 'u': 3}    # declared in program()


def has_idx(ast):
    return ast[0] == 'idx' or any(isinstance(x, tuple) and has_idx(x) for x in ast[1:])


def static_oob(ast):
    """some index is a literal-only tree outside the declared size: with unchecked indexing such a program is outside the claim for every input"""
    if ast[0] == 'idx':
        try:
            v = lit_cval(ast[2])
            if not 0 <= v < STR_SIZES[ast[1]]:
                return True
        except ValueError:
            pass
    return any(isinstance(x, tuple) and static_oob(x) for x in ast[1:])


def index_exprs():
    out = []
    for t in IDX_NEW:
        try:
            out.append((t, cparse.Parser(t).parse()))
        except cparse.ParseError:
            pass
    return out


def uses_last(ast):
    return ast[0] == 'last' or any(isinstance(x, tuple) and uses_last(x) for x in ast[1:])


def program(types, site, text):
    t0, t1, t2, tr = types
    head = (f'out {t0} v0 = 0;\nout {t1} v1 = 0;\nout {t2} v2 = 0;\nout bool f = false;\nout bool g = false;\nout {tr} r = 0;\nout bool q = false;\n'
            'out str[4] s;\nout unterminated str[3] u;\nhook h1;\nhook h2;\n')
    body = {'assign': f'/./; r = [{text}]; ";";', 'append': f'/./; s += [{text}]; ";";', 'ifact': f'/./; if {text} {{ h1(); }} else {{ h2(); }} ";";',
            'ifpoint': f'/./; if {text} {{ "x"; }} else {{ "y"; }} ";";', 'boolassign': f'/./; q = [{text}]; ";";'}[site]
    return head + 'parser { ' + body + ' }\n'


def check_site(ast, text, types, site, st, tname, flags=()):
    """returns list of findings"""
    d = st.d
    src = program(types, site, text)
    comp = nm.compile_src(src, flags=tuple(flags))
    d['cov']['compilations'] = d['cov'].get('compilations', 0) + 1
    if comp.verdict != 'ok':
        d['cov']['rejected_by_compiler'] = d['cov'].get('rejected_by_compiler', 0) + 1
        if comp.verdict in ('crash', 'timeout'):
            d['cov'].setdefault('compiler_crashes_C18', []).append(f'{text}: {comp.error}')
        return []
    try:
        L = l3mod.L3(comp)
    except (l3mod.Unencodable, absm.Unsupported) as e:
        d['cov']['unencodable'] = d['cov'].get('unencodable', 0) + 1
        return []
    findings = []
    snap = comp.post
    if site == 'ifpoint':
        states = [i for i, s_ in enumerate(snap.states) if snap.is_cond(s_)]
    else:
        states = [snap.index[snap.start]]
    for sidx in states:
        solver = z3.Solver(); solver.set('timeout', 60000)
        data, inv0 = L.layout.symbolic()
        inv = stepcmp.pre_inv(L, data, inv0, None)
        b = z3.BitVec('chunk_0', 8)
        if site == 'ifpoint':
            inv = inv + [b == ord('x')]
        env = cparse.Env({n: v for n, v in data.vals.items()}, {n: (CV(s_.len, L.layout.cnt[n]), s_.arr, L.layout.size[n]) for n, s_ in data.strs.items()}, CV(b, C.U8),
                         unsafe=bool(comp.cfg['UNSAFE_STRING_INDEXING']))
        ub = C.UB()
        try:
            val = cparse.evaluate(ast, env, ub)
        except cparse.ParseError:
            return findings
        if env.oob:
            # -funsafe-string-indexing: the program promises in-range indexes (the property's restriction); this is a precondition of the
            # run, so that the unchecked read does not end the symbolic path and the value read from an in-range position is compared
            inv = inv + [z3.Not(z3.Or(*env.oob))]
        mem = L.image(sidx, data, None)
        L.add_chunk(mem, 1, symbols=[b])
        sx = {'queries': 0, 'solver_time': 0.0}
        ex = L.call_feed(mem, 1, solver, inv, sx, max_steps=4000)
        d['queries'] += sx['queries']; d['solver_time'] += sx['solver_time']
        d['cov']['states'] += 1
        for p in ex.paths:
            if p.kind == 'UNWIND':
                continue
            conds = []
            if p.kind != 'RET':
                # the emitted expression code faults (e.g. an index check that lets an out-of-range index through): a difference, if feasible
                # on inputs where the source expression is defined
                goal = z3.BoolVal(False)
                d['obligations'] += 1
                solver.push(); solver.add(*inv, *p.pc, z3.Not(ub.any()))
                r, mdl = symx.robust_check(solver, retry_timeout_ms=30000); d['queries'] += 1
                solver.pop()
                key = f'{text} @{site}/{tname}'
                if r == z3.unsat:
                    d['discharged'] += 1
                elif r == z3.unknown:
                    d['inconclusive'].append('C14 ' + key + ' (aborting path)')
                else:
                    w = stepcmp.model_pre(L, mdl, data, sidx, None)
                    byte = mdl.eval(b, model_completion=True).as_long()
                    f = {'kind': 'c14-diff', 'what': 'emitted C for the expression accesses memory outside the object it indexes', 'detail': f'{site}: {p.kind}: {str(p.why)[:200]}',
                         'sym': 'byte', 'byte': byte, 'pre': w, 'expr': text, 'site': site, 'types': tname, 'oracle_value': None,
                         'label': text, 'cname': f'{site}/{tname}', 'flags': list(flags), 'source': src}
                    clog, diag = replay.run_c(comp, L.layout, {'pre': w, 'calls': [('feed', [byte])]}, sanitize=True)
                    f['replay'] = {'reproduced': True if clog is not None else None, 'clog': str(clog)[:300], 'sanitizer': (diag or '')[:300],
                                   'note': 'an in-struct read one element past an array is not reported by sanitizers; the symbolic path (sub-object bounds) is the evidence, the gcc build is run for the record'}
                    findings.append(f)
                continue
            snapc = L.snapshot(p.mem)
            if site == 'assign':
                conds.append(('stored value of r', snapc[0]['r'] == C.convert(val, L.layout.ct['r']).v))
            elif site == 'boolassign':
                conds.append(('stored value of q', snapc[0]['q'] == z3.If(C.to_bool(val), z3.BitVecVal(1, 8), z3.BitVecVal(0, 8))))
            elif site == 'append':
                s0 = data.strs['s']
                full = z3.UGE(s0.len, L.layout.cap['s'])
                ln, arr = snapc[1]['s']
                conds.append(('appended byte', z3.Implies(z3.Not(full), z3.And(ln == s0.len + 1, z3.Select(arr[0], arr[1] + absm.idx64(s0.len)) == C.convert(val, C.U8).v))))
            elif site == 'ifact':
                names = [e[0] for e in p.events]
                isone = len(names) == 1
                conds.append((f'exactly one hook call ({names})', z3.BoolVal(isone)))
                if isone:
                    conds.append(('branch taken', z3.BoolVal(names[0].endswith('_h1_hook')) == C.to_bool(val)))
            elif site == 'ifpoint':
                conds.append(('branch taken (OK on "x" iff condition holds)', (p.ret == L.codes.index('OK')) == C.to_bool(val)))
            goal = z3.And(*[c for _, c in conds])
            d['obligations'] += 1
            d['cov']['transitions'] += 1
            solver.push(); solver.add(*inv, *p.pc, z3.Not(ub.any()), z3.Not(goal))
            t = time.time(); r, mdl = symx.robust_check(solver, retry_timeout_ms=60000); d['queries'] += 1; d['solver_time'] += time.time() - t
            solver.pop()
            key = f'{text} @{site}/{tname}'
            if r == z3.unsat:
                d['discharged'] += 1
                d['nontrivial'].append(key)
            elif r == z3.unknown:
                # width fallback: the same obligation with every operand restricted to 16 significant bits (stated bound)
                solver.push()
                small = [z3.And(v.v <= 0x7fff, v.v >= -0x8000) if v.t.s else z3.ULE(v.v, 0xffff) for v in data.vals.values() if v is not None and v.t.w > 16]
                solver.add(*inv, *p.pc, *small, z3.Not(ub.any()), z3.Not(goal))
                r2, mdl = symx.robust_check(solver, retry_timeout_ms=60000); d['queries'] += 1
                solver.pop()
                if r2 == z3.unknown:
                    # second fallback: 8 significant bits per operand (stated bound)
                    solver.push()
                    tiny = [z3.And(v.v <= 0x7f, v.v >= -0x80) if v.t.s else z3.ULE(v.v, 0xff) for v in data.vals.values() if v is not None and v.t.w > 8]
                    solver.add(*inv, *p.pc, *tiny, z3.Not(ub.any()), z3.Not(goal))
                    r2, mdl = symx.robust_check(solver, retry_timeout_ms=60000); d['queries'] += 1
                    solver.pop()
                    if r2 == z3.unsat:
                        d['cov'].setdefault('decided_at_reduced_width_8', []).append(key)
                elif r2 == z3.unsat:
                    d['cov'].setdefault('decided_at_reduced_width_16', []).append(key)
                if r2 == z3.unsat:
                    d['discharged'] += 1
                    r = z3.unsat
                elif r2 == z3.unknown:
                    d['inconclusive'].append('C14 ' + key)
                    continue
                else:
                    r = z3.sat
            if r == z3.sat:
                w = stepcmp.model_pre(L, mdl, data, sidx, None)
                byte = mdl.eval(b, model_completion=True).as_long()
                bad = [nm_ for nm_, c in conds if z3.is_false(mdl.eval(c, model_completion=True))]
                expect = z3.simplify(mdl.eval(C.convert(val, C.LONG).v, model_completion=True))
                f = {'kind': 'c14-diff', 'what': 'emitted C evaluates the expression differently from C semantics of its source text', 'detail': f'{site}: {"; ".join(bad)}',
                     'sym': 'byte', 'byte': byte, 'pre': w, 'expr': text, 'site': site, 'types': tname, 'oracle_value': expect.as_long() if z3.is_bv_value(expect) else None,
                     'label': text, 'cname': f'{site}/{tname}', 'flags': list(flags), 'source': src}
                # replay: forced pre-state through the gcc build; observed r / q / appended byte / hook / code vs the oracle value
                clog, diag = replay.run_c(comp, L.layout, {'pre': w, 'calls': [('feed', [byte])]})
                f['replay'] = {'reproduced': None, 'clog': (clog or [])[-3:], 'note': diag[:100] if clog is None else ''}
                if clog:
                    rets = [e for e in clog if e[0] == 'RET']
                    hooks = [e for e in clog if e[0] == 'HOOK']
                    ov = f['oracle_value']
                    if ov is not None and rets:
                        outs = rets[-1][3]
                        if site == 'assign':
                            tr = L.layout.ct['r']
                            want = ov & ((1 << tr.w) - 1)
                            if tr.s and want >= (1 << (tr.w - 1)):
                                want -= 1 << tr.w
                            f['replay']['reproduced'] = str(want) != outs.get('r')
                            f['replay']['expected_r'] = want
                        elif site == 'boolassign':
                            f['replay']['reproduced'] = str(1 if ov != 0 else 0) != outs.get('q')
                        elif site == 'append':
                            l0 = w['strs']['s']['len']
                            hx = outs.get('s', ':').split(':')[1].split('/')[0]
                            got = hx[2 * l0:2 * l0 + 2]
                            f['replay']['reproduced'] = got != '%02x' % (ov & 255)
                        elif site == 'ifact':
                            f['replay']['reproduced'] = [h[1] for h in hooks] != (['h1'] if ov != 0 else ['h2'])
                        elif site == 'ifpoint':
                            f['replay']['reproduced'] = (rets[-1][1] == 'OK') != (ov != 0)
                findings.append(f)
    return findings


def work(job):
    t0 = time.time()
    flags = tuple(job.get('flags', ()))
    out = {'label': job['text'], 'cname': job['tname'], 'flags': list(flags), 'status': 'ok', 'findings': [], 'stats': None, 'wall': 0}
    try:
        st = stepcmp.StepStats()
        ast = job['ast']
        kind = typed(ast)
        sites = []
        if kind == 'int':
            sites = ['assign', 'append', 'ifact'] + ([] if uses_last(ast) else ['ifpoint'])
        elif kind == 'bool':
            sites = ['ifact', 'boolassign'] + ([] if uses_last(ast) else ['ifpoint'])
        elif kind == 'boolc':
            sites = ['ifact'] + ([] if uses_last(ast) else ['ifpoint'])
        if job['tier'] == 'quick' and len(sites) > 2 and not job.get('allsites'):
            rnd = random.Random(zlib.crc32(job["text"].encode()) & 0xffff)
            sites = sites[:1] + [rnd.choice(sites[1:])]
        for site in sites:
            out['findings'] += check_site(ast, job['text'], job['types'], site, st, job['tname'], flags)
        st.d['cov']['programs'] = 1
        if len(st.d['samples']) < 2:
            st.d['samples'].append({'expression': job['text'], 'types': job['tname'], 'sites': sites})
        out['stats'] = st.d
    except Exception as e:
        out['status'] = 'harness-error:' + type(e).__name__ + ':' + str(e)[:300] + ' | ' + traceback.format_exc()[-600:]
    out['wall'] = time.time() - t0
    return out


def main(tier, replay_path):
    run = chk.Run(PID, tier, 'other', 'llsym on emitted one-statement parsers vs own Pratt parser + z3 bit-vector C semantics')
    run.functions = ['nmfu grammar precedence layers', 'ParseCtx._parse_math_expr (incl. not/negate desugaring)', 'CodegenCtx._generate_code_for_int_expr', 'IntegerCondition', 'CodegenCtx._integer_containing']
    rnd = random.Random(chk.seed())
    exprs = pair_exprs() + extra_exprs() + random_exprs(rnd, 30 if tier == 'quick' else 400, 3 if tier == 'quick' else 4)
    tsets = TYPESETS[:2] if tier == 'quick' else TYPESETS
    run.bounds = {'variables': 'all values of the declared width (8/16/32/64 bit), $last 0..255, string bytes/length symbolic', 'expressions': f'{len(exprs)} trees: all operator pairs in both shapes, unary/atom combinations, seeded random trees; '
                                 f'{len(literal_exprs(tier))} trees with literal-only subtrees of negative value under / and % (all use sites); {len(index_exprs())} index expressions',
                  'configurations': 'default; index expressions also with -funsafe-string-indexing, with and without -fstrings-as-u8 (indexes outside the string excluded there)',
                  'type_sets': [t[0] for t in tsets], 'sites': 'assignment, char append, if with actions only (conditional action), if with matches (condition point), bool assignment',
                  'defined_behaviour_only': 'no signed overflow, divisor != 0, shift count in range, non-negative left operand of signed <<; literals < 2^31; reads beyond the current string length excluded',
                  'fallback': 'obligations the solver cannot decide at full width are re-asked with operands restricted to 16 significant bits and listed'}
    run.assumptions = ['x86-64 LP64 integer model', 'clang lowers the emitted text with the real promotions/conversions']
    jobs = []
    for i, ast in enumerate(exprs):
        text = cparse.show(ast)
        for j, (tname, types) in enumerate(tsets):
            if tier == 'quick' and (i + j) % 2 == 1:
                continue
            jobs.append({'ast': ast, 'text': text, 'label': text, 'tname': tname, 'types': types, 'tier': tier, 'src': ''})
    # literal-only subtrees with negative intermediate values under / and %: spelled as written (character constants, hex), every use site
    lits = literal_exprs(tier)
    for i, (text, ast) in enumerate(lits):
        for j, (tname, types) in enumerate(TYPESETS):
            if (i + j) % 4 != 0:
                continue
            jobs.append({'ast': ast, 'text': text, 'label': text, 'tname': tname, 'types': types, 'tier': tier, 'src': '', 'allsites': True})
    # index expressions: the new ones in the default configuration; these and every other tree with an index (in the quick tier: of the
    # hand-written list) under unchecked indexing over char and uint8_t buffers (in-range indexes only) and, thorough, checked indexing over uint8_t
    idxs = index_exprs()
    for i, (text, ast) in enumerate(idxs):
        if tier == 'quick' and i % 2 == 1:
            continue
        tname, types = tsets[i % len(tsets)]
        jobs.append({'ast': ast, 'text': text, 'label': text, 'tname': tname, 'types': types, 'tier': tier, 'src': ''})
    others = [(cparse.show(a), a) for a in (extra_exprs() if tier == 'quick' else exprs) if has_idx(a)]
    seen = set()
    nhand = len(idxs) + sum(1 for a in extra_exprs() if has_idx(a))
    if tier != 'quick':
        others = [(cparse.show(a), a) for a in extra_exprs() if has_idx(a)] + others     # hand-written first (duplicates are skipped below)
    for i, (text, ast) in enumerate(idxs + others):
        if text in seen:
            continue
        seen.add(text)
        tname, types = tsets[(i + 1) % len(tsets)]
        for k, (cname, flags) in enumerate(IDX_CONFIGS):
            if '-funsafe-string-indexing' in flags and static_oob(ast):
                continue
            if tier == 'quick' and (k == 2 or (k == 1 and i % 2 == 1)):
                continue
            if tier != 'quick' and i >= nhand and k != i % len(IDX_CONFIGS):
                continue    # generated trees: one of the three configurations each, in rotation; hand-written ones: all three
            jobs.append({'ast': ast, 'text': text, 'label': text, 'tname': f'{tname}+{cname}', 'types': types, 'tier': tier, 'src': '', 'flags': flags})
    orig = l3check.work
    l3check.work = work
    try:
        consume(run, l3check.run_jobs(jobs), ('c14-diff',), PID)
    finally:
        l3check.work = orig
    return run.finish('Each expression tree is printed with minimal parentheses (C table) into one-statement parsers (assignment, char append, if/conditional action, condition point, bool assignment); '
                      'the emitted C is executed symbolically with every referenced output, $last, string bytes and lengths symbolic at full width, and the stored value / appended byte / branch taken is '
                      'proved equal to our own C-precedence parse and bit-vector evaluation of the source text, for all values with defined C behaviour.')


if __name__ == '__main__':
    chk.main_wrapper(main)
