"""C15, L2/L3 clause: for enumerated literal spellings (every byte value in each context) the compiled machine accepts exactly the
spelled byte(s) — decided by z3 over the symbolic input byte on the real DFA — and the emitted C stores exactly the spelled bytes
and length for string assignments and defaults — llsym on <p>_feed / <p>_start. run_into(run, tier) adds to an existing chk.Run."""
import random, time, multiprocessing as mp
import z3
from engines import chk, nm, absm, symx, l3 as l3mod, stepcmp, cexpr as C
from engines.nm import End

NAMED = {10: '\\n', 13: '\\r', 9: '\\t', 8: '\\b', 0: '\\0', 34: '\\"', 92: '\\\\'}


def spellings(v):
    out = [('hex', '\\x%02x' % v)]
    if v in NAMED:
        out.append(('named', NAMED[v]))
    if 32 <= v < 127 and v not in (34, 92):
        out.append(('raw', chr(v)))
    return out


def accept_query(comp, layout, expect_set, key, d):
    """solver: from the start state, byte b is consumed without FAIL iff b in expect_set"""
    m = absm.Machine(comp.post, layout)
    solver = z3.Solver(); solver.set('timeout', 20000)
    b = z3.BitVec('chunk_0', 8)
    data, inv = layout.symbolic()
    paths = symx.explore(lambda ctx: m.dispatch(ctx, comp.post.start, b, data), solver, assumptions=inv)
    want = z3.Or(*[b == x for x in sorted(expect_set)])
    bad = None
    for pc, r in paths:
        acc = r.code in ('OK', 'DONE') and r.consumed
        d['obligations'] += 1
        solver.push(); solver.add(*inv, *pc, want if not acc else z3.Not(want))
        res = solver.check(); d['queries'] += 1
        if res == z3.unsat:
            d['discharged'] += 1
        elif res == z3.sat:
            bad = solver.model().eval(b, model_completion=True).as_long()
        else:
            d['inconclusive'].append(key)
        solver.pop()
    d['nontrivial'].append(key)
    return bad


def accept_seq_query(comp, layout, seq, key, d):
    """solver, one query set per position i of the spelled sequence: after the concrete bytes seq[:i] (fed from the start state), byte b
    is consumed without FAIL iff b == seq[i].  -> None or (i, wrongly treated byte)"""
    m = absm.Machine(comp.post, layout)
    solver = z3.Solver(); solver.set('timeout', 20000)
    data, inv = layout.symbolic()
    st = comp.post.start
    for i, x in enumerate(seq):
        b = z3.BitVec('chunk_%d' % i, 8)
        paths = symx.explore(lambda ctx: m.dispatch(ctx, st, b, data), solver, assumptions=inv)
        want = b == x
        bad, nxt = None, None
        for pc, r in paths:
            acc = r.code in ('OK', 'DONE') and r.consumed
            d['obligations'] += 1
            solver.push(); solver.add(*inv, *pc, want if not acc else z3.Not(want))
            res = solver.check(); d['queries'] += 1
            if res == z3.unsat:
                d['discharged'] += 1
            elif res == z3.sat:
                bad = solver.model().eval(b, model_completion=True).as_long()
            else:
                d['inconclusive'].append(key)
            solver.pop()
            if acc and r.code == 'OK':
                solver.push(); solver.add(*inv, *pc, want)
                if solver.check() == z3.sat:
                    nxt = r
                d['queries'] += 1
                solver.pop()
        if bad is not None:
            d['nontrivial'].append(key)
            return i, bad
        if nxt is None:
            if i != len(seq) - 1:
                d['inconclusive'].append(key + ' [no successor state after position %d]' % i)
            break
        st, data = nxt.state, nxt.data
    d['nontrivial'].append(key)
    return None


def store_query(comp, expect, via, key, d):
    """llsym: after start() (default) or after feeding 'a' (assignment), s holds exactly `expect` (bytes) with counter len(expect)"""
    L = l3mod.L3(comp)
    solver = z3.Solver(); solver.set('timeout', 20000)
    sx = {'queries': 0, 'solver_time': 0.0}
    if via == 'default':
        mem = L.raw_image()
        ex = L.call1('start', mem, solver, [], sx)
        inv = []
    elif via == 'append':
        # start() then feed 'a': the appended byte lands in the empty string
        mem = L.raw_image()
        ex0 = L.call1('start', mem, solver, [], sx)
        p0 = [p for p in ex0.paths if p.kind == 'RET'][0]
        mem = p0.mem
        L.add_chunk(mem, 1, symbols=[z3.BitVecVal(ord('a'), 8)])
        ex = L.call_feed(mem, 1, solver, list(p0.pc), sx)
        inv = list(p0.pc)
    else:
        data, inv0 = L.layout.symbolic()
        inv = stepcmp.pre_inv(L, data, inv0, None)
        mem = L.image(comp.post.index[comp.post.start], data, None)
        L.add_chunk(mem, 1, symbols=[z3.BitVecVal(ord('a'), 8)])
        ex = L.call_feed(mem, 1, solver, inv, sx)
    d['queries'] += sx['queries']
    problems = []
    for f in ex.fails:
        problems.append(f'{f.kind} {f.detail}')
    for p in ex.paths:
        if p.kind != 'RET':
            continue
        ln, arr = L.snapshot(p.mem)[1]['s']
        term = comp.spec['s'].str_null   # an unterminated string has no NUL after its bytes (the byte after an exact fit is not part of it)
        conds = [ln == len(expect)] + [z3.Select(arr[0], arr[1] + i) == x for i, x in enumerate(expect)] + ([z3.Select(arr[0], arr[1] + len(expect)) == 0] if term else [])
        d['obligations'] += 1
        solver.push(); solver.add(*inv, *p.pc, z3.Not(z3.And(*conds)))
        res = solver.check(); d['queries'] += 1
        if res == z3.unsat:
            d['discharged'] += 1
        elif res == z3.sat:
            mdl = solver.model()
            got = [mdl.eval(z3.Select(arr[0], arr[1] + i), model_completion=True).as_long() for i in range(len(expect) + (1 if term else 0))]
            problems.append(f'stored length {mdl.eval(ln, model_completion=True)} bytes {got} instead of {list(expect)}')
        else:
            d['inconclusive'].append(key)
        solver.pop()
    d['nontrivial'].append(key)
    return problems


def work(job):
    v, tier = job
    d = {'obligations': 0, 'discharged': 0, 'queries': 0, 'solver_time': 0.0, 'nontrivial': [], 'samples': [], 'inconclusive': [], 'harness_errors': [], 'cov': {'programs': 0}}
    finds = []
    bs = v if isinstance(v, tuple) else (v,)

    def lit(kind):
        return ''.join(dict(spellings(x)).get(kind) or '\\x%02x' % x for x in bs)
    kinds = ['hex'] + [k for k in ('named', 'raw') if all(k in dict(spellings(x)) for x in bs)]
    progs = []
    for k in kinds:
        t = lit(k)
        if len(bs) == 1:
            progs.append((f'match/{k}', f'parser {{ "{t}"; "z"; }}', 'accept', {bs[0]}))
            cs = {bs[0]}
            if chr(bs[0]).isascii() and chr(bs[0]).isalpha():
                cs = {ord(chr(bs[0]).lower()), ord(chr(bs[0]).upper())}
            progs.append((f'casei/{k}', f'parser {{ "{t}"i; "z"; }}', 'accept', cs))
        progs.append((f'assign/{k}', f'out str[6] s; parser {{ "a"; s = "{t}"; "b"; }}', 'assign', bs))
        progs.append((f'default/{k}', f'out str[6] s = "{t}"; parser {{ "a"; }}', 'default', bs))
    hexpairs = ' '.join('%02x' % x for x in bs)
    progs.append(('default/binary', f'out str[6] s = "{hexpairs}"b; parser {{ "a"; }}', 'default', bs))
    progs.append(('default/binary-exact-fit', f'out unterminated str[{len(bs)}] s = "{hexpairs}"b; parser {{ "a"; }}', 'default', bs))
    if len(bs) > 1:
        # multi-byte literals as matches (every position: accepted iff it is the spelled byte, then exactly the 'z' that follows) and
        # binary strings whose hex pairs are grouped into words -- all bytes in one word, and a first byte alone followed by one word --
        # as match and as default: the bytes are the pairs, whatever the grouping (a 00 pair at the start of a word is a byte)
        joined = ''.join('%02x' % x for x in bs)
        split1 = '%02x ' % bs[0] + ''.join('%02x' % x for x in bs[1:])
        seq = tuple(bs) + (ord('z'),)
        progs.append(('match-seq/hex', f'parser {{ "{lit("hex")}"; "z"; }}', 'accept_seq', seq))
        progs.append(('binary-seq/pairs', f'parser {{ "{hexpairs}"b; "z"; }}', 'accept_seq', seq))
        progs.append(('binary-seq/one-word', f'parser {{ "{joined}"b; "z"; }}', 'accept_seq', seq))
        progs.append(('binary-seq/upper-one-word', f'parser {{ "{joined.upper()}"b; "z"; }}', 'accept_seq', seq))
        progs.append(('default/binary-one-word', f'out str[6] s = "{joined}"b; parser {{ "a"; }}', 'default', bs))
        if len(bs) > 2:
            progs.append(('binary-seq/byte-then-word', f'parser {{ "{split1}"b; "z"; }}', 'accept_seq', seq))
            progs.append(('default/binary-byte-then-word', f'out str[6] s = "{split1}"b; parser {{ "a"; }}', 'default', bs))
    if len(bs) == 1:
        progs.append(('binary', f'parser {{ "{bs[0]:02x}"b; "z"; }}', 'accept', {bs[0]}))
        progs.append(('binary-upper', f'parser {{ "{bs[0]:02X}"b; "z"; }}', 'accept', {bs[0]}))
        progs.append(('binregex', f'parser {{ b/{bs[0]:02x}/; "z"; }}', 'accept', {bs[0]}))
        if 32 <= bs[0] < 127 and bs[0] not in (39, 92):
            progs.append(('charconst', f"out int x = 0; out str[6] s; parser {{ \"a\"; s += ['{chr(bs[0])}']; \"b\"; }}", 'append', bs))
    for name, src, what, exp in progs:
        key = f'C15/l23/{name}:{list(bs)}'
        comp = nm.compile_src(src)
        if comp.verdict != 'ok':
            d['cov'].setdefault('rejected', []).append(f'{key}: {comp.verdict} {comp.error}')
            if comp.verdict == 'crash':
                d['cov'].setdefault('compiler_crashes_C18', []).append(key)
            continue
        d['cov']['programs'] += 1
        try:
            layout = absm.Layout(comp.spec)
            if what == 'accept':
                bad = accept_query(comp, layout, exp, key, d)
                if bad is not None:
                    finds.append({'obligation': f'C15/l23/{name}', 'bytes': list(bs), 'context': name, 'source': src, 'what': f'literal {name} spelled for {list(bs)}: byte {bad} is accepted/rejected wrongly',
                                  'detail': f'byte {bad}'})
            elif what == 'accept_seq':
                bad = accept_seq_query(comp, layout, exp, key, d)
                if bad is not None:
                    i, m_ = bad
                    finds.append({'obligation': f'C15/l23/{name}', 'bytes': list(bs), 'context': name, 'source': src, 'prefix': list(exp[:i]), 'expected_next': exp[i],
                                  'what': f'literal {name} spelled for {list(bs)}: after {list(exp[:i])} byte {m_} is accepted/rejected wrongly (the spelled sequence continues with {exp[i]})',
                                  'detail': f'byte {m_}'})
            elif what in ('assign', 'default', 'append'):
                probs = store_query(comp, exp, what, key, d)
                for pr in probs[:1]:
                    finds.append({'obligation': f'C15/l23/{name}', 'bytes': list(bs), 'context': name, 'source': src, 'what': f'literal {name} spelled for {list(bs)}: {pr}', 'detail': pr})
        except (l3mod.Unencodable, absm.Unsupported) as e:
            d['cov'].setdefault('unencodable', []).append(f'{key}: {e}'[:160])
        except Exception as e:
            d['harness_errors'].append(f'{key}: {type(e).__name__}: {e}'[:300])
    if len(d['samples']) < 1:
        d['samples'].append({'bytes': list(bs), 'programs': [p[0] for p in progs]})
    return d, finds


def replay_store(f):
    """concrete replay on the gcc build: run start (+ feed 'a') and read back s"""
    from engines import replay
    comp = nm.compile_src(f['source'])
    if comp.verdict != 'ok':
        return None
    layout = absm.Layout(comp.spec)
    calls = [] if f['context'].startswith('default') else [('feed', [ord('a')])]
    clog, diag = replay.run_c(comp, layout, {'calls': calls})
    if not clog:
        return None
    rets = [e for e in clog if e[0] == 'RET']
    got = rets[-1][3].get('s', '')
    want = '%d:%s' % (len(f['bytes']), ''.join('%02x' % b for b in f['bytes']))
    return {'reproduced': got.split('/')[0] != want or not got.endswith('/00'), 'got': got, 'want': want + '/00'}


def replay_accept(f):
    comp = nm.compile_src(f['source'], want_c=False)
    if comp.verdict != 'ok':
        return None
    m = int(f['detail'].split()[-1])
    if 'prefix' in f:      # multi-byte literal: the real DFA on prefix + byte; accepted iff it is the byte the spelling continues with
        st = comp.dfa.simulate([chr(x) for x in f['prefix']] + [chr(m)])
        ok = st is not None and st is not comp.dctx.generic_fail_state
        return {'reproduced': ok != (m == f['expected_next']), 'simulate': str(st)}
    st = comp.dfa.simulate([chr(m)])
    ok = st is not None and st is not comp.dctx.generic_fail_state
    return {'reproduced': ok != (m in f['bytes'] or (f['context'].startswith('casei') and chr(m).lower() == chr(f['bytes'][0]).lower())), 'simulate': str(st)}


def run_into(run, tier):
    rnd = random.Random(chk.seed())
    vals = list(range(256)) if tier == 'thorough' else sorted(set([0, 1, 8, 9, 10, 13, 31, 32, 34, 39, 47, 48, 57, 65, 90, 92, 97, 102, 122, 126, 127, 128, 129, 191, 192, 223, 254, 255] + rnd.sample(range(256), 16)))
    pairs = [(1, 97), (0, 48), (127, 70), (200, 201), (97, 98), (255, 0), (10, 13), (65, 128), (0, 0), (0, 1, 2), (0, 0, 65), (65, 0, 66), (10, 0, 0, 255)] + ([(rnd.randrange(256), rnd.randrange(256)) for _ in range(40)] if tier == 'thorough' else [])
    jobs = [(v, tier) for v in vals] + [(p, tier) for p in pairs]
    ctx = mp.get_context('fork')
    with ctx.Pool(chk.ncpu(), maxtasksperchild=16) as pool:
        results = pool.map(work, jobs, chunksize=2)
    for d, finds in results:
        run.merge_stats(d)
        for f in finds:
            rep = replay_accept(f) if f['what'].find('accepted/rejected') >= 0 else replay_store(f)
            w = dict(f); w['replay'] = rep
            w['data'] = f['bytes']
            if rep and rep.get('reproduced'):
                run.violation(f['obligation'], w, f['what'])
            elif rep is None:
                run.inconc(f['obligation'] + ' replay unavailable')
            else:
                run.harness_error(f"model does not reproduce: {f['obligation']} {f['what']} {rep}")
    run.functions += ['DirectMatch / CaseDirectMatch / BinaryRegexMatch conversion of literals (compiled DFA, symbolic input byte)',
                      'emitted SetToStr / default memcpy (CodegenCtx._generate_set_string, _escape_string) executed by llsym']
    run.bounds['l23'] = {'single_bytes': len(vals), 'byte_pairs': len(pairs), 'contexts': 'match, casei, binary string (both cases), binary regex, string assignment, string default (text and binary spelling, also exact fit), char constant append; '
                         'for the multi-byte literals: match position by position (text, binary pairs, binary pairs grouped into one word / a byte then a word, either case) and '
                         'default spelled as one word / a byte then a word',
                         'input_byte': 'symbolic 0..255'}
