"""C07 - a compiled regular expression accepts exactly its language.

Per regex (text form `/re/` and binary form `b/re/`), the machine the REAL compiler produces for `parser { /re/; }`
(default options) is compared with the Brzozowski-derivative automaton of engines/refre.py:
  * an UNTRUSTED product search proposes a relation R between machine states and derivative states;
  * z3 VERIFIES it: start states related, and for every pair in R and EVERY byte (one symbolic BitVec(8)) one step of
    both sides gives equal observables - no-match path (FAIL) <=> derivative empty at that very byte, DONE <=> nullable
    and nothing can follow, successor pair in R again - and every pair has accepting <=> nullable;  End is a separate
    symbol: it must never be consumed by a data transition (byte class, wildcard, inverted set, plain Else);
  * independently, a bounded run from the start (symbolic bytes b0..b7, symbolic length) is unrolled for both sides
    and z3 is asked for an input on which the observables differ.
Only a solver model that is replayed concretely (our stepper == nmfu's own DFA.trace, reference disagrees) is a violation.
"""
import json, sys, time
from engines import chk, nm, dfz, refre, gen_re

FLAGS = ()
K = 8
EXH = {'quick': 4, 'thorough': 5}
ENGINE = ('E2 certificate + BMC: compiled regex machine (real nmfu compile, default options) vs Brzozowski-derivative automaton (refre); '
          'input byte symbolic (z3 BitVec 8), End separate; regexes enumerated')


def inverted_info(expr):
    """for witnesses: the inverted classes written in the regex and whether two of them are disjoint as byte sets
    (their excluded sets cover all 256 bytes) - facts about the source text, from lark's tree and our own class reading"""
    tree = nm.N.parser.parse(gen_re.regex_program(expr), start='start')
    sets = []
    for t in tree.iter_subtrees():
        d = str(t.data)
        if d.startswith('binary_'):
            d = d[7:]
        inv = d in ('regex_inverted_set', 'regex_any') or (d == 'regex_char_class' and str(t.children[0])[0] in 'WDS')
        if inv:
            term = refre.conv(t, str(t.data).startswith('binary_'))
            members = term.a if term.tag == 's' else frozenset()
            sets.append(refre.ALL - members)
    disjoint = any((a | b) == refre.ALL for i, a in enumerate(sets) for b in sets[i + 1:])
    return {'n_inverted_classes': len(sets), 'two_inverted_classes_disjoint': disjoint}


def work(item):
    expr, form, tag, do_bmc = item
    refre.reset()
    r = _work(item)
    for v in r['violations']:
        try:
            v['witness'].update(inverted_info(expr))
        except Exception as e:
            v['witness']['inverted_info_error'] = str(e)
    return r


def _work(item):
    expr, form, tag, do_bmc = item
    r = dfz.analyse(gen_re.regex_program(expr), FLAGS, slack=False, compare_accept=True, end_policy=dfz.end_policy_nodata, K=K,
                    do_bmc=do_bmc, obligation='language', extra={'regex': expr, 'form': form})
    r['expr'], r['form'], r['tag'] = expr, form, tag
    return r


def items_for(tier):
    if tier == 'thorough':
        ex = gen_re.exhaustive_regexes(EXH['thorough'])
        rnd = gen_re.random_regexes(3000)
        bmc_every = 4
    else:
        ex = gen_re.exhaustive_regexes(EXH['quick'])
        rnd = gen_re.random_regexes(340)
        bmc_every = 2
    items = []
    for i, (src, form, size) in enumerate(ex):
        items.append((src, form, 'ast%d' % size, i % bmc_every == 0))
    for i, (src, form, kind) in enumerate(rnd):
        items.append((src, form, kind, kind != 'random' or i % bmc_every == 0))
    return items, len(ex), len(rnd)


def main(tier, replay):
    run = chk.Run('C07', tier, 'model_checking', ENGINE)
    run.functions = ['RegexMatch.__init__/_visit_all_char_classes/_make_disjoint_groupings/_interpret_parse_tree', 'RegexMatch.convert (Thompson, subset, minimise)',
                     'RegexMatch._create_dfa_state', 'BinaryRegexMatch', 'DfaCompileCtx.compile (default optimisation)']
    run.assumptions = ['programs are enumerated (all ASTs up to the size bound + seeded generator); the verdict is per explored regex',
                       'machine semantics at L2 as in engines/dfz.py (first listed transition else Else; fall-through re-dispatches; DONE = accepting state with only error transitions); its agreement with the emitted C is C06',
                       'compiled with default options (-O1); the -O3 short-circuit defect is C05\'s subject',
                       'dialect reading of engines/refre.py (validated against python re in its selftest): \\s = [ \\t\\n\\r\\v\\f], {n,m} with m<n not defined']
    if replay:
        w = json.load(open(replay))['witness']
        refre.reset()
        r = dfz.analyse(w['src'], tuple(w['flags']), slack=False, compare_accept=True, K=max(K, w.get('n', 0)), do_bmc=True, obligation='language')
        print(json.dumps({'verdict': r['verdict'], 'violations': r['violations']}, indent=1, default=str)[:4000])
        return chk.EXIT_VIOLATION if r['violations'] else chk.EXIT_OK
    items, nex, nrnd = items_for(tier)
    run.bounds = {'K_bmc': K, 'exhaustive_ast_size': EXH.get(tier, 3), 'exhaustive_regexes': nex, 'generated_regexes': nrnd,
                  'atoms_text': gen_re.TEXT_ATOMS, 'atoms_binary': gen_re.BIN_ATOMS, 'operators': ['seq', 'alt'] + gen_re.OPS, 'flags': list(FLAGS)}
    counters = {}
    bytag = {}
    shown = {}
    for r in dfz.pool_map(work, items, chunksize=8):
        v = dfz.absorb(run, r, 'C07:' + r['expr'], r['expr'], 'C07/', counters)
        bytag.setdefault(r['tag'], {}).setdefault(v, 0)
        bytag[r['tag']][v] += 1
        if v == 'verified' and r['bmc'] == 'unsat' and r['pairs'] >= 2 and shown.get(r['tag'], 0) < 3:
            shown[r['tag']] = shown.get(r['tag'], 0) + 1
            run.sample({'regex': r['expr'], 'family': r['tag'], 'verdict': 'certificate verified by z3 (%d pairs, %d step combinations); BMC K=%d unsat' % (r['pairs'], r['steps'], r.get('bmc_K', K))}, limit=24)
        elif v not in ('verified',):
            run.sample({'regex': r['expr'], 'verdict': v, 'detail': str(r.get('error') or r['inconclusive'] or r['harness'])[:200]}, limit=30)
    run.cov['programs'] = len(items)
    run.cov['verdicts'] = counters
    run.cov['verdicts_by_family'] = bytag
    run.cov['bmc_bound_K'] = K
    run.cov.setdefault('compiler_crashes', [])
    if counters.get('verified', 0) == 0:
        run.harness_error('no regex was verified at all (vacuous run)')
    try:
        import importlib
        c07_algebra = importlib.import_module('checks.c07_algebra')
    except ModuleNotFoundError:
        c07_algebra = None
        run.cov['class_algebra'] = 'checks/c07_algebra.py not present in this tree'
    if c07_algebra is not None:
        c07_algebra.run_into(run, tier)
    return run.finish('per regex: z3-verified one-step simulation between the compiled machine and the derivative automaton over one symbolic byte '
                      '(all 256 values) plus End, start states related, accepting<=>nullable on every pair => language equality and equal first-dead-byte '
                      'for inputs of every length; plus an independent unrolled bounded run (K=%d, symbolic bytes and length) on a subset. '
                      'states = related pairs, transitions = (machine path x reference class) step combinations decided.' % K)


if __name__ == '__main__':
    chk.main_wrapper(main)
